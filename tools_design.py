#!/usr/bin/env python3
"""Regenerate the machine-written blocks of DESIGN.md from what the checks and the seed runs recorded:
  <!-- BEGIN:RULES --> ... <!-- END:RULES -->   rule ids and obligation counts per property (from evidence/*.json)
  <!-- BEGIN:SEEDS --> ... <!-- END:SEEDS -->   one row per seeded change (seeded/*/meta.json, first_result.json, RESULTS.json)
Run by hand after `./check` has refreshed the evidence; never run by a check."""
import glob
import json
import os
import re

HERE = os.path.dirname(os.path.abspath(__file__))


def rules_block():
    out = []
    for p in sorted(glob.glob(os.path.join(HERE, "evidence", "C*.json"))):
        e = json.load(open(p))
        cov = e["coverage"]
        per = cov.get("per_rule", {})
        items = ["%s %d" % (r, v["obligations"]) for r, v in sorted(per.items(), key=lambda kv: -kv[1]["obligations"])]
        out.append("* **%s** (%d obligations): %s" % (e["property_id"], cov["obligations"], ", ".join(items)))
    return "\n".join(out)


def more_block():
    """rules each check runs that the prose paragraph of its property (section 5) does not name"""
    text = open(os.path.join(HERE, "DESIGN.md")).read()
    out = []
    for p in sorted(glob.glob(os.path.join(HERE, "evidence", "C*.json"))):
        e = json.load(open(p))
        pid = e["property_id"]
        m = re.search(r"^### %s — .*?(?=^### |^---)" % pid, text, re.S | re.M)
        para = m.group(0) if m else ""
        extra = [r for r in sorted(e["coverage"].get("per_rule", {})) if r not in para]
        if extra:
            out.append("* **%s** also runs: %s." % (pid, ", ".join(extra)))
    return "\n".join(out)


def catalogue_block():
    rules = {}
    for p in sorted(glob.glob(os.path.join(HERE, "evidence", "C*.json"))):
        e = json.load(open(p))
        for r, v in e["coverage"].get("per_rule", {}).items():
            ent = rules.setdefault(r, {"text": v.get("rule", ""), "props": [], "n": 0})
            ent["props"].append(e["property_id"])
            ent["n"] = max(ent["n"], v["obligations"])
    out = ["| rule | statement (as printed in the evidence) | run by | most instances in one check |", "|---|---|---|---|"]
    for r in sorted(rules):
        ent = rules[r]
        out.append("| %s | %s | %s | %d |" % (r, re.sub(r"\s+", " ", ent["text"]).replace("|", "/"), " ".join(ent["props"]), ent["n"]))
    out.append("")
    out.append("%d rules." % len(rules))
    return "\n".join(out)


def rule_of(report):
    m = re.search(r"rule=([A-Z0-9-]+)", report)
    return m.group(1) if m else None


def seeds_block():
    res = json.load(open(os.path.join(HERE, "seeded", "RESULTS.json")))
    rows = ["| seed | change (start of the author's summary) | reported by (own property's check) | first run, before any rule was written for it |",
            "|---|---|---|---|"]

    def key(d):
        m = re.match(r"(C\d+)-(r(\d+)-)?(\d+)", d)
        return (int(m.group(3) or 1), m.group(1), int(m.group(4)))
    dirs = sorted((d for d in os.listdir(os.path.join(HERE, "seeded")) if re.match(r"C\d+-", d)), key=key)
    ncaught = nfirst = 0
    for d in dirs:
        meta = json.load(open(os.path.join(HERE, "seeded", d, "meta.json")))
        fr = {}
        fp = os.path.join(HERE, "seeded", d, "first_result.json")
        if os.path.exists(fp):
            fr = json.load(open(fp))
        r = res.get(d, {})
        prop = meta["property"]
        reps = (r.get("detail", {}).get(prop, {}) or {}).get("reports", [])
        rules = []
        for x in reps:
            ru = rule_of(x)
            if ru and ru not in rules:
                rules.append(ru)
        caught = prop in r.get("caught_by", [])
        ncaught += caught
        first = fr.get("first_result", "")
        if isinstance(first, dict):
            first = json.dumps(first)
        if str(first).lower().startswith("caught"):
            nfirst += 1
        summ = re.sub(r"\s+", " ", meta.get("summary", ""))[:150].replace("|", "/")
        others = [p_ for p_ in r.get("caught_by", []) if p_ != prop]
        shown = ", ".join(rules) if caught else ("**not by %s**; reported by %s" % (prop, ", ".join(others)) if others else "**missed**")
        rows.append("| %s | %s | %s | %s |" % (d, summ, shown, str(first).replace("|", "/")))
    rows.append("")
    rows.append("%d seeded changes; %d reported by their own property's check today; %d were reported on the first run "
                "(by a rule that existed before the seed was seen)." % (len(dirs), ncaught, nfirst))
    return "\n".join(rows)


def main():
    p = os.path.join(HERE, "DESIGN.md")
    s = open(p).read()
    for name, fn in (("RULES", rules_block), ("MORE", more_block), ("CATALOGUE", catalogue_block), ("SEEDS", seeds_block)):
        b, e = "<!-- BEGIN:%s -->" % name, "<!-- END:%s -->" % name
        if b in s and e in s:
            s = s[:s.index(b) + len(b)] + "\n" + fn() + "\n" + s[s.index(e):]
        else:
            print("marker %s missing" % name)
    open(p, "w").write(s)


if __name__ == "__main__":
    main()
