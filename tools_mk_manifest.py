import json
props=[json.loads(l) for l in open('/verif/properties.jsonl')]
claimed=json.load(open('/verif/tables/claims.json'))
checks=[]
for p in props:
    pid=p['id']
    if pid not in claimed['claimed']: continue
    c=claimed['claimed'][pid]
    checks.append({
      "property_id":pid,
      "quick_cmd":"./check %s --tier quick"%pid,
      "thorough_cmd":"./check %s --tier thorough"%pid,
      "evidence_file":"evidence/%s.json"%pid,
      "replay_cmd_template":"./check %s --replay {path}"%pid,
      "engine":"sa",
      "level_claimed":{"category":"other","text":c['text'],"design_ref":c.get('design_ref','DESIGN.md section 5 (%s)'%pid)},
      "level_note":c['note'],
      "technique":c['technique'],
    })
na=[{"property_id":k,"reason":v} for k,v in claimed['not_applicable'].items()]
m={"version":1,
   "setup_cmd":"./check warm",
   "hooks":{"guard":"TSKIT_DEV_TSKIT_VERIF","enable":"none needed: the analysis never runs tskit, no instrumentation hooks exist","baseline_off_cmd":"cd /repo && /venv/bin/python -m pytest -ra -q -p no:cacheprovider --timeout=900 --continue-on-collection-errors","source_commits":[],"add_only":True},
   "engines":[{"name":"sa","path":"sa/","serves_properties":sorted(claimed['claimed']),"kind_free_text":"repository-specific static analysis: clang-14 JSON AST -> typed IR + statement CFG for C; Python ast for the facade; rule modules under rules/"}],
   "checks":checks,
   "not_applicable":na,
   "notes":"Static analysis family only. Each check decides named structural clauses of its property (listed in DESIGN.md section 5) and states what it declines. Exit 0 = all obligations discharged, exit 1 + VIOLATION line = a construct violates a rule, exit 2 + ANALYSIS-ERROR = the analysis could not run (anchor missing). Known findings (genuine defects recorded rather than repaired) and the list of fixed defects are in known_findings.json, matched by rule and construct; a listed finding prints a KNOWN-FINDING line and does not fail the check."}
json.dump(m,open('/verif/MANIFEST.json','w'),indent=1)
print(len(checks),'checks',len(na),'n/a')
