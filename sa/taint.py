"""A2 stage 2 (guard presence): per (function, integer parameter) summaries over libtskit

  REQUIRES  the parameter is used as an array index (directly, or by being passed to a REQUIRES parameter of a callee)
            on some path that no range test on it - and no call to a CHECKER of it - dominates
  CHECKER   the function range-tests the parameter (both bounds, or the upper bound for unsigned types) and error-exits

and the obligation on the module: a Python-supplied integer reaches a REQUIRES parameter or a subscript only after a
range test or a CHECKER call."""
from __future__ import annotations

import re

from .cfg import CFG
from .expr import strip, walk, callee, estr, xstr, is_assign, local_aliases
from .guards import find_guards, range_guarded_expr

INT_T = ("tsk_id_t", "int", "tsk_size_t", "size_t", "int32_t", "uint32_t", "long", "Py_ssize_t", "unsigned int")


def _is_unsigned(ty):
    return ty in ("tsk_size_t", "size_t", "uint32_t", "unsigned int", "uint64_t")


class Taint:
    def __init__(self, P, keys):
        self.P = P
        self.funcs = {}
        for k in keys:
            for f in P.tus[k].funcs.values():
                self.funcs.setdefault(f.name, f)
        self._cfg = {}
        self.checker = {}     # (fname, idx) -> True
        self.requires = {}    # (fname, idx) -> witness text
        self._find_checkers()
        self._solve()

    def cfg(self, f):
        if f.name not in self._cfg:
            self._cfg[f.name] = CFG(f)
        return self._cfg[f.name]

    def _int_params(self, f):
        return [(i, p) for i, p in enumerate(f.params) if re.sub(r"\bconst\b", "", p.ty or "").strip() in INT_T]

    def _find_checkers(self):
        for name, f in self.funcs.items():
            ips = self._int_params(f)
            if not ips:
                continue
            gs = None
            for i, p in ips:
                gs = gs if gs is not None else find_guards(self.P, f)
                for g in gs:
                    iv = g.ivs.get(p.name)
                    if iv is not None and iv.hi is not None and (iv.lo is not None or _is_unsigned(p.ty)):
                        self.checker[(name, i)] = True

    def _node_of(self, cfg, ast):
        for n in cfg.nodes:
            if n.ast is None or n.kind == "join":
                continue
            for x in walk(n.ast):
                if x is ast:
                    return n
        return None

    def guarded(self, f, use_node, pname, unsigned=False):
        """Is every path to use_node covered by a range test on pname or a checker call taking pname?"""
        cfg = self.cfg(f)
        tgt = self._node_of(cfg, use_node)
        if tgt is None:
            return True
        ok, _ = range_guarded_expr(cfg, tgt, pname, lambda e: estr(strip(e)))
        if ok:
            return True
        if unsigned:
            # only an upper bound is needed
            from .guards import range_guarded_expr as rg
            flip = {"<": ">", ">": "<", "<=": ">=", ">=": "<="}
            upper_ok = set()
            for n in cfg.nodes:
                if n.kind != "cond" or n.ast is None:
                    continue
                c = strip(n.ast, casts=False)
                if c is None or c.k != "BinaryOperator" or c.op not in flip:
                    continue
                l, r = estr(strip(c.kids[0])), estr(strip(c.kids[1]))
                op = c.op if l == pname else (flip[c.op] if r == pname else None)
                if op is None:
                    continue
                for s, lab in n.succ:
                    if (op in ("<", "<=") and lab is True) or (op in (">", ">=") and lab is False):
                        upper_ok.add((n, s))
            if upper_ok and not cfg.path_exists(cfg.entry, tgt, avoid_edge=lambda a, b, lab: (a, b) in upper_ok):
                return True
        # checker calls
        chk = set()
        for n in cfg.nodes:
            if n.ast is None or n.kind == "join":
                continue
            for x in walk(n.ast):
                if x.k == "CallExpr":
                    c = callee(x)
                    if c is None:
                        continue
                    for k, a in enumerate(x.kids[1:]):
                        if estr(strip(a)) == pname and self.checker.get((c, k)):
                            chk.add(n)
        if chk and tgt not in chk and not cfg.path_exists(cfg.entry, tgt, avoid=chk):
            return True
        return False

    def uses(self, f, pname):
        """[(node, kind, text)] index uses of pname in f: direct subscripts and REQUIRES call arguments."""
        out = []
        for x in walk(f.body):
            if x.k == "ArraySubscriptExpr" and estr(strip(x.kids[1])) == pname:
                out.append((x, "index", estr(x)))
            elif x.k == "CallExpr":
                c = callee(x)
                if c is None:
                    continue
                for k, a in enumerate(x.kids[1:]):
                    if estr(strip(a)) == pname and (c, k) in self.requires:
                        out.append((x, "call", "%s(arg %d) -> %s" % (c, k, self.requires[(c, k)])))
        return out

    def _solve(self):
        changed = True
        it = 0
        while changed and it < 12:
            changed = False
            it += 1
            for name, f in self.funcs.items():
                for i, p in self._int_params(f):
                    if (name, i) in self.requires:
                        continue
                    # a parameter that is reassigned before use is not tracked
                    for node, kind, text in self.uses(f, p.name):
                        if not self.guarded(f, node, p.name, _is_unsigned(re.sub(r"\bconst\b", "", p.ty or "").strip())):
                            self.requires[(name, i)] = text if kind == "index" else text
                            changed = True
                            break
