"""A3: error-discipline analysis.

can_fail(f): f returns the library's error type and contains an error constructor
(`tsk_trace_error(..)`, a negative TSK_ERR_/KAS_ERR_ constant flowing to its return value) or
returns the result of a can_fail function; fixpoint over the call graph.

check_sites(fn): for every call to a can_fail function (or to one of the listed libc/CPython
functions) the result is (a) tested on every path before it is overwritten or the function
returns, (b) returned, or (c) the call site is a frozen single-symbol exception.
"""
from __future__ import annotations

import re

from .cfg import CFG
from .expr import strip, walk, callee, estr, is_assign, upper_idents

LIBC_CHECKED = {"fread", "fwrite", "fseek", "ftell", "fclose", "fflush"}
ALLOC = {"tsk_malloc", "tsk_calloc", "tsk_realloc", "malloc", "calloc", "realloc", "PyMem_Malloc", "PyDataMem_NEW"}


def returns_error_type(fn):
    r = (fn.ret or "").replace("TSK_WARN_UNUSED", "").strip()
    return r in ("int", "tsk_id_t", "static int", "static tsk_id_t") or r.endswith(" int") or r.endswith("tsk_id_t")


class ErrProp:
    def __init__(self, P, keys):
        self.P = P
        self.funcs = {}
        for k in keys:
            for f in P.tus[k].funcs.values():
                self.funcs.setdefault(f.name, f)
        self.can_fail = {}
        self._solve()

    def _direct_fail(self, fn):
        tu = self.P.tu_of(fn)
        for x in walk(fn.body):
            if (is_assign(x) or x.k in ("ReturnStmt", "VarDecl")):
                src = tu.src(x)
                if "tsk_trace_error" in src or "tsk_set_kas_error" in src or re.search(r"\b(TSK|KAS)_ERR_[A-Z_0-9]+", src):
                    if x.k == "VarDecl" and "TSK_ERR_GENERIC" in src and src.count("_ERR_") == 1:
                        continue
                    return True
        return False

    def _solve(self):
        for n, f in self.funcs.items():
            self.can_fail[n] = returns_error_type(f) and self._direct_fail(f)
        changed = True
        while changed:
            changed = False
            for n, f in self.funcs.items():
                if self.can_fail[n] or not returns_error_type(f):
                    continue
                for x in walk(f.body):
                    if x.k == "CallExpr":
                        c = callee(x)
                        if c in self.can_fail and self.can_fail[c]:
                            # result flows to an assignment or return
                            self.can_fail[n] = True
                            changed = True
                            break

    # ----------------------------------------------------------------------------------
    def sites(self, fn, extra_callees=()):
        """[(call node, callee, var or None, kind)] kind: 'assigned' | 'returned' | 'discarded' | 'condition' | 'other'"""
        out = []
        parent = {}
        for x in walk(fn.body):
            for c in x.kids:
                if c is not None:
                    parent[id(c)] = x
        for x in walk(fn.body):
            if x.k != "CallExpr":
                continue
            c = callee(x)
            if c is None:
                continue
            if not (self.can_fail.get(c) or c in extra_callees):
                continue
            # climb through casts/parens
            cur = x
            p = parent.get(id(cur))
            while p is not None and p.k in ("ParenExpr", "ImplicitCastExpr", "CStyleCastExpr"):
                cur = p
                p = parent.get(id(cur))
            if p is None:
                out.append((x, c, None, "other"))
            elif p.k == "BinaryOperator" and p.op == "=" and p.kids[1] is cur:
                l = strip(p.kids[0])
                out.append((x, c, estr(l), "assigned"))
            elif p.k == "VarDecl":
                out.append((x, c, p.name, "assigned"))
            elif p.k == "ReturnStmt":
                out.append((x, c, None, "returned"))
            elif p.k in ("CompoundStmt", "IfStmt", "ForStmt", "WhileStmt", "DoStmt", "LabelStmt", "CaseStmt", "DefaultStmt") and \
                    not (p.k == "IfStmt" and p.kids[0] is cur) and not (p.k in ("WhileStmt",) and p.kids[0] is cur):
                out.append((x, c, None, "discarded"))
            elif p.k == "BinaryOperator" and p.op in ("!=", "==", "<", ">", "<=", ">=", "&&", "||"):
                out.append((x, c, None, "condition"))
            elif p.k in ("IfStmt", "WhileStmt", "UnaryOperator", "ConditionalOperator"):
                out.append((x, c, None, "condition"))
            else:
                out.append((x, c, None, "other"))
        return out

    def checked_after(self, fn, cfg, call, var):
        """Is `var` tested (or returned) on every path after the assignment, before being overwritten?"""
        node = None
        for n in cfg.nodes:
            if n.ast is None or n.kind == "join":
                continue
            for x in walk(n.ast):
                if x is call:
                    node = n
                    break
            if node:
                break
        if node is None:
            return False, "call not located in CFG"
        if node.kind in ("cond", "switch"):
            # `if ((ret = f()) != 0)`: the assignment is an operand of the decision itself
            return True, "assigned and tested in the same condition"
        seen = set()
        st = [s for s, _ in node.succ]
        while st:
            n = st.pop()
            if n in seen:
                continue
            seen.add(n)
            if n is cfg.exit:
                return False, "function exit reached with `%s` unchecked" % var
            if n.ast is not None and n.kind in ("cond", "switch"):
                if _mentions(n.ast, var):
                    continue
            if n.ast is not None and n.kind == "stmt":
                a = n.ast
                if a.k == "ReturnStmt":
                    if _mentions(a, var):
                        continue
                    return False, "returns without testing `%s`" % var
                if is_assign(a) and estr(strip(a.kids[0])) == var:
                    if _mentions(a.kids[1], var):
                        pass    # ret = (int) ret_id style conversion keeps the value
                    else:
                        return False, "`%s` overwritten at offset %d before being tested" % (var, a.b)
                # a conversion into another variable: ret = (int) ret_id
                if is_assign(a) and _mentions(a.kids[1], var) and estr(strip(a.kids[0])) != var \
                        and strip(a.kids[0]).k == "DeclRefExpr" and strip(a.kids[1]).k == "DeclRefExpr":
                    nv = estr(strip(a.kids[0]))
                    ok, why = self._follow(cfg, n, nv)
                    if ok:
                        continue
                    return False, why
                if a.k == "CallExpr" or (a.k in ("BinaryOperator",) and any(c is not None and c.k == "CallExpr" for c in walk(a))):
                    # value passed to a handler counts as a use: handle_library_error(err)
                    if any(c.k == "CallExpr" and any(_mentions(arg, var) for arg in c.kids[1:]) for c in walk(a) if c is not None):
                        continue
            for s, _ in n.succ:
                st.append(s)
        return True, "tested on every path"

    def _follow(self, cfg, node, var):
        seen = set()
        st = [s for s, _ in node.succ]
        while st:
            n = st.pop()
            if n in seen:
                continue
            seen.add(n)
            if n is cfg.exit:
                return False, "function exit reached with `%s` unchecked" % var
            if n.ast is not None and n.kind in ("cond", "switch") and _mentions(n.ast, var):
                continue
            if n.ast is not None and n.kind == "stmt":
                a = n.ast
                if a.k == "ReturnStmt":
                    if _mentions(a, var):
                        continue
                    return False, "returns without testing `%s`" % var
                if is_assign(a) and estr(strip(a.kids[0])) == var and not _mentions(a.kids[1], var):
                    return False, "`%s` overwritten before being tested" % var
            for s, _ in n.succ:
                st.append(s)
        return True, ""


def _mentions(node, var):
    for x in walk(node):
        if x.k in ("DeclRefExpr", "MemberExpr") and estr(x) == var:
            return True
    return False
