"""Facts about python/_tskitmodule.c recovered from its own tables:
PyMethodDef / PyGetSetDef arrays (python name -> C function) and PyArg_Parse* call sites
(format string, keyword list, destination variables)."""
from __future__ import annotations

import re

from .expr import strip, walk, callee, estr


def _str(n):
    n = strip(n)
    if n is not None and n.k == "StringLiteral":
        v = n.val
        if isinstance(v, str) and len(v) >= 2 and v[0] == '"':
            return v[1:-1]
        return v
    return None


def _fref(n):
    n = strip(n)
    if n is not None and n.k == "DeclRefExpr" and n.refkind == "FunctionDecl":
        return n.ref
    return None


def method_tables(tu):
    """{table_name: [(pyname, cfunc)]} for PyMethodDef arrays; getset: [(pyname, getter, setter)]."""
    meths, getsets = {}, {}
    for name, g in tu.globals.items():
        ty = g.ty or ""
        if not g.kids:
            continue
        init = g.kids[-1]
        if init is None or init.k != "InitListExpr":
            continue
        if "PyMethodDef" in ty:
            rows = []
            for row in init.kids:
                if row is None or row.k != "InitListExpr" or len(row.kids) < 2:
                    continue
                s = _str(row.kids[0])
                f = _fref(row.kids[1])
                if s and f:
                    rows.append((s, f))
            meths[name] = rows
        elif "PyGetSetDef" in ty:
            rows = []
            for row in init.kids:
                if row is None or row.k != "InitListExpr" or len(row.kids) < 2:
                    continue
                s = _str(row.kids[0])
                if s:
                    rows.append((s, _fref(row.kids[1]), _fref(row.kids[2]) if len(row.kids) > 2 else None))
            getsets[name] = rows
    return meths, getsets


class ParseCall:
    __slots__ = ("fn", "call", "fmt", "kwlist", "dests", "units")


UNIT_RE = re.compile(r"O!|O&|[a-zA-Z](?:#)?")


def fmt_units(fmt):
    """Split a PyArg format string into units (ignoring | $ : ; and the trailing name)."""
    core = re.split(r"[:;]", fmt)[0]
    core = core.replace("|", "").replace("$", "")
    return UNIT_RE.findall(core)


def parse_calls(tu, fn):
    """All PyArg_ParseTuple / PyArg_ParseTupleAndKeywords / PyArg_Parse calls in fn."""
    out = []
    kwlists = {}
    for x in walk(fn.body):
        if x.k == "VarDecl" and x.name and "kwlist" in x.name and x.kids:
            init = x.kids[-1]
            if init is not None and init.k == "InitListExpr":
                kwlists[x.name] = [_str(c) for c in init.kids if _str(c) is not None]
    for c in walk(fn.body):
        if c.k != "CallExpr":
            continue
        nm = callee(c)
        if nm is None:
            continue
        # with PY_SSIZE_T_CLEAN the macros expand to _PyArg_*_SizeT
        nm = re.sub(r"^_(PyArg_\w+?)_SizeT$", r"\1", nm)
        if nm not in ("PyArg_ParseTuple", "PyArg_ParseTupleAndKeywords", "PyArg_Parse"):
            continue
        a = c.kids[1:]
        pc = ParseCall()
        pc.fn = fn
        pc.call = c
        if nm == "PyArg_ParseTupleAndKeywords":
            pc.fmt = _str(a[2])
            kw = strip(a[3])
            pc.kwlist = kwlists.get(kw.ref) if kw is not None and kw.k == "DeclRefExpr" else None
            pc.dests = a[4:]
        else:
            pc.fmt = _str(a[1])
            pc.kwlist = None
            pc.dests = a[2:]
        pc.units = fmt_units(pc.fmt or "")
        out.append(pc)
    return out


def dest_slots(pc):
    """Pair each format unit with its destination argument(s): [(unit, [dest nodes])]."""
    out = []
    i = 0
    for u in pc.units:
        n = 2 if u in ("O!", "O&") or u.endswith("#") else 1
        out.append((u, pc.dests[i:i + n]))
        i += n
    return out, i


def dest_var(n):
    """&var -> 'var'"""
    n = strip(n)
    if n is not None and n.k == "UnaryOperator" and n.op == "&":
        v = strip(n.kids[0])
        if v is not None and v.k == "DeclRefExpr":
            return v.ref
    return None
