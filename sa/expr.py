"""Expression helpers over the compact C IR: stripping, canonical printing, call lookup,
constant folding of macro integers, local alias resolution."""
from __future__ import annotations

import re

TRANSPARENT = ("ParenExpr", "ImplicitCastExpr", "ConstantExpr")
CASTS = ("CStyleCastExpr",)


def strip(n, casts=True):
    while n is not None and (n.k in TRANSPARENT or (casts and n.k in CASTS)) and n.kids:
        n = n.kids[-1]
    return n


def is_upper_macro(n):
    return n is not None and n.extra == "objmacro" and n.mac and re.fullmatch(r"[A-Z_][A-Z0-9_]*", n.mac) is not None


def estr(n, macros=True, casts=False):
    """Canonical text of an expression (formatting-independent)."""
    if n is None:
        return ""
    if macros and is_upper_macro(n) and n.k not in ("DeclRefExpr",):
        return n.mac
    k = n.k
    if k in TRANSPARENT:
        return estr(n.kids[-1], macros, casts) if n.kids else ""
    if k == "CStyleCastExpr":
        inner = estr(n.kids[-1], macros, casts)
        return "(%s)%s" % (n.ty, inner) if casts else inner
    if k == "DeclRefExpr":
        return n.ref or ""
    if k == "MemberExpr":
        return estr(n.kids[0], macros, casts) + ("->" if n.arrow else ".") + (n.name or "")
    if k == "ArraySubscriptExpr":
        return "%s[%s]" % (estr(n.kids[0], macros, casts), estr(n.kids[1], macros, casts))
    if k in ("BinaryOperator", "CompoundAssignOperator"):
        return "(%s %s %s)" % (estr(n.kids[0], macros, casts), n.op, estr(n.kids[1], macros, casts))
    if k == "UnaryOperator":
        if n.post:
            return "%s%s" % (estr(n.kids[0], macros, casts), n.op)
        return "%s%s" % (n.op, estr(n.kids[0], macros, casts))
    if k == "CallExpr":
        return "%s(%s)" % (estr(n.kids[0], macros, casts), ", ".join(estr(a, macros, casts) for a in n.kids[1:]))
    if k in ("IntegerLiteral", "FloatingLiteral", "CharacterLiteral"):
        return str(n.val)
    if k == "StringLiteral":
        return str(n.val)
    if k == "ConditionalOperator":
        return "(%s ? %s : %s)" % tuple(estr(c, macros, casts) for c in n.kids[:3])
    if k == "UnaryExprOrTypeTraitExpr":
        if n.kids:
            return "%s(%s)" % (n.name, estr(n.kids[0], macros, casts))
        return "%s(%s)" % (n.name, n.val)
    if k == "InitListExpr":
        return "{%s}" % ", ".join(estr(c, macros, casts) for c in n.kids)
    if k == "CompoundLiteralExpr":
        return "(%s)%s" % (n.ty, estr(n.kids[-1], macros, casts) if n.kids else "")
    if k == "StmtExpr":
        return "({...})"
    return "<%s>" % k


def callee(call):
    """Name of the directly called function (or None for indirect calls)."""
    if call is None or call.k != "CallExpr" or not call.kids:
        return None
    f = strip(call.kids[0])
    if f is not None and f.k == "DeclRefExpr" and f.refkind == "FunctionDecl":
        return f.ref
    return None


def callee_expr(call):
    return strip(call.kids[0]) if call.kids else None


def args(call):
    return call.kids[1:]


def calls(n, name=None):
    """All CallExpr nodes under n (optionally only those to `name`)."""
    out = []
    if n is None:
        return out
    for x in n.walk():
        if x is not None and x.k == "CallExpr":
            if name is None or callee(x) == name or (isinstance(name, (set, frozenset, tuple, list)) and callee(x) in name):
                out.append(x)
    return out


def walk(n):
    if n is None:
        return
    st = [n]
    while st:
        x = st.pop()
        if x is None:
            continue
        yield x
        st.extend(reversed(x.kids))


def const_int(n):
    """Fold an integer constant expression; None if not constant."""
    n0 = n
    n = strip(n)
    if n is None:
        return None
    if n.k == "IntegerLiteral":
        try:
            return int(n.val)
        except (TypeError, ValueError):
            return None
    if n.k == "CharacterLiteral":
        return int(n.val)
    if n.k == "UnaryOperator":
        v = const_int(n.kids[0])
        if v is None:
            return None
        return {"-": -v, "+": v, "~": ~v, "!": int(not v)}.get(n.op)
    if n.k == "BinaryOperator":
        a, b = const_int(n.kids[0]), const_int(n.kids[1])
        if a is None or b is None:
            return None
        try:
            return {"+": a + b, "-": a - b, "*": a * b, "<<": a << b, ">>": a >> b, "|": a | b,
                    "&": a & b, "^": a ^ b, "/": a // b if b else None, "%": a % b if b else None}.get(n.op)
        except Exception:
            return None
    if n.k == "DeclRefExpr" and n.refkind == "EnumConstantDecl":
        return None
    return None


def idents(text):
    return set(re.findall(r"[A-Za-z_][A-Za-z0-9_]*", text))


def upper_idents(text):
    return set(re.findall(r"\b[A-Z][A-Z0-9_]{2,}\b", text))


def is_assign(n):
    return n is not None and n.k == "BinaryOperator" and n.op == "="


def assigned_var(n):
    """If n is `x = ...` with x a plain variable, return its name."""
    if is_assign(n):
        l = strip(n.kids[0])
        if l is not None and l.k == "DeclRefExpr":
            return l.ref
    return None


def local_aliases(fn):
    """Map local variable name -> canonical text of its *single* definition when that
    definition is a pure access path (`edges = self->edges`, `num_nodes = (tsk_id_t) self->nodes.num_rows`)."""
    defs = {}
    count = {}
    for x in walk(fn.body):
        if x.k == "VarDecl":
            count[x.name] = count.get(x.name, 0) + (1 if x.kids and x.kids[-1] is not None and x.kids[-1].k not in ("FullComment",) else 0)
            if x.kids:
                defs.setdefault(x.name, []).append(x.kids[-1])
        elif is_assign(x) or (x.k == "CompoundAssignOperator"):
            v = strip(x.kids[0])
            if v is not None and v.k == "DeclRefExpr":
                count[v.ref] = count.get(v.ref, 0) + 1
                if is_assign(x):
                    defs.setdefault(v.ref, []).append(x.kids[1])
                else:
                    count[v.ref] += 1
        elif x.k == "UnaryOperator" and x.op in ("++", "--"):
            v = strip(x.kids[0])
            if v is not None and v.k == "DeclRefExpr":
                count[v.ref] = count.get(v.ref, 0) + 2
        elif x.k == "UnaryOperator" and x.op == "&":
            v = strip(x.kids[0])
            if v is not None and v.k == "DeclRefExpr":
                count[v.ref] = count.get(v.ref, 0) + 2   # address taken: may be written elsewhere
    out = {}
    for name, c in count.items():
        if c == 1 and len(defs.get(name, [])) == 1:
            d = strip(defs[name][0])
            if d is not None and is_path(d):
                out[name] = d
    return out


def is_path(n):
    n = strip(n)
    if n is None:
        return False
    if n.k == "DeclRefExpr":
        return True
    if n.k == "MemberExpr":
        return is_path(n.kids[0])
    if n.k == "UnaryOperator" and n.op in ("&", "*"):
        return is_path(n.kids[0])
    return False


def path_str(n, aliases=None, depth=0):
    """Access path text with single-definition local aliases expanded."""
    n = strip(n)
    if n is None:
        return ""
    if n.k == "DeclRefExpr":
        if aliases and n.ref in aliases and depth < 6 and n.refkind in ("VarDecl",):
            return path_str(aliases[n.ref], aliases, depth + 1)
        return n.ref or ""
    if n.k == "MemberExpr":
        base = path_str(n.kids[0], aliases, depth)
        if n.arrow:
            if base.startswith("&"):
                return base[1:] + "." + n.name
            return base + "->" + n.name
        return base + "." + n.name
    if n.k == "UnaryOperator" and n.op == "&":
        return "&" + path_str(n.kids[0], aliases, depth)
    if n.k == "UnaryOperator" and n.op == "*":
        b = path_str(n.kids[0], aliases, depth)
        return b[1:] if b.startswith("&") else "*" + b
    if n.k == "ArraySubscriptExpr":
        return "%s[%s]" % (path_str(n.kids[0], aliases, depth), xstr(n.kids[1], aliases))
    return xstr(n, aliases)


def xstr(n, aliases=None):
    """estr with alias expansion on paths."""
    n = strip(n)
    if n is None:
        return ""
    if is_upper_macro(n) and n.k != "DeclRefExpr":
        return n.mac
    if n.k in ("DeclRefExpr", "MemberExpr"):
        return path_str(n, aliases)
    if n.k == "ArraySubscriptExpr":
        return "%s[%s]" % (path_str(n.kids[0], aliases), xstr(n.kids[1], aliases))
    if n.k in ("BinaryOperator", "CompoundAssignOperator"):
        return "(%s %s %s)" % (xstr(n.kids[0], aliases), n.op, xstr(n.kids[1], aliases))
    if n.k == "UnaryOperator":
        if n.op in ("&", "*"):
            return path_str(n, aliases)
        if n.post:
            return xstr(n.kids[0], aliases) + n.op
        return n.op + xstr(n.kids[0], aliases)
    if n.k == "CallExpr":
        return "%s(%s)" % (estr(n.kids[0]), ", ".join(xstr(a, aliases) for a in n.kids[1:]))
    return estr(n)


def callname(call):
    """Direct callee name, or the macro name for calls made through function-like macros
    (numpy's PyArray_* API macros expand to calls through a function-pointer table)."""
    c = callee(call)
    if c is not None:
        return c
    return call.mac if call is not None and call.k == "CallExpr" else None


def macro_args(text):
    """Top-level comma-separated arguments of a macro/function invocation text `NAME(a, b(c, d), e)`."""
    i = text.find("(")
    if i < 0:
        return []
    depth = 0
    cur = ""
    out = []
    j = i
    while j < len(text):
        ch = text[j]
        if ch == "(":
            depth += 1
            if depth > 1:
                cur += ch
        elif ch == ")":
            depth -= 1
            if depth == 0:
                out.append(cur.strip())
                break
            cur += ch
        elif ch == "," and depth == 1:
            out.append(cur.strip())
            cur = ""
        elif ch == '"':
            k = j + 1
            while k < len(text) and text[k] != '"':
                k += 2 if text[k] == "\\" else 1
            cur += text[j:k + 1]
            j = k
        else:
            cur += ch
        j += 1
    return [" ".join(a.split()) for a in out]
