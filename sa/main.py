"""CLI driver: ./check Cxx [--tier quick|thorough] [--replay path]"""
from __future__ import annotations

import argparse
import importlib
import json
import os
import sys
import traceback

ROOT = os.path.dirname(os.path.dirname(os.path.abspath(__file__)))
sys.path.insert(0, ROOT)
sys.setrecursionlimit(100000)

from sa import report  # noqa: E402


def main():
    ap = argparse.ArgumentParser()
    ap.add_argument("prop")
    ap.add_argument("--tier", default=os.environ.get("VERIF_TIER", "quick"))
    ap.add_argument("--replay", default=None)
    a = ap.parse_args()
    tier = a.tier if a.tier in ("quick", "thorough") else "quick"
    try:
        seed = int(os.environ.get("VERIF_SEED", "0"))
    except ValueError:
        seed = 0
    if a.prop == "warm":
        from sa import cfront
        done = cfront.warm()
        print("parsed translation units:", done or "(all cached)")
        return 0
    try:
        mod = importlib.import_module("rules." + a.prop)
    except ModuleNotFoundError:
        print("ANALYSIS-ERROR no rule module for", a.prop)
        return 2
    ctx = report.Ctx(a.prop, tier, seed)
    try:
        mod.run(ctx)
        if tier == "thorough" and not a.replay:
            from sa import controls
            controls.run(ctx)
            bad = [o for o in ctx.obligations if o["rule"] == "CONTROL" and not o["ok"]]
            if bad:
                raise report.AnalysisError("positive control failed: %s (%s)" % (bad[0]["key"], bad[0]["detail"]))
        if a.replay:
            with open(a.replay) as fh:
                rp = json.load(fh)
            hit = [o for o in ctx.obligations if o["k"] == rp.get("key")]
            if not hit:
                print("replay: obligation %s no longer generated on the current tree" % rp.get("key"))
                return 2
            o = hit[0]
            print("replay: rule=%s construct=%s at %s -> %s %s" % (o["rule"], o["key"], o["where"],
                                                                    "discharged" if o["ok"] else "VIOLATED", o["detail"]))
            if not o["ok"]:
                print("VIOLATION property=%s replay=%s" % (a.prop, a.replay))
            return 0 if o["ok"] else 1
        return report.finish(ctx, level=getattr(mod, "LEVEL", "other"), explanation=getattr(mod, "EXPLANATION", ""))
    except report.AnalysisError as e:
        print("ANALYSIS-ERROR property=%s %s" % (a.prop, e))
        return 2
    except Exception as e:  # a traceback must never look like a violation
        from sa import cfront
        if isinstance(e, cfront.AnalysisError):
            print("ANALYSIS-ERROR property=%s %s" % (a.prop, e))
            return 2
        traceback.print_exc()
        print("ANALYSIS-ERROR property=%s internal error: %r" % (a.prop, e))
        return 2


if __name__ == "__main__":
    sys.exit(main())
