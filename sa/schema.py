"""A4: column-schema engine.  The table structs in tables.h are the schema; obligations are generated
per (function family, table, column) from the struct, nothing about function text is frozen."""
from __future__ import annotations

import re

from .expr import strip, walk, callee, estr, xstr, is_assign, const_int, local_aliases

TABLES = ["individual", "node", "edge", "migration", "site", "mutation", "population", "provenance"]
PLURAL = {"individual": "individuals", "node": "nodes", "edge": "edges", "migration": "migrations", "site": "sites",
          "mutation": "mutations", "population": "populations", "provenance": "provenances"}
KAS_TYPE = {"double": ("KAS_FLOAT64",), "tsk_id_t": ("TSK_ID_STORAGE_TYPE", "KAS_INT32"),
            "tsk_flags_t": ("TSK_FLAGS_STORAGE_TYPE", "KAS_UINT32"), "char": ("KAS_UINT8", "KAS_INT8"),
            "tsk_size_t": ("TSK_SIZE_STORAGE_TYPE", "KAS_UINT64", "KAS_UINT32")}
SUBSET_FN = {"double": "subset_double_column", "tsk_id_t": "subset_id_column", "tsk_flags_t": "subset_flags_column"}
SUBSET_RAGGED_FN = {"char": "subset_ragged_char_column", "double": "subset_ragged_double_column",
                    "tsk_id_t": "subset_ragged_id_column"}


class TableSchema:
    def __init__(self, name, fields):
        self.name = name                      # 'node'
        self.struct = "tsk_%s_table_t" % name
        self.prefix = "tsk_%s_table_" % name
        ptr = {f: re.sub(r"\s*\*$", "", ty).replace("const ", "").strip() for f, ty, _ in fields if ty.endswith("*")}
        names = [f for f, _, _ in fields]
        self.ragged = []      # (col, elemtype)
        self.fixed = []       # (col, elemtype)
        self.has_schema = "metadata_schema" in ptr
        for f in names:
            if f not in ptr or f == "metadata_schema" or f.endswith("_offset"):
                continue
            if f + "_offset" in ptr:
                self.ragged.append((f, ptr[f]))
            else:
                self.fixed.append((f, ptr[f]))
        self.scalars = [f for f in names if f not in ptr]

    def columns(self):
        return [c for c, _ in self.fixed] + [c for c, _ in self.ragged]


def load_schemas(P):
    out = {}
    for t in TABLES:
        f = P.structs.get("tsk_%s_table_t" % t)
        if f:
            out[t] = TableSchema(t, f)
    return out


# ---- fact extraction -------------------------------------------------------------------------
def factors(n):
    """Flatten a product expression into a sorted tuple of factor texts."""
    n = strip(n)
    if n is not None and n.k == "BinaryOperator" and n.op == "*":
        return tuple(sorted(factors(n.kids[0]) + factors(n.kids[1])))
    return (canon(n),)


def canon(n, al=None):
    return xstr(n, al)


class Facts:
    """Assignments and calls of one function in canonical text (aliases expanded)."""

    def __init__(self, P, fn):
        self.fn = fn
        self.tu = P.tu_of(fn)
        self.al = local_aliases(fn)
        self.assigns = []   # (lhs, op, rhs, node)
        self.calls = []     # (callee, [args text], node)
        self.incs = []      # (target, op)
        self.parent = {}
        for x in walk(fn.body):
            for c in x.kids:
                if c is not None:
                    self.parent[id(c)] = x
            if x.k == "BinaryOperator" and x.op == "=":
                self.assigns.append((xstr(x.kids[0], self.al), "=", xstr(x.kids[1], self.al), x))
            elif x.k == "CompoundAssignOperator":
                self.assigns.append((xstr(x.kids[0], self.al), x.op, xstr(x.kids[1], self.al), x))
            elif x.k == "UnaryOperator" and x.op in ("++", "--"):
                self.incs.append((xstr(x.kids[0], self.al), x.op, x))
            elif x.k == "CallExpr":
                self.calls.append((callee(x), [xstr(a, self.al) for a in x.kids[1:]], x))
            elif x.k == "VarDecl" and x.kids and x.kids[-1] is not None and x.kids[-1].k != "InitListExpr":
                self.assigns.append((x.name, "=", xstr(x.kids[-1], self.al), x))

    def enclosing_ifs(self, node):
        """IfStmt ancestors of node with the branch taken: [(ifnode, 'then'|'else')]."""
        out = []
        cur = node
        while id(cur) in self.parent:
            p = self.parent[id(cur)]
            if p.k == "IfStmt":
                if len(p.kids) > 1 and p.kids[1] is cur:
                    out.append((p, "then"))
                elif len(p.kids) > 2 and p.kids[2] is cur:
                    out.append((p, "else"))
            cur = p
        return out

    def loc(self, node):
        return self.tu.loc(node)

    def calls_to(self, name):
        return [(a, n) for c, a, n in self.calls if c == name]

    def has_assign(self, lhs, rhs=None, op="="):
        for l, o, r, n in self.assigns:
            if l == lhs and o == op and (rhs is None or r == rhs):
                return n
        return None


def sizeof_ok(text, elem, colpath=None):
    """Does a size-factor text denote sizeof(elem)?"""
    if text == "sizeof(%s)" % elem:
        return True
    if elem == "char" and text in ("sizeof(char)",):
        return True
    m = re.fullmatch(r"sizeof\(\*(.+)\)", text)
    if m and colpath and (m.group(1) == colpath or m.group(1).endswith("->" + colpath.split("->")[-1])
                          or m.group(1) == colpath.split("->")[-1]):
        return True
    return False
