"""Python front-end: ast index of /repo/python/tskit (never imports tskit)."""
from __future__ import annotations

import ast
import os

REPO = os.environ.get("VERIF_REPO", "/repo")
PKG = os.path.join(REPO, "python", "tskit")


class PyMod:
    def __init__(self, name, path):
        self.name = name
        self.path = path
        self.rel = os.path.relpath(path, REPO)
        with open(path, "r") as fh:
            self.text = fh.read()
        self.tree = ast.parse(self.text, filename=path)
        self.funcs = {}      # qualname -> FunctionDef  (Class.method or function)
        self.classes = {}    # name -> ClassDef
        self.assigns = {}    # module-level NAME -> value node
        for node in self.tree.body:
            if isinstance(node, (ast.FunctionDef, ast.AsyncFunctionDef)):
                self.funcs[node.name] = node
            elif isinstance(node, ast.ClassDef):
                self.classes[node.name] = node
                for sub in node.body:
                    if isinstance(sub, (ast.FunctionDef, ast.AsyncFunctionDef)):
                        key = node.name + "." + sub.name
                        # property setter/getter share a name: keep both
                        if key in self.funcs:
                            deco = [ast.unparse(d) for d in sub.decorator_list]
                            if any(d.endswith(".setter") for d in deco):
                                key = key + ".setter"
                        self.funcs[key] = sub
            elif isinstance(node, ast.Assign):
                for t in node.targets:
                    if isinstance(t, ast.Name):
                        self.assigns[t.id] = node.value
            elif isinstance(node, ast.AnnAssign) and isinstance(node.target, ast.Name) and node.value is not None:
                self.assigns[node.target.id] = node.value

    def loc(self, node):
        return "%s:%d" % (self.rel, getattr(node, "lineno", 0))

    def seg(self, node):
        return ast.get_source_segment(self.text, node) or ""


class PyProgram:
    def __init__(self):
        self.modules = {}
        for fn in sorted(os.listdir(PKG)):
            if fn.endswith(".py"):
                self.modules[fn[:-3]] = PyMod(fn[:-3], os.path.join(PKG, fn))
        self.nfuncs = sum(len(m.funcs) for m in self.modules.values())

    def mod(self, name):
        if name not in self.modules:
            from .report import AnalysisError
            raise AnalysisError("anchor-missing: python module %s" % name)
        return self.modules[name]

    def func(self, mod, qual):
        m = self.mod(mod)
        f = m.funcs.get(qual)
        if f is None:
            from .report import AnalysisError
            raise AnalysisError("anchor-missing: %s.%s" % (mod, qual))
        return f

    def cls(self, mod, name):
        m = self.mod(mod)
        c = m.classes.get(name)
        if c is None:
            from .report import AnalysisError
            raise AnalysisError("anchor-missing: class %s.%s" % (mod, name))
        return c

    def mro(self, mod, name):
        """Class plus its bases resolved inside the same module (left-to-right, depth-first)."""
        out = []
        m = self.mod(mod)

        def rec(n):
            c = m.classes.get(n)
            if c is None or c in out:
                return
            out.append(c)
            for b in c.bases:
                if isinstance(b, ast.Name):
                    rec(b.id)
                elif isinstance(b, ast.Attribute):
                    rec(b.attr)
        rec(name)
        return out

    def method(self, mod, cls, name):
        for c in self.mro(mod, cls):
            for sub in c.body:
                if isinstance(sub, ast.FunctionDef) and sub.name == name:
                    return c, sub
        return None, None


def dotted(node):
    """a.b.c -> 'a.b.c' for Name/Attribute chains, else None."""
    parts = []
    while isinstance(node, ast.Attribute):
        parts.append(node.attr)
        node = node.value
    if isinstance(node, ast.Name):
        parts.append(node.id)
        return ".".join(reversed(parts))
    return None


def call_name(call):
    return dotted(call.func) if isinstance(call, ast.Call) else None


def calls_in(node, name=None, suffix=None):
    out = []
    for x in ast.walk(node):
        if isinstance(x, ast.Call):
            n = call_name(x)
            if name is not None and n != name:
                continue
            if suffix is not None and not (n and (n == suffix or n.endswith("." + suffix))):
                continue
            out.append(x)
    return out


def kwargs_of(call):
    return {k.arg: k.value for k in call.keywords if k.arg is not None}


def params_of(fn):
    a = fn.args
    names = [x.arg for x in a.posonlyargs + a.args]
    kwonly = [x.arg for x in a.kwonlyargs]
    defaults = {}
    pos = a.posonlyargs + a.args
    for p, d in zip(pos[len(pos) - len(a.defaults):], a.defaults):
        defaults[p.arg] = d
    for p, d in zip(a.kwonlyargs, a.kw_defaults):
        if d is not None:
            defaults[p.arg] = d
    return names, kwonly, defaults
