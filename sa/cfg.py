"""Statement-level control-flow graph for the C IR (if/while/for/do/switch/goto/label/
break/continue/return; short-circuit conditions split into separate decision nodes),
plus path queries (must-pass-through, reachability avoiding a set, dominance)."""
from __future__ import annotations

from collections import deque

from .expr import strip


class CNode:
    __slots__ = ("id", "kind", "ast", "succ", "pred", "note")

    def __init__(self, i, kind, ast=None, note=None):
        self.id = i
        self.kind = kind      # entry | exit | stmt | cond | join | switch
        self.ast = ast
        self.succ = []        # list of (CNode, label) ; label None | True | False | ('case', text) | 'default'
        self.pred = []
        self.note = note

    def __repr__(self):
        return "<%d %s %s>" % (self.id, self.kind, self.ast.k if self.ast is not None else self.note)


class CFG:
    def __init__(self, fn):
        self.fn = fn
        self.nodes = []
        self.entry = self._new("entry")
        self.exit = self._new("exit")
        self.labels = {}
        self.unresolved = []
        self._collect_labels(fn.body)
        first = self._stmt(fn.body, self.exit, None, None)
        self._edge(self.entry, first, None)
        for n in self.nodes:
            for s, lab in n.succ:
                s.pred.append((n, lab))

    # -- construction ---------------------------------------------------------
    def _new(self, kind, ast=None, note=None):
        n = CNode(len(self.nodes), kind, ast, note)
        self.nodes.append(n)
        return n

    def _edge(self, a, b, lab):
        a.succ.append((b, lab))

    def _collect_labels(self, s):
        st = [s]
        while st:
            x = st.pop()
            if x is None:
                continue
            if x.k == "LabelStmt":
                self.labels[x.refid] = self._new("join", x, "label " + (x.name or ""))
            st.extend(x.kids)

    def _cond(self, e, t, f):
        e0 = e
        e = strip(e, casts=False)
        if e is not None and e.k == "BinaryOperator" and e.op == "&&":
            return self._cond(e.kids[0], self._cond(e.kids[1], t, f), f)
        if e is not None and e.k == "BinaryOperator" and e.op == "||":
            return self._cond(e.kids[0], t, self._cond(e.kids[1], t, f))
        if e is not None and e.k == "UnaryOperator" and e.op == "!":
            return self._cond(e.kids[0], f, t)
        n = self._new("cond", e if e is not None else e0)
        self._edge(n, t, True)
        self._edge(n, f, False)
        return n

    def _stmt(self, s, nxt, brk, cont):
        """Build the sub-graph for statement s flowing to nxt; returns its entry node."""
        if s is None:
            return nxt
        k = s.k
        if k == "CompoundStmt":
            cur = nxt
            for c in reversed(s.kids):
                cur = self._stmt(c, cur, brk, cont)
            return cur
        if k == "IfStmt":
            kids = s.kids
            cond, then = kids[0], kids[1] if len(kids) > 1 else None
            els = kids[2] if len(kids) > 2 else None
            t = self._stmt(then, nxt, brk, cont)
            f = self._stmt(els, nxt, brk, cont) if els is not None else nxt
            return self._cond(cond, t, f)
        if k == "WhileStmt":
            cond, body = s.kids[0], s.kids[-1]
            head = self._new("join", s, "while-head")
            b = self._stmt(body, head, nxt, head)
            c = self._cond(cond, b, nxt)
            self._edge(head, c, None)
            return head
        if k == "DoStmt":
            body, cond = s.kids[0], s.kids[1]
            head = self._new("join", s, "do-head")
            chead = self._new("join", s, "do-cond")
            c = self._cond(cond, head, nxt)
            self._edge(chead, c, None)
            b = self._stmt(body, chead, nxt, chead)
            self._edge(head, b, None)
            return head
        if k == "ForStmt":
            kids = s.kids + [None] * (5 - len(s.kids))
            init, _cv, cond, inc, body = kids[0], kids[1], kids[2], kids[3], kids[4]
            head = self._new("join", s, "for-head")
            incn = self._stmt_node(inc, head) if inc is not None else head
            b = self._stmt(body, incn, nxt, incn)
            c = self._cond(cond, b, nxt) if cond is not None else b
            self._edge(head, c, None)
            return self._stmt(init, head, brk, cont) if init is not None else head
        if k == "SwitchStmt":
            cond, body = s.kids[0], s.kids[-1]
            sw = self._new("switch", cond)
            cases = []
            self._switch_body(body, nxt, cont, cases)
            has_default = False
            for lab, node in cases:
                self._edge(sw, node, lab)
                if lab == "default":
                    has_default = True
            if not has_default:
                self._edge(sw, nxt, "default")
            return sw
        if k in ("CaseStmt", "DefaultStmt"):
            # case outside _switch_body handling (nested): treat as label
            return self._stmt(s.kids[-1], nxt, brk, cont)
        if k == "BreakStmt":
            n = self._new("stmt", s)
            self._edge(n, brk if brk is not None else nxt, None)
            return n
        if k == "ContinueStmt":
            n = self._new("stmt", s)
            self._edge(n, cont if cont is not None else nxt, None)
            return n
        if k == "ReturnStmt":
            n = self._new("stmt", s)
            self._edge(n, self.exit, None)
            return n
        if k == "GotoStmt":
            n = self._new("stmt", s)
            tgt = self.labels.get(s.refid)
            if tgt is None:
                self.unresolved.append(s)
                tgt = self.exit
            self._edge(n, tgt, None)
            return n
        if k == "LabelStmt":
            lab = self.labels[s.refid]
            sub = self._stmt(s.kids[-1] if s.kids else None, nxt, brk, cont)
            self._edge(lab, sub, None)
            return lab
        if k == "NullStmt":
            return nxt
        return self._stmt_node(s, nxt)

    def _stmt_node(self, s, nxt):
        n = self._new("stmt", s)
        self._edge(n, nxt, None)
        return n

    def _switch_body(self, body, nxt, cont, cases):
        """Sequential build of a switch body; break -> nxt."""
        stmts = body.kids if body is not None and body.k == "CompoundStmt" else [body]
        cur = nxt
        for c in reversed(stmts):
            cur = self._case(c, cur, nxt, cont, cases)
        return cur

    def _case(self, c, cur, brk, cont, cases):
        if c is not None and c.k == "CaseStmt":
            sub = self._case(c.kids[-1], cur, brk, cont, cases)
            j = self._new("join", c, "case")
            self._edge(j, sub, None)
            cases.append((("case", c.kids[0]), j))
            return j
        if c is not None and c.k == "DefaultStmt":
            sub = self._case(c.kids[-1], cur, brk, cont, cases)
            j = self._new("join", c, "default")
            self._edge(j, sub, None)
            cases.append(("default", j))
            return j
        return self._stmt(c, cur, brk, cont)

    # -- queries --------------------------------------------------------------
    def reach(self, src, avoid=(), avoid_edge=None, forward=True):
        """Set of nodes reachable from src (a node or iterable) without entering `avoid`
        nodes and without traversing edges for which avoid_edge(a, b, label) is true."""
        avoid = set(avoid)
        srcs = [src] if isinstance(src, CNode) else list(src)
        seen = set()
        dq = deque()
        for s in srcs:
            if s not in avoid:
                seen.add(s)
                dq.append(s)
        while dq:
            n = dq.popleft()
            edges = n.succ if forward else n.pred
            for m, lab in edges:
                if m in seen or m in avoid:
                    continue
                if avoid_edge is not None:
                    a, b = (n, m) if forward else (m, n)
                    if avoid_edge(a, b, lab):
                        continue
                seen.add(m)
                dq.append(m)
        return seen

    def path_exists(self, src, dst, avoid=(), avoid_edge=None):
        dsts = {dst} if isinstance(dst, CNode) else set(dst)
        r = self.reach(src, avoid, avoid_edge)
        return bool(r & dsts)

    def nodes_of(self, pred):
        return [n for n in self.nodes if n.ast is not None and n.kind in ("stmt", "cond", "switch") and pred(n)]

    def find_path(self, src, dst, avoid=(), avoid_edge=None):
        """One witness path (list of nodes) from src to dst avoiding `avoid`, or None."""
        avoid = set(avoid)
        dsts = {dst} if isinstance(dst, CNode) else set(dst)
        prev = {src: None}
        dq = deque([src])
        while dq:
            n = dq.popleft()
            if n in dsts and n is not src:
                out = []
                while n is not None:
                    out.append(n)
                    n = prev[n]
                return list(reversed(out))
            for m, lab in n.succ:
                if m in prev or m in avoid:
                    continue
                if avoid_edge is not None and avoid_edge(n, m, lab):
                    continue
                prev[m] = n
                dq.append(m)
        if src in dsts:
            return [src]
        return None

    def dominators(self):
        """node -> set of nodes dominating it (iterative; graphs are small)."""
        order = []
        seen = set()
        st = [self.entry]
        while st:
            n = st.pop()
            if n in seen:
                continue
            seen.add(n)
            order.append(n)
            for m, _ in n.succ:
                st.append(m)
        allset = set(order)
        dom = {n: set(allset) for n in order}
        dom[self.entry] = {self.entry}
        changed = True
        while changed:
            changed = False
            for n in order:
                if n is self.entry:
                    continue
                ps = [p for p, _ in n.pred if p in dom]
                if not ps:
                    continue
                new = set.intersection(*(dom[p] for p in ps)) | {n}
                if new != dom[n]:
                    dom[n] = new
                    changed = True
        return dom


def return_nodes(cfg):
    return [n for n in cfg.nodes if n.kind == "stmt" and n.ast is not None and n.ast.k == "ReturnStmt"]
