"""C front-end: clang-14 JSON AST -> compact typed IR for the repository's own code.

Nothing here runs tskit.  Every run re-derives the IR from /repo's working tree:
the cache key is the sha256 of the *preprocessed* translation unit (clang -E), so a
stale cache entry can never be consulted for edited source (or edited headers).
"""
from __future__ import annotations

import bisect
import hashlib
import json
import os
import pickle
import subprocess
import sys
import sysconfig
from concurrent.futures import ProcessPoolExecutor

REPO = os.environ.get("VERIF_REPO", "/repo")
HERE = os.path.dirname(os.path.abspath(__file__))
CACHE = os.environ.get("VERIF_CACHE", os.path.join(os.path.dirname(HERE), ".cache"))
VERSION = "cfront-8"

PYDIR = "python"
TUS = {
    "core": "lib/tskit/core.c",
    "tables": "lib/tskit/tables.c",
    "trees": "lib/tskit/trees.c",
    "genotypes": "lib/tskit/genotypes.c",
    "convert": "lib/tskit/convert.c",
    "stats": "lib/tskit/stats.c",
    "haplotype_matching": "lib/tskit/haplotype_matching.c",
    "kastore": "lib/subprojects/kastore/kastore.c",
    "module": "_tskitmodule.c",
}
LIB_TUS = ["core", "tables", "trees", "genotypes", "convert", "stats", "haplotype_matching"]


class AnalysisError(Exception):
    """Raised when the analysis itself cannot proceed (anchor missing etc.)."""


def _venv_python():
    for p in ("/venv/bin/python", sys.executable):
        if os.path.exists(p):
            return p
    return sys.executable


_INC = None


def include_flags():
    global _INC
    if _INC is None:
        py = _venv_python()
        out = subprocess.run(
            [py, "-c", "import sysconfig,numpy;print(sysconfig.get_paths()['include']);print(numpy.get_include())"],
            capture_output=True, text=True)
        if out.returncode != 0:
            raise AnalysisError("cannot locate Python/numpy include dirs: " + out.stderr[-300:])
        pyinc, npinc = out.stdout.strip().splitlines()[:2]
        _INC = ["-std=c99", "-Ilwt_interface", "-Ilib", "-Ilib/subprojects/kastore",
                "-I" + pyinc, "-I" + npinc]
    return _INC


def canon_file(f):
    """Map a clang file name (relative to repo/python, through the lib symlink) to a repo-relative path."""
    if f is None:
        return None
    f = os.path.normpath(f)
    if f.startswith("lib/"):
        return "c/" + f[4:]
    if f.startswith("/"):
        rp = os.path.realpath(f)
        root = os.path.realpath(REPO) + "/"
        if rp.startswith(root):
            return rp[len(root):]
        return f
    return "python/" + f


def is_repo_file(cf):
    return cf is not None and not cf.startswith("/") and (cf.startswith("c/") or cf.startswith("python/"))


class N:
    """Compact AST node."""
    __slots__ = ("k", "name", "ty", "dty", "op", "val", "ref", "refkind", "refid", "cast", "arrow",
                 "file", "b", "e", "mac", "macend", "macarg", "kids", "id", "post", "extra")

    def __init__(self):
        self.k = None; self.name = None; self.ty = None; self.dty = None; self.op = None
        self.val = None; self.ref = None; self.refkind = None; self.refid = None; self.cast = None
        self.arrow = None; self.file = None; self.b = -1; self.e = -1; self.mac = None
        self.macend = None; self.macarg = False; self.kids = []; self.id = None; self.post = None
        self.extra = None

    def walk(self):
        st = [self]
        while st:
            n = st.pop()
            if n is None:
                continue
            yield n
            st.extend(reversed(n.kids))

    def __repr__(self):
        return "N(%s %s %s)" % (self.k, self.name or self.op or self.val or "", self.ty or "")


class Func:
    __slots__ = ("name", "file", "node", "params", "body", "static", "ret", "tu", "line")

    def __init__(self):
        self.name = None; self.file = None; self.node = None; self.params = []
        self.body = None; self.static = False; self.ret = None; self.tu = None; self.line = 0


class TU:
    def __init__(self, key, path):
        self.key = key
        self.path = path          # repo-relative
        self.funcs = {}           # name -> Func (definitions only)
        self.protos = {}          # name -> type string (declarations seen)
        self.structs = {}         # struct/typedef name -> [(field, type, dtype)]
        self.globals = {}         # name -> N (VarDecl at file scope in repo files)
        self.typedefs = {}        # name -> underlying type string
        self.enums = {}           # name -> value
        self.files = {}           # repo-relative path -> text
        self._lines = {}

    def text_of(self, cf):
        if cf not in self.files:
            p = os.path.join(REPO, cf) if not cf.startswith("/") else cf
            with open(p, "r", errors="replace") as fh:
                self.files[cf] = fh.read()
        return self.files[cf]

    def line_of(self, cf, off):
        if cf not in self._lines:
            t = self.text_of(cf)
            # offsets from clang are byte offsets; sources are ASCII except rare bytes
            starts = [0]
            for i, ch in enumerate(t):
                if ch == "\n":
                    starts.append(i + 1)
            self._lines[cf] = starts
        return bisect.bisect_right(self._lines[cf], off)

    def src(self, n):
        if n.file is None or n.b < 0:
            return ""
        try:
            return self.text_of(n.file)[n.b:n.e]
        except Exception:
            return ""

    def loc(self, n):
        if n is None or n.file is None:
            return "?"
        return "%s:%d" % (n.file, self.line_of(n.file, n.b))


def _ident_at(text, off):
    j = off
    while j < len(text) and (text[j].isalnum() or text[j] == "_"):
        j += 1
    return text[off:j]


class _Conv:
    def __init__(self, tu):
        self.tu = tu
        self.lastfile = None

    # --- location bookkeeping -------------------------------------------------
    def bare(self, d):
        """d is a bare loc dict ({offset, file?, line?, col, tokLen, includedFrom?})."""
        f = d.get("file")
        if f is not None:
            self.lastfile = f
        return self.lastfile

    def locpair(self, d):
        """Returns (file, offset, toklen, macroname|None, isMacroArg) for a loc dict,
        using the expansion location for macro locs.  Must be called in document order."""
        if not d:
            return (None, -1, 0, None, False)
        if "spellingLoc" in d or "expansionLoc" in d:
            sp = d.get("spellingLoc") or {}
            ex = d.get("expansionLoc") or {}
            # document order: spellingLoc first, then expansionLoc
            keys = list(d.keys())
            for k in keys:
                if k == "spellingLoc":
                    self.bare(sp)
                elif k == "expansionLoc":
                    fx = self.bare(ex)
            fx = canon_file(fx)
            off = ex.get("offset", -1)
            mac = None
            if is_repo_file(fx) and off >= 0:
                try:
                    mac = _ident_at(self.tu.text_of(fx), off)
                except Exception:
                    mac = None
            return (fx, off, ex.get("tokLen", 0), mac, bool(ex.get("isMacroArgExpansion")))
        if "offset" not in d:
            return (canon_file(self.lastfile) if self.lastfile else None, -1, 0, None, False)
        f = canon_file(self.bare(d))
        return (f, d.get("offset", -1), d.get("tokLen", 0), None, False)

    def extend_call(self, cf, off, toklen, mac):
        """End offset of a function-like macro invocation whose name token is at `off`."""
        try:
            t = self.tu.text_of(cf)
        except Exception:
            return off + toklen
        j = off + len(mac) if mac and t.startswith(mac, off) else off + toklen
        k = j
        while k < len(t) and t[k] in " \t\n\\":
            k += 1
        if k < len(t) and t[k] == "(":
            depth = 0
            while k < len(t):
                ch = t[k]
                if ch == "(":
                    depth += 1
                elif ch == ")":
                    depth -= 1
                    if depth == 0:
                        return k + 1
                elif ch == '"':
                    k += 1
                    while k < len(t) and t[k] != '"':
                        k += 2 if t[k] == "\\" else 1
                k += 1
        return j

    def scan(self, obj):
        """Cheap in-order scan of a subtree we do not keep: only tracks the last printed file."""
        st = [obj]
        while st:
            o = st.pop()
            if isinstance(o, dict):
                f = o.get("file")
                if f is not None and "offset" in o:
                    self.lastfile = f
                vals = [v for v in o.values() if isinstance(v, (dict, list))]
                st.extend(reversed(vals))
            elif isinstance(o, list):
                st.extend(reversed([v for v in o if isinstance(v, (dict, list))]))

    # --- conversion -----------------------------------------------------------
    def conv(self, d):
        n = N()
        n.k = d.get("kind")
        n.id = d.get("id")
        n.name = d.get("name")
        # document order: loc, range, then the rest
        if "loc" in d:
            lf, lo, ltl, lm, lma = self.locpair(d["loc"])
        else:
            lf = None
        r = d.get("range")
        if r:
            bf, bo, btl, bm, bma = self.locpair(r.get("begin"))
            ef, eo, etl, em, ema = self.locpair(r.get("end"))
            n.file = bf
            n.b = bo
            n.e = eo + etl if eo >= 0 else -1
            if em is not None and not ema and eo >= 0 and is_repo_file(ef) and ef == bf:
                n.e = self.extend_call(ef, eo, etl, em)
            n.mac = bm
            n.macend = em
            n.macarg = bma
            if bm is not None and em is not None and bo == eo:
                # whole node comes from one macro token: object-like macro
                n.extra = "objmacro"
        elif lf is not None:
            n.file = lf
            n.b = lo
            n.e = lo + ltl
        t = d.get("type")
        if t:
            n.ty = t.get("qualType")
            n.dty = t.get("desugaredQualType", n.ty)
        n.op = d.get("opcode")
        if "value" in d:
            n.val = d["value"]
        if "castKind" in d:
            n.cast = d["castKind"]
        if "isArrow" in d:
            n.arrow = d["isArrow"]
        if "isPostfix" in d:
            n.post = d["isPostfix"]
        rd = d.get("referencedDecl")
        if rd:
            n.ref = rd.get("name")
            n.refkind = rd.get("kind")
            n.refid = rd.get("id")
        if n.k == "MemberExpr":
            n.refid = d.get("referencedMemberDecl")
        if n.k == "UnaryExprOrTypeTraitExpr":
            n.name = d.get("name")  # sizeof / alignof
            at = d.get("argType")
            if at:
                n.val = at.get("qualType")
        if n.k in ("VarDecl", "FunctionDecl"):
            sc = d.get("storageClass")
            if sc:
                n.extra = sc
        if n.k == "IfStmt":
            n.extra = "else" if d.get("hasElse") else None
        if n.k == "LabelStmt":
            n.name = d.get("name")
        if n.k == "GotoStmt":
            n.refid = d.get("targetLabelDeclId")
        if n.k == "LabelStmt":
            n.refid = d.get("declId")
        if n.k == "FieldDecl" and d.get("isBitfield"):
            n.extra = "bitfield"
        if n.k == "InitListExpr":
            # clang prints array_filler as first inner for partially filled arrays
            pass
        for c in d.get("inner", ()):
            if isinstance(c, dict):
                if not c:
                    n.kids.append(None)
                    continue
                if c.get("kind") is None:
                    # e.g. {} placeholders for absent for-init etc
                    n.kids.append(None)
                    continue
                n.kids.append(self.conv(c))
        return n


def _clang(args, cwd):
    return subprocess.run(["clang-14"] + args, cwd=cwd, capture_output=True)


def digest_tu(key):
    pyd = os.path.join(REPO, PYDIR)
    r = _clang(["-E", "-P"] + include_flags() + [TUS[key]], pyd)
    if r.returncode != 0:
        raise AnalysisError("clang -E failed for %s: %s" % (key, r.stderr.decode()[-500:]))
    # comments are stripped by -E; -P drops line markers, so pure reformatting of
    # *other* functions still changes the digest (line breaks are kept) -- that only costs a re-parse.
    h = hashlib.sha256()
    h.update(VERSION.encode())
    h.update(r.stdout)
    # raw source text is needed for macro names and reporting offsets: include it
    with open(os.path.join(pyd, TUS[key]), "rb") as fh:
        h.update(fh.read())
    return h.hexdigest()


def parse_tu(key):
    pyd = os.path.join(REPO, PYDIR)
    r = _clang(["-fsyntax-only", "-Wno-everything"] + include_flags()
               + ["-Xclang", "-ast-dump=json", TUS[key]], pyd)
    if r.returncode != 0:
        raise AnalysisError("clang failed for %s: %s" % (key, r.stderr.decode()[-800:]))
    root = json.loads(r.stdout)
    del r
    tu = TU(key, canon_file(TUS[key]))
    cv = _Conv(tu)
    for d in root.get("inner", []):
        kind = d.get("kind")
        # determine file of this top-level decl (document order!)
        save = cv.lastfile
        loc = d.get("loc") or {}
        # peek: compute file without consuming
        if "spellingLoc" in loc or "expansionLoc" in loc:
            ex = loc.get("expansionLoc") or {}
            sp = loc.get("spellingLoc") or {}
            f = save
            for k in loc.keys():
                if k == "spellingLoc" and sp.get("file") is not None:
                    f = sp["file"]
                elif k == "expansionLoc" and ex.get("file") is not None:
                    f = ex["file"]
        else:
            f = loc.get("file", save)
        cf = canon_file(f) if f else None
        if not is_repo_file(cf):
            cv.scan(d)
            continue
        n = cv.conv(d)
        if kind == "FunctionDecl":
            body = None
            params = []
            for c in n.kids:
                if c is None:
                    continue
                if c.k == "ParmVarDecl":
                    params.append(c)
                elif c.k == "CompoundStmt":
                    body = c
            tu.protos[n.name] = n.ty
            if body is not None:
                fn = Func()
                fn.name = n.name; fn.file = n.file; fn.node = n; fn.params = params
                fn.body = body; fn.static = (n.extra == "static"); fn.tu = key
                fn.ret = (n.ty or "").split("(")[0].strip()
                fn.line = tu.line_of(n.file, n.b) if n.file else 0
                tu.funcs[n.name] = fn
        elif kind == "RecordDecl":
            fields = [(c.name, c.ty, c.dty) for c in n.kids if c is not None and c.k == "FieldDecl"]
            if fields:
                nm = n.name or ("anon@%s" % n.id)
                tu.structs[nm] = fields
                tu.structs["id:" + str(n.id)] = fields
        elif kind == "TypedefDecl":
            tu.typedefs[n.name] = n.ty
            # typedef struct {...} name;  -> the struct is the previous RecordDecl; link by ownedTagDecl
            for c in d.get("inner", ()):
                own = c.get("ownedTagDecl") if isinstance(c, dict) else None
                if own and ("id:" + str(own.get("id"))) in tu.structs:
                    tu.structs[n.name] = tu.structs["id:" + str(own.get("id"))]
        elif kind == "VarDecl":
            tu.globals[n.name] = n
        elif kind == "EnumDecl":
            for c in n.kids:
                if c is not None and c.k == "EnumConstantDecl":
                    tu.enums[c.name] = c
    for k in [k for k in tu.structs if k.startswith("id:")]:
        del tu.structs[k]
    return tu


def parse_file(path, key="fixture"):
    """Parse an arbitrary self-contained C file into the same IR (used for the positive controls)."""
    r = _clang(["-fsyntax-only", "-Wno-everything", "-std=c99", "-Xclang", "-ast-dump=json", path], os.path.dirname(path))
    if r.returncode != 0:
        raise AnalysisError("clang failed for %s: %s" % (path, r.stderr.decode()[-400:]))
    root = json.loads(r.stdout)
    tu = TU(key, path)
    cv = _Conv(tu)
    orig_is_repo = globals()["is_repo_file"]
    base = os.path.basename(path)
    for d in root.get("inner", []):
        loc = d.get("loc") or {}
        f = loc.get("file", cv.lastfile)
        if "spellingLoc" in loc or "expansionLoc" in loc:
            f = (loc.get("expansionLoc") or {}).get("file", cv.lastfile)
        if f is None or os.path.basename(f) != base:
            cv.scan(d)
            continue
        globals()["is_repo_file"] = lambda cf: True
        try:
            n = cv.conv(d)
        finally:
            globals()["is_repo_file"] = orig_is_repo
        if d.get("kind") == "FunctionDecl":
            body = None
            params = []
            for c in n.kids:
                if c is None:
                    continue
                if c.k == "ParmVarDecl":
                    params.append(c)
                elif c.k == "CompoundStmt":
                    body = c
            if body is not None:
                fn = Func()
                fn.name = n.name; fn.file = n.file; fn.node = n; fn.params = params
                fn.body = body; fn.static = (n.extra == "static"); fn.tu = key
                fn.ret = (n.ty or "").split("(")[0].strip()
                tu.funcs[n.name] = fn
        elif d.get("kind") == "RecordDecl":
            fields = [(c.name, c.ty, c.dty) for c in n.kids if c is not None and c.k == "FieldDecl"]
            if fields:
                tu.structs["id:" + str(n.id)] = fields
        elif d.get("kind") == "TypedefDecl":
            for c in d.get("inner", ()):
                own = c.get("ownedTagDecl") if isinstance(c, dict) else None
                if own and ("id:" + str(own.get("id"))) in tu.structs:
                    tu.structs[n.name] = tu.structs["id:" + str(own.get("id"))]
    return tu


def load_tu(key):
    os.makedirs(CACHE, exist_ok=True)
    dg = digest_tu(key)
    p = os.path.join(CACHE, "%s-%s.pkl" % (key, dg[:24]))
    if os.path.exists(p):
        try:
            with open(p, "rb") as fh:
                return pickle.load(fh)
        except Exception:
            pass
    sys.setrecursionlimit(100000)
    tu = parse_tu(key)
    # drop older cache entries of the same TU
    for fn in os.listdir(CACHE):
        if fn.startswith(key + "-") and fn.endswith(".pkl"):
            try:
                os.unlink(os.path.join(CACHE, fn))
            except OSError:
                pass
    tmp = p + ".%d.tmp" % os.getpid()
    with open(tmp, "wb") as fh:
        pickle.dump(tu, fh, protocol=pickle.HIGHEST_PROTOCOL)
    os.replace(tmp, p)
    return tu


def _warm_one(key):
    sys.setrecursionlimit(100000)
    load_tu(key)
    return key


def warm(keys=None, jobs=None):
    """Parse (or confirm cached) all translation units in parallel."""
    keys = list(keys or TUS)
    todo = []
    os.makedirs(CACHE, exist_ok=True)
    for k in keys:
        dg = digest_tu(k)
        if not os.path.exists(os.path.join(CACHE, "%s-%s.pkl" % (k, dg[:24]))):
            todo.append(k)
    if todo:
        with ProcessPoolExecutor(max_workers=min(len(todo), jobs or 9)) as ex:
            list(ex.map(_warm_one, todo))
    return todo


class Program:
    """All requested translation units, with cross-TU function lookup."""

    def __init__(self, keys=None):
        sys.setrecursionlimit(100000)
        keys = list(keys or TUS)
        warm(keys)
        self.tus = {k: load_tu(k) for k in keys}
        self.funcs = {}
        for k in keys:
            for name, fn in self.tus[k].funcs.items():
                # static functions may clash across TUs: keep both under qualified key
                self.funcs.setdefault(name, fn)
                self.funcs[k + "::" + name] = fn
        self.structs = {}
        for k in keys:
            for name, f in self.tus[k].structs.items():
                self.structs.setdefault(name, f)

    def tu_of(self, fn):
        return self.tus[fn.tu]

    def func(self, name, tu=None):
        if tu is not None:
            f = self.tus[tu].funcs.get(name)
            if f is not None:
                return f
        return self.funcs.get(name)

    def need(self, name, tu=None):
        f = self.func(name, tu)
        if f is None:
            raise AnalysisError("anchor-missing: function %s not found%s" % (name, " in " + tu if tu else ""))
        return f

    def loc(self, fn, n):
        return self.tus[fn.tu].loc(n)

    def src(self, fn, n):
        return self.tus[fn.tu].src(n)

    def lib_functions(self):
        for k in LIB_TUS:
            if k in self.tus:
                for f in self.tus[k].funcs.values():
                    yield f


if __name__ == "__main__":
    import time
    t = time.time()
    done = warm()
    print("parsed", done, "in %.1fs" % (time.time() - t))
    t = time.time()
    P = Program()
    print("loaded in %.1fs; functions:" % (time.time() - t), {k: len(v.funcs) for k, v in P.tus.items()})
