"""Obligation bookkeeping, evidence files, known findings, exit codes."""
from __future__ import annotations

import json
import os
import time

ROOT = os.path.dirname(os.path.dirname(os.path.abspath(__file__)))
EVID = os.environ.get("VERIF_EVIDENCE_DIR") or os.path.join(ROOT, "evidence")
KNOWN = os.path.join(ROOT, "known_findings.json")


class AnalysisError(Exception):
    pass


class Ctx:
    """Per-run context handed to a property's rule module."""

    def __init__(self, prop, tier="quick", seed=0):
        self.prop = prop
        self.tier = tier
        self.seed = seed
        self.t0 = time.time()
        self.obligations = []     # dicts: rule, key, where, ok, detail
        self.units = {}           # what was analysed (counts per unit kind)
        self.assumptions = []
        self.explanations = []
        self.rule_desc = {}
        self._prog = None
        self._py = None
        self._keys = set()
        self.notes = []

    # lazily constructed front-ends -------------------------------------------------
    def program(self):
        if self._prog is None:
            from . import cfront
            try:
                self._prog = cfront.Program()
            except cfront.AnalysisError as e:
                raise AnalysisError(str(e))
            self.unit("c_translation_units", len(self._prog.tus))
            self.unit("c_functions", sum(len(t.funcs) for t in self._prog.tus.values()))
        return self._prog

    def python(self):
        if self._py is None:
            from . import pyfront
            self._py = pyfront.PyProgram()
            self.unit("py_modules", len(self._py.modules))
            self.unit("py_functions", self._py.nfuncs)
        return self._py

    # recording ------------------------------------------------------------------
    def unit(self, name, count):
        self.units[name] = self.units.get(name, 0) + count

    def rule(self, rid, desc):
        self.rule_desc[rid] = desc

    def ob(self, rule, key, ok, where="", detail=""):
        """Record one obligation.  key must identify the construct independent of line numbers."""
        k = "%s|%s" % (rule, key)
        if k in self._keys:
            # same construct reached twice (e.g. through two entry points): keep the failing one
            for o in self.obligations:
                if o["k"] == k:
                    if not ok and o["ok"]:
                        o.update(ok=False, where=where, detail=detail)
                    return ok
        self._keys.add(k)
        self.obligations.append({"k": k, "rule": rule, "key": key, "ok": bool(ok), "where": where, "detail": detail})
        return ok

    def need(self, cond, what):
        if not cond:
            raise AnalysisError("anchor-missing: " + what)

    def floor(self, rule, minimum):
        n = sum(1 for o in self.obligations if o["rule"] == rule)
        if n < minimum:
            raise AnalysisError("anchor-missing: rule %s matched %d instances, fewer than the %d confirmed by reading"
                                % (rule, n, minimum))
        return n


def load_known():
    if not os.path.exists(KNOWN):
        return {"findings": [], "fixed": []}
    with open(KNOWN) as fh:
        return json.load(fh)


def finish(ctx, level="other", explanation=""):
    """Write evidence, print verdict lines, return exit code."""
    os.makedirs(EVID, exist_ok=True)
    known = load_known()
    kf = {(f["property"], f["key"]): f for f in known.get("findings", [])}
    viol, knownhits = [], []
    for o in ctx.obligations:
        if o["ok"]:
            continue
        f = kf.get((ctx.prop, o["k"]))
        if f is not None:
            knownhits.append((o, f))
        else:
            viol.append(o)
    per_rule = {}
    for o in ctx.obligations:
        d = per_rule.setdefault(o["rule"], {"obligations": 0, "discharged": 0})
        d["obligations"] += 1
        d["discharged"] += 1 if o["ok"] else 0
    for r, d in per_rule.items():
        d["rule"] = ctx.rule_desc.get(r, "")
    # samples: a few obligations per rule, written out
    samples = []
    seen_rules = {}
    for o in ctx.obligations:
        c = seen_rules.get(o["rule"], 0)
        if c < 2:
            seen_rules[o["rule"]] = c + 1
            samples.append({"rule": o["rule"], "construct": o["key"], "where": o["where"],
                            "status": "discharged" if o["ok"] else "violated", "detail": o["detail"][:300]})
    nob = len(ctx.obligations)
    ndis = sum(1 for o in ctx.obligations if o["ok"])
    replay_paths = []
    rdir = os.path.join(EVID, "replay")
    os.makedirs(rdir, exist_ok=True)
    # clear stale replay files of this property
    for fn in os.listdir(rdir):
        if fn.startswith(ctx.prop + "-"):
            try:
                os.unlink(os.path.join(rdir, fn))
            except OSError:
                pass
    for i, o in enumerate(viol):
        p = os.path.join(rdir, "%s-%03d.json" % (ctx.prop, i))
        with open(p, "w") as fh:
            json.dump({"property": ctx.prop, "rule": o["rule"], "rule_text": ctx.rule_desc.get(o["rule"], ""),
                       "construct": o["key"], "where": o["where"], "detail": o["detail"], "key": o["k"]}, fh, indent=1)
        replay_paths.append(p)
    ev = {
        "property_id": ctx.prop,
        "tier": ctx.tier,
        "seed": int(ctx.seed),
        "level": level,
        "coverage": {
            "explanation": explanation or "; ".join(ctx.explanations),
            "obligations": nob,
            "discharged": ndis,
            "evaluations": nob,
            "distinct_nontrivial": len({o["k"] for o in ctx.obligations}),
            "rule": "one obligation per (rule, construct) generated from /repo's current source by static analysis; "
                    "distinct = distinct (rule, construct) keys; all are non-trivial in that each names a construct that exists in the source",
            "units_analysed": ctx.units,
            "per_rule": per_rule,
            "samples": samples,
            "known_findings_matched": [o["k"] for o, _ in knownhits],
            "checker_cmd": "./check %s --tier %s" % (ctx.prop, ctx.tier),
            "trusted_base": ["clang-14 front-end (type-checked AST)", "CPython ast module", "the rule tables under /verif/rules"],
        },
        "assumptions": ctx.assumptions,
        "wall_s": round(time.time() - ctx.t0, 3),
        "violations": len(viol),
    }
    with open(os.path.join(EVID, ctx.prop + ".json"), "w") as fh:
        json.dump(ev, fh, indent=1, sort_keys=False)
    print("property %s tier=%s: %d obligations, %d discharged, %d violated, %d known findings; units %s; %.1fs"
          % (ctx.prop, ctx.tier, nob, ndis, len(viol), len(knownhits), ctx.units, time.time() - ctx.t0))
    for r, d in sorted(per_rule.items()):
        print("  rule %-28s %4d/%-4d %s" % (r, d["discharged"], d["obligations"], d["rule"][:110]))
    for o, f in knownhits:
        print("KNOWN-FINDING: property=%s %s [%s at %s]" % (ctx.prop, f.get("what", ""), o["k"], o["where"]))
    for o, p in zip(viol, replay_paths):
        print("  violated: rule=%s construct=%s at %s: %s" % (o["rule"], o["key"], o["where"], o["detail"]))
        print("VIOLATION property=%s replay=%s" % (ctx.prop, p))
    return 1 if viol else 0
