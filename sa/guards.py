"""A2: guard / interval analysis for the C IR.

A *guard* is an `if (cond) { ret = tsk_trace_error(CODE); goto out; }` (library) or
`if (cond) { PyErr_*(…); goto out; }` (module).  The condition is normalised into the
rejected region as a DNF of relational atoms (negations pushed down, De Morgan), from which
the accepted interval of the guarded subject is read off.  `count_class` decides what an
upper-bound expression *denotes* (the row count of which table, plus a constant), following
single-definition locals, struct fields (through all their assignments in the library),
parameters (through all call sites) and the tsk_treeseq_get_num_* accessors.
"""
from __future__ import annotations

import re

from .expr import (strip, xstr, estr, walk, callee, local_aliases, upper_idents, const_int,
                   is_upper_macro, is_assign)

TABLES = ("nodes", "edges", "sites", "mutations", "migrations", "populations", "individuals", "provenances")
SING = {"node": "nodes", "edge": "edges", "site": "sites", "mutation": "mutations", "migration": "migrations",
        "population": "populations", "individual": "individuals", "provenance": "provenances"}

NEG = {"<": ">=", ">=": "<", ">": "<=", "<=": ">", "==": "!=", "!=": "=="}
FLIP = {"<": ">", ">": "<", "<=": ">=", ">=": "<=", "==": "==", "!=": "!="}


class Atom:
    __slots__ = ("lhs", "op", "rhs", "ln", "rn", "node")

    def __init__(self, lhs, op, rhs, ln, rn, node):
        self.lhs, self.op, self.rhs, self.ln, self.rn, self.node = lhs, op, rhs, ln, rn, node

    def __repr__(self):
        return "%s %s %s" % (self.lhs, self.op, self.rhs)


def _is_constlike(n):
    n = strip(n)
    if n is None:
        return False
    if const_int(n) is not None:
        return True
    if is_upper_macro(n):
        return True
    if n.k == "FloatingLiteral":
        return True
    return False


def dnf(cond, aliases=None, neg=False):
    """Rejected region of `cond` (or of !cond when neg) as list of conjunctions of Atoms.
    Non-relational leaves become Atom(text, 'true'/'false', '')."""
    c = strip(cond, casts=False)
    if c is None:
        return [[]]
    if c.k == "UnaryOperator" and c.op == "!":
        return dnf(c.kids[0], aliases, not neg)
    if c.k == "BinaryOperator" and c.op in ("&&", "||"):
        conj = (c.op == "&&") != neg   # after negation && becomes ||
        a = dnf(c.kids[0], aliases, neg)
        b = dnf(c.kids[1], aliases, neg)
        if conj:
            return [x + y for x in a for y in b]
        return a + b
    if c.k == "BinaryOperator" and c.op in NEG:
        op = NEG[c.op] if neg else c.op
        l, r = c.kids[0], c.kids[1]
        if _is_constlike(l) and not _is_constlike(r):
            l, r = r, l
            op = FLIP[op]
        return [[Atom(xstr(l, aliases), op, xstr(r, aliases), strip(l), strip(r), c)]]
    return [[Atom(xstr(c, aliases), "false" if neg else "true", "", c, None, c)]]


def _intval(text, node):
    v = const_int(node) if node is not None else None
    if v is not None:
        return v
    if text in ("TSK_NULL",):
        return -1
    if text == "TSK_MISSING_DATA":
        return -1
    return None


class Interval:
    """Accepted region for one subject, read off a rejected-region DNF."""

    def __init__(self, subject):
        self.subject = subject
        self.lo = None          # integer: accepted s >= lo
        self.hi = None          # (text, node, off): accepted s < text + off
        self.nullable = False   # guard applies only when s != TSK_NULL
        self.lo_atom = None
        self.hi_atom = None


_COUNTISH = re.compile(r"(num_\w+|_length|\blength|\bsize)\)?$")


def orient(d):
    """Put the *subject* of every relational atom on the left.  dnf() already moves constants to the right; this also handles
    `count <= x`: x is a subject when it is compared with a constant elsewhere in the same condition, or when the left side
    is spelled like a count and the right side is not."""
    subjects = {a.lhs for conj in d for a in conj if a.op in FLIP and a.rn is not None and _is_constlike(a.rn)}
    for conj in d:
        for a in conj:
            if a.op not in ("<", "<=", ">", ">=") or a.rn is None or _is_constlike(a.rn):
                continue
            flip = (a.rhs in subjects and a.lhs not in subjects) or \
                   (not subjects and _COUNTISH.search(a.lhs) and not _COUNTISH.search(a.rhs))
            if flip:
                a.lhs, a.rhs, a.ln, a.rn, a.op = a.rhs, a.lhs, a.rn, a.ln, FLIP[a.op]
    return d


def intervals(d):
    """Per-subject accepted intervals from a DNF (list of conjunctions)."""
    out = {}
    d = orient(d)
    for conj in d:
        rel = [a for a in conj if a.op in ("<", "<=", ">", ">=")]
        other = [a for a in conj if a not in rel]
        if len(rel) != 1:
            continue
        a = rel[0]
        iv = out.setdefault(a.lhs, Interval(a.lhs))
        for o in other:
            if o.lhs == a.lhs and o.op == "!=" and _intval(o.rhs, o.rn) == -1:
                iv.nullable = True
        if a.op in ("<", "<="):
            v = _intval(a.rhs, a.rn)
            if v is not None:
                iv.lo = v if a.op == "<" else v + 1
                iv.lo_atom = a
            else:
                iv.lo = ("expr", a.rhs, 0 if a.op == "<" else 1)
                iv.lo_atom = a
        else:
            off = 0 if a.op == ">=" else 1
            iv.hi = (a.rhs, a.rn, off)
            iv.hi_atom = a
    return out


# ---------------------------------------------------------------------------------------------
class CountResolver:
    """What does an expression denote?  ('nodes', +k) = nodes.num_rows + k, ('trees', k), ('seqlen', 0)…"""

    def __init__(self, P):
        self.P = P
        self._field_cache = {}
        self._param_cache = {}
        self._callsites = None
        self._alias_cache = {}

    def aliases(self, fn):
        k = (fn.tu, fn.name)
        if k not in self._alias_cache:
            self._alias_cache[k] = local_aliases(fn)
        return self._alias_cache[k]

    def callsites(self):
        if self._callsites is None:
            cs = {}
            for tu in self.P.tus.values():
                for f in tu.funcs.values():
                    for x in walk(f.body):
                        if x.k == "CallExpr":
                            c = callee(x)
                            if c:
                                cs.setdefault(c, []).append((f, x))
            self._callsites = cs
        return self._callsites

    def classify(self, node, fn, depth=0):
        if depth > 8 or node is None:
            return None
        n = strip(node)
        if n is None:
            return None
        if n.k == "BinaryOperator" and n.op in ("+", "-"):
            c = const_int(n.kids[1])
            base = self.classify(n.kids[0], fn, depth + 1)
            if base is not None and c is not None:
                return (base[0], base[1] + (c if n.op == "+" else -c))
            if n.op == "+":
                c = const_int(n.kids[0])
                base = self.classify(n.kids[1], fn, depth + 1)
                if base is not None and c is not None:
                    return (base[0], base[1] + c)
            return None
        if n.k == "CallExpr":
            c = callee(n)
            if c:
                m = re.fullmatch(r"tsk_treeseq_get_num_(\w+)", c)
                if m:
                    t = m.group(1)
                    if t in TABLES:
                        return (t, 0)
                    if t == "trees":
                        return ("trees", 0)
                    if t == "samples":
                        return ("samples", 0)
                if c == "tsk_treeseq_get_sequence_length":
                    return ("seqlen", 0)
            return None
        if n.k == "MemberExpr":
            base = strip(n.kids[0])
            bty = (n.kids[0].ty or "") if n.kids else ""
            if n.name == "num_rows":
                # X.num_rows where X is a table-typed member/variable
                m = re.search(r"tsk_(\w+)_table_t", bty)
                if m and m.group(1) in SING:
                    return (SING[m.group(1)], 0)
                return None
            if n.name == "sequence_length":
                return ("seqlen", 0)
            if n.name == "num_trees" and "tsk_treeseq_t" in bty:
                return ("trees", 0)
            if n.name == "num_samples" and "tsk_treeseq_t" in bty:
                return ("samples", 0)
            st = re.sub(r"\b(const|struct)\b|\*", "", bty).strip()
            return self.field_class(st, n.name, depth)
        if n.k == "DeclRefExpr":
            if n.refkind == "VarDecl":
                al = self.aliases(fn)
                if n.ref in al:
                    return self.classify(al[n.ref], fn, depth + 1)
                # single definition that is not a pure path (e.g. a call)
                d = single_def(fn, n.ref)
                if d is not None:
                    return self.classify(d, fn, depth + 1)
                return None
            if n.refkind == "ParmVarDecl":
                return self.param_class(fn, n.ref, depth)
        return None

    def field_class(self, struct, field, depth):
        key = (struct, field)
        if key in self._field_cache:
            return self._field_cache[key]
        self._field_cache[key] = None   # recursion guard
        res = []
        for tu in self.P.tus.values():
            for f in tu.funcs.values():
                for x in walk(f.body):
                    if is_assign(x):
                        l = strip(x.kids[0])
                        if l is not None and l.k == "MemberExpr" and l.name == field:
                            bty = re.sub(r"\b(const|struct)\b|\*", "", (l.kids[0].ty or "")).strip()
                            if bty == struct:
                                res.append(self.classify(x.kids[1], f, depth + 1))
        out = None
        if res and all(r is not None for r in res) and len(set(res)) == 1:
            out = res[0]
        self._field_cache[key] = out
        return out

    def param_class(self, fn, pname, depth):
        key = (fn.name, pname)
        if key in self._param_cache:
            return self._param_cache[key]
        self._param_cache[key] = None
        idx = None
        for i, p in enumerate(fn.params):
            if p.name == pname:
                idx = i
        res = []
        if idx is not None:
            for f, call in self.callsites().get(fn.name, []):
                a = call.kids[1:]
                if idx < len(a):
                    res.append(self.classify(a[idx], f, depth + 1))
        out = None
        if res and all(r is not None for r in res) and len(set(res)) == 1:
            out = res[0]
        self._param_cache[key] = out
        return out


def single_def(fn, name):
    """The unique defining expression of local `name` in fn (VarDecl init or sole assignment), else None."""
    defs = []
    for x in walk(fn.body):
        if x.k == "VarDecl" and x.name == name and x.kids:
            init = x.kids[-1]
            if init is not None:
                defs.append(init)
        elif is_assign(x):
            l = strip(x.kids[0])
            if l is not None and l.k == "DeclRefExpr" and l.ref == name:
                defs.append(x.kids[1])
        elif x.k == "CompoundAssignOperator" or (x.k == "UnaryOperator" and x.op in ("++", "--", "&")):
            l = strip(x.kids[0])
            if l is not None and l.k == "DeclRefExpr" and l.ref == name:
                return None
    return defs[0] if len(defs) == 1 else None


# ---------------------------------------------------------------------------------------------
class Guard:
    __slots__ = ("fn", "ifn", "codes", "dnf", "ivs", "cond_text", "pyexc")

    def __init__(self):
        self.pyexc = None


def error_codes_in(tu, node):
    return {c for c in upper_idents(tu.src(node)) if c.startswith("TSK_ERR_") or c.startswith("KAS_ERR_")}


def find_guards(P, fn, want=None):
    """All guards in fn: IfStmt whose then-branch directly raises a library error code."""
    tu = P.tu_of(fn)
    al = local_aliases(fn)
    out = []
    for n in walk(fn.body):
        if n.k != "IfStmt" or len(n.kids) < 2 or n.kids[1] is None:
            continue
        then = n.kids[1]
        # only direct error raises: a then-branch that is small and assigns an error code
        codes = set()
        for x in walk(then):
            if x.k == "IfStmt" and x is not then:
                break
            if is_assign(x) or x.k == "ReturnStmt":
                codes |= error_codes_in(tu, x)
        else:
            pass
        if not codes:
            continue
        if want is not None and not (codes & want if isinstance(want, (set, frozenset)) else any(want(c) for c in codes)):
            continue
        g = Guard()
        g.fn = fn
        g.ifn = n
        g.codes = codes
        g.dnf = dnf(n.kids[0], al)
        g.ivs = intervals(g.dnf)
        g.cond_text = xstr(n.kids[0], al)
        out.append(g)
    return out


# ---------------------------------------------------------------------------------------------
def range_guarded_expr(cfg, target, text, printer):
    """Every path entry -> target passes relational tests establishing a lower and an upper bound on the
    expression whose canonical text (by `printer`) is `text`.  Returns (ok, why)."""
    flip = {"<": ">", ">": "<", "<=": ">=", ">=": "<="}
    lower_ok, upper_ok = set(), set()
    for n in cfg.nodes:
        if n.kind != "cond" or n.ast is None:
            continue
        c = strip(n.ast, casts=False)
        if c is None or c.k != "BinaryOperator" or c.op not in flip:
            continue
        l, r = printer(c.kids[0]), printer(c.kids[1])
        if l == text:
            op = c.op
        elif r == text:
            op = flip[c.op]
        else:
            continue
        for s, lab in n.succ:
            if op in ("<", "<="):
                (upper_ok if lab is True else lower_ok).add((n, s))
            else:
                (lower_ok if lab is True else upper_ok).add((n, s))
    lo = not cfg.path_exists(cfg.entry, target, avoid_edge=lambda a, b, lab: (a, b) in lower_ok)
    hi = not cfg.path_exists(cfg.entry, target, avoid_edge=lambda a, b, lab: (a, b) in upper_ok)
    if lo and hi:
        return True, "range-tested on every path"
    return False, "missing %s bound test" % "/".join(w for w, ok in (("lower", lo), ("upper", hi)) if not ok)
