"""C09.6 unchecked-tables typestate.

A raw table collection is UNCHECKED until a successful tsk_table_collection_check_integrity
dominates.  Ids loaded from the columns of an unchecked collection must not be used as array
indexes.  Per-function summaries over the call graph:

  NEEDS(f)  = f (transitively) performs an id-indexed access that no gate call dominates
  GATES(f)  = every non-error path through f passes a gate call

Functions that receive a tsk_treeseq_t / tsk_tree_t / ... operate on validated tables (C02) and
are outside the universe.
"""
from __future__ import annotations

import re

from .cfg import CFG
from .expr import strip, walk, callee, estr, is_assign, upper_idents

GATE_FN = "tsk_table_collection_check_integrity"
ROW_STRUCTS = ("tsk_edge_t", "tsk_mutation_t", "tsk_site_t", "tsk_node_t", "tsk_migration_t", "tsk_individual_t")
ID_FIELDS = ("parent", "child", "node", "site", "population", "individual", "source", "dest")
TRUSTED_PARAM = re.compile(r"\btsk_(treeseq|tree|variant|vargen|ld_calc|ls_hmm|compressed_matrix|viterbi_matrix|"
                           r"diff_iter|tree_position|matvec_calculator|newick_converter)_t\b")
TABLEISH = re.compile(r"\btsk_(table_collection|\w+_table|table_index)_t\b")


def _clean(t):
    return re.sub(r"\b(const|struct)\b|\*", "", t or "").strip()


class GateAnalysis:
    def __init__(self, P, lib_keys):
        self.P = P
        self.funcs = {}
        for k in lib_keys:
            for f in P.tus[k].funcs.values():
                self.funcs[f.name] = f
        self.tables_structs = self._structs_with_tables()
        self.universe = {n: f for n, f in self.funcs.items() if self._in_universe(f)}
        self._cfg = {}
        self._taint = {}
        self.sites = {}       # fname -> list of (node, kind, text)
        self.gatecalls = {}   # fname -> list of call nodes (direct gate)
        self.calls = {}       # fname -> list of (call node, callee)
        for n, f in self.universe.items():
            self._scan(f)
        self.GATES = {}
        self.NEEDS = {}
        self._solve()

    # ------------------------------------------------------------------
    def _structs_with_tables(self):
        out = set()
        for name, fields in self.P.structs.items():
            for fn, ty, dty in fields:
                if fn == "tables" and "tsk_table_collection_t" in (ty or ""):
                    out.add(name)
        return out

    def _in_universe(self, f):
        if f.name.startswith("tsk_table_collection_check_") or f.name == GATE_FN:
            return False
        ok = False
        for p in f.params:
            t = p.ty or ""
            if TRUSTED_PARAM.search(t):
                return False
            if TABLEISH.search(t) or _clean(t) in self.tables_structs:
                ok = True
        return ok

    def cfg(self, f):
        if f.name not in self._cfg:
            self._cfg[f.name] = CFG(f)
        return self._cfg[f.name]

    # ------------------------------------------------------------------
    def _is_column_load(self, e, tainted, colptr):
        """Is expression e (type tsk_id_t) a value loaded from a table id column?"""
        e = strip(e)
        if e is None:
            return False
        if e.k == "DeclRefExpr":
            return e.ref in tainted
        if (e.ty or "") not in ("tsk_id_t", "const tsk_id_t") and (e.dty or "") not in ("int", "const int"):
            return False
        if e.k == "ArraySubscriptExpr":
            base = strip(e.kids[0])
            if base is None:
                return False
            if base.k == "MemberExpr":
                owner = base.kids[0]
                if TABLEISH.search(owner.ty or ""):
                    return True
                # struct-of-arrays held by value: self->tables->edges.parent -> owner type tsk_edge_table_t
                return False
            if base.k == "DeclRefExpr":
                return base.ref in colptr
            return False
        if e.k == "MemberExpr":
            owner = e.kids[0]
            if _clean(owner.ty) in ROW_STRUCTS and e.name in ID_FIELDS:
                return True
            return False
        if e.k == "ConditionalOperator":
            return any(self._is_column_load(c, tainted, colptr) for c in e.kids[1:3])
        return False

    def _scan(self, f):
        # pointer locals / params that alias an id column: `const tsk_id_t *I = tables->indexes.edge_insertion_order`
        colptr = set()
        tainted = set()
        changed = True
        rounds = 0
        defs = []
        for x in walk(f.body):
            if x.k == "VarDecl" and x.kids and x.kids[-1] is not None:
                defs.append((x.name, x.ty or "", x.kids[-1]))
            elif is_assign(x):
                l = strip(x.kids[0])
                if l is not None and l.k == "DeclRefExpr":
                    defs.append((l.ref, l.ty or "", x.kids[1]))
        while changed and rounds < 6:
            changed = False
            rounds += 1
            for name, ty, rhs in defs:
                r = strip(rhs)
                if r is None:
                    continue
                if "tsk_id_t *" in ty or "tsk_id_t *" in (r.ty or ""):
                    if r.k == "MemberExpr" and TABLEISH.search(r.kids[0].ty or "") and name not in colptr:
                        colptr.add(name)
                        changed = True
                    if r.k == "DeclRefExpr" and r.ref in colptr and name not in colptr:
                        colptr.add(name)
                        changed = True
                elif name not in tainted and self._is_column_load(r, tainted, colptr):
                    tainted.add(name)
                    changed = True
        sites = []
        gates = []
        calls = []
        for x in walk(f.body):
            if x.k == "ArraySubscriptExpr":
                idx = x.kids[1]
                if self._is_column_load(idx, tainted, colptr):
                    sites.append((x, "index", estr(x)))
            elif x.k == "CallExpr":
                c = callee(x)
                if c == GATE_FN:
                    gates.append(x)
                elif c:
                    calls.append((x, c))
        self.sites[f.name] = sites
        self.gatecalls[f.name] = gates
        self.calls[f.name] = calls
        self._taint[f.name] = (tainted, colptr)

    # ------------------------------------------------------------------
    def _error_edge(self, a, b, lab):
        """True-branch of `ret != 0` / `ret < 0` style tests: leads to the error exit."""
        if a.kind != "cond" or a.ast is None:
            return False
        n = strip(a.ast, casts=False)
        if n is None or n.k != "BinaryOperator":
            return False
        l, r = strip(n.kids[0]), strip(n.kids[1])
        if l is None or l.k != "DeclRefExpr" or l.ref not in ("ret", "err", "ret_id"):
            return False
        if n.op in ("!=", "<") and lab is True:
            return True
        if n.op in ("==", ">=") and lab is False:
            return True
        return False

    def _skips_optional_gate(self, a, b, lab, f):
        """The edge that skips the gate under `if (!(options & TSK_NO_CHECK_INTEGRITY))`."""
        if a.kind != "cond" or a.ast is None:
            return False
        tu = self.P.tus[f.tu]
        if "TSK_NO_CHECK_INTEGRITY" in tu.src(a.ast):
            # cond is (options & FLAG) reached through a `!`: the CFG swapped targets, so True = flag set = skip
            return lab is True
        return False

    def _node_of(self, cfg, astnode):
        for n in cfg.nodes:
            if n.ast is None or n.kind == "join":
                continue
            for x in walk(n.ast):
                if x is astnode:
                    return n
        return None

    def _solve(self):
        names = list(self.universe)
        for n in names:
            self.GATES[n] = False
            self.NEEDS[n] = None
        changed = True
        it = 0
        while changed and it < 20:
            changed = False
            it += 1
            for n in names:
                f = self.universe[n]
                g, need = self._eval(f)
                if g != self.GATES[n] or (need is None) != (self.NEEDS[n] is None):
                    self.GATES[n] = g
                    self.NEEDS[n] = need
                    changed = True

    def _eval(self, f):
        direct_g = self.gatecalls[f.name]
        callee_g = [c for c, nm in self.calls[f.name] if self.GATES.get(nm)]
        access = list(self.sites[f.name])
        for c, nm in self.calls[f.name]:
            if nm in self.universe and self.NEEDS.get(nm) is not None:
                access.append((c, "call", nm))
        if not direct_g and not callee_g:
            gates_nodes = set()
            gates = False
            if not access:
                return False, None
            cfg = None
        else:
            cfg = self.cfg(f)
            gates_nodes = set()
            for g in direct_g + callee_g:
                nd = self._node_of(cfg, g)
                if nd is not None:
                    gates_nodes.add(nd)

            def avoid_edge(a, b, lab):
                return self._error_edge(a, b, lab) or self._skips_optional_gate(a, b, lab, f)
            tu = self.P.tus[f.tu]
            errnodes = {n for n in cfg.nodes if n.kind == "stmt" and n.ast is not None and is_assign(n.ast)
                        and "TSK_ERR_" in tu.src(n.ast.kids[1])}
            gates = not cfg.path_exists(cfg.entry, cfg.exit, avoid=gates_nodes | errnodes, avoid_edge=avoid_edge)
        need = None
        for node, kind, text in access:
            if kind == "index" and self._locally_guarded(f, node):
                continue
            if not gates_nodes:
                need = (node, kind, text)
                break
            nd = self._node_of(cfg, node)
            if nd is None:
                continue
            if nd in gates_nodes:
                continue
            if cfg.path_exists(cfg.entry, nd, avoid=gates_nodes,
                               avoid_edge=lambda a, b, lab: self._skips_optional_gate(a, b, lab, f)):
                need = (node, kind, text)
                break
        return gates, need

    def _locally_guarded(self, f, sub):
        """The index expression itself is range-tested (both bounds) on every path to the access."""
        from .guards import range_guarded_expr
        from .expr import local_aliases, xstr
        cfg = self.cfg(f)
        nd = self._node_of(cfg, sub)
        if nd is None:
            return False
        al = local_aliases(f)
        text = xstr(sub.kids[1], al)
        ok, _ = range_guarded_expr(cfg, nd, text, lambda e: xstr(e, al))
        return ok

    def chain(self, name, depth=0):
        """Human-readable witness: f -> g -> ... -> subscript."""
        need = self.NEEDS.get(name)
        if need is None or depth > 12:
            return name
        node, kind, text = need
        f = self.universe[name]
        loc = self.P.tus[f.tu].loc(node)
        if kind == "call":
            return "%s -> %s" % (name, self.chain(text, depth + 1))
        return "%s: `%s` at %s" % (name, text, loc)
