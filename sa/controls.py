"""Positive controls: run the engines on selftest/fixtures/controls.c and insist that each one reports its planted
construct (and stays silent on the paired negative control)."""
from __future__ import annotations

import os

from . import cfront
from .cfg import CFG
from .expr import walk, callee, strip, estr, is_assign
from .guards import find_guards, CountResolver, range_guarded_expr

FIXTURE = os.path.join(os.path.dirname(os.path.dirname(os.path.abspath(__file__))), "selftest", "fixtures", "controls.c")


class _MiniProgram:
    def __init__(self, tu):
        self.tus = {tu.key: tu}
        self.funcs = dict(tu.funcs)
        self.structs = dict(tu.structs)

    def tu_of(self, fn):
        return self.tus[fn.tu]

    def func(self, name, tu=None):
        return self.funcs.get(name)


def run(ctx, rule="CONTROL"):
    ctx.rule(rule, "positive controls: each analysis engine reports the construct planted for it in selftest/fixtures/controls.c "
                   "and is silent on the paired correct variant (a rule that matches nothing can therefore not pass vacuously)")
    tu = cfront.parse_file(FIXTURE)
    P = _MiniProgram(tu)
    R = CountResolver(P)

    def hi(fname):
        g = find_guards(P, tu.funcs[fname])[0]
        iv = g.ivs["u"]
        cls = R.classify(iv.hi[1], tu.funcs[fname])
        return cls, iv.hi[2], iv.lo
    cls, off, lo = hi("control_guard_off_by_one")
    ctx.ob(rule, "guards|off-by-one", cls == ("nodes", 0) and off == 1 and lo == 0, FIXTURE, "interval engine sees [0, num_rows] (class %s, +%s)" % (cls, off))
    cls, off, lo = hi("control_guard_exact")
    ctx.ob(rule, "guards|exact-negated-form", cls == ("nodes", 0) and off == 0 and lo == 0, FIXTURE, "!(0 <= u && u < n) normalised to [0, num_rows)")
    from .errprop import ErrProp
    E = ErrProp.__new__(ErrProp)
    E.P = P
    E.funcs = dict(tu.funcs)
    E.can_fail = {}
    E._solve()
    ctx.ob(rule, "errprop|can-fail", E.can_fail.get("control_can_fail") is True, FIXTURE, "can_fail fixpoint")
    for fname, want in (("control_dropped_error", False), ("control_checked_error", True)):
        fn = tu.funcs[fname]
        cfg = CFG(fn)
        sites = [s for s in E.sites(fn) if s[3] == "assigned"]
        oks = [E.checked_after(fn, cfg, c, v)[0] for c, _, v, _ in sites]
        ctx.ob(rule, "errprop|%s" % fname, len(oks) == 2 and (all(oks) is want), FIXTURE, "tested-before-overwritten verdicts %s" % oks)
    fn = tu.funcs["control_half_guarded"]
    cfg = CFG(fn)
    sub = [x for x in walk(fn.body) if x.k == "ArraySubscriptExpr"][0]
    tgt = [n for n in cfg.nodes if n.ast is not None and n.kind != "join" and any(y is sub for y in walk(n.ast))][0]
    ok, why = range_guarded_expr(cfg, tgt, "v", lambda e: estr(strip(e)))
    ctx.ob(rule, "range|half-guarded", (not ok) and "lower" in why, FIXTURE, "must-pass analysis: %s" % why)
    # bounded-write typestate on the fixture
    from rules import lib_newick
    fn = tu.funcs["control_unbounded_store"]
    verdicts = lib_newick.typestate_stores(CFG(fn), "buffer", "buffer_size", "s")
    ctx.ob(rule, "bounded|second-store", verdicts == [True, False], FIXTURE, "store verdicts %s (first bounded, second not)" % verdicts)
    # reversed guard: the count on the left must still be recognised as the bound, not as the subject
    cls, off, lo = hi("control_guard_reversed")
    ctx.ob(rule, "guards|count-on-the-left", cls == ("nodes", 0) and off == 0 and lo == 0, FIXTURE, "`n <= u || 0 > u` normalised to [0, num_rows)")
    fn = tu.funcs["control_assign_in_condition"]
    cfg = CFG(fn)
    sites = [s_ for s_ in E.sites(fn) if s_[3] == "assigned"]
    oks = [E.checked_after(fn, cfg, c, v)[0] for c, _, v, _ in sites]
    ctx.ob(rule, "errprop|assign-in-condition", len(oks) == 2 and all(oks), FIXTURE, "`if ((ret = f()) != 0)` counts as tested: %s" % oks)
    # the loop / kind lints, run on the fixture through a scratch context
    from . import report as _report
    from rules import lib_mem, lib_kind
    sc = _report.Ctx("control", "quick", 0)
    lib_mem.map_two_pass(sc, P, lambda k, f: True, tus=[tu.key])
    got = {o["key"]: o["ok"] for o in sc.obligations}
    ctx.ob(rule, "map-two-pass", got.get("control_map_single_pass|id_map") is False and got.get("control_map_two_pass|id_map") is True, FIXTURE,
           "single-pass map reported, two-pass map accepted: %s" % got)
    sc = _report.Ctx("control", "quick", 0)
    lib_kind.minmax_kind(sc, P, lambda k, f: True, tus=[tu.key])
    got = {o["key"]: o["ok"] for o in sc.obligations}
    ctx.ob(rule, "minmax-kind", got.get("control_intersection|out->left@0") is False and got.get("control_intersection|out->right@1") is True, FIXTURE,
           "left end as TSK_MIN reported, right end as TSK_MIN accepted: %s" % got)
    sc = _report.Ctx("control", "quick", 0)
    from rules import lib_kind2
    lib_kind2.validate_all(sc, P, lambda k, f: True, tus=[tu.key])
    got = {o["key"]: o["ok"] for o in sc.obligations}
    ctx.ob(rule, "validate-all", got.get("control_validate_break@0") is False and got.get("control_validate_all@0") is True, FIXTURE,
           "break in a validating loop reported, nested-if skip accepted: %s" % {k: v for k, v in got.items() if "validate" in k})
    from rules import lib_ref
    sc = _report.Ctx("control", "quick", 0)
    lib_ref.release(sc, P, floor=0, tu_key=tu.key)
    lib_ref.singletons(sc, P, floor=0, tu_key=tu.key)
    lib_ref.borrowed(sc, P, floor=0, tu_key=tu.key)
    got = {"%s|%s" % (o["rule"], o["key"]): o["ok"] for o in sc.obligations}
    want_ref = {"REF-RELEASE|control_ref_leak|list": False, "REF-RELEASE|control_ref_released|list": True,
                "REF-SINGLETON|control_ref_singleton|Py_None": False, "REF-SINGLETON|control_ref_singleton_owned|Py_None": True,
                "REF-BORROWED|control_ref_borrowed_released|item": False, "REF-BORROWED|control_ref_borrowed_kept|item": True}
    ctx.ob(rule, "ref-discipline", all(got.get(k) is v for k, v in want_ref.items()), FIXTURE,
           "leaked / unowned singleton / released borrowed reference reported, their twins accepted: %s" % {k: got.get(k) for k in want_ref})
    # Python slip lints on their own fixture
    from .pyfront import PyMod
    from rules import lib_kind3
    fx = os.path.join(os.path.dirname(FIXTURE), "controls_py.py")
    pm = PyMod("controls_py", fx)
    got = {qn: [k for k, _, _ in lib_kind3.py_function_lints(pm, qn, fn)] for qn, fn in pm.funcs.items()}
    want = {"late_binding": ["late-binding"], "early_binding": [], "mutable_default": ["mutable-default"], "swallowed": ["swallowed-exception"],
            "iterator_reuse": ["iterator-reuse"], "iterator_once": [], "or_default": ["or-default"], "none_default": [],
            "unused_loop_variable": ["unused-loop-variable"], "where_tuple": ["where-tuple"], "where_array": [],
            "inplace_view": ["inplace-foreign"], "inplace_copy": [], "inplace_param": ["inplace-foreign"],
            "tree_reuse": ["tree-reuse"], "tree_copy": [], "set_order": ["set-order"], "sorted_set": [],
            "or_falsy_literal": [], "repeat_loop": [], "set_sum": [], "_fill_buffer": [],
            "set_order_local": ["set-order"], "argmax_mask": ["argmax-mask"], "argmax_mask_guarded": [],
            "implicit_none": ["implicit-none"], "explicit_raise": [],
            "param_override": ["param-override"], "param_default_filled": [], "raw_index": ["raw-index"], "raw_index_checked": [],
            "try_multi": ["try-multi"], "try_single": [], "zip_domain": ["zip-domain"], "zip_same_table": [],
            "Seq.__eq__": ["equality"], "Seq2.__eq__": [], "or_none": ["or-none"],
            "alloc_domain": ["alloc-domain"], "alloc_domain_indexed": [],
            "fold_dropped": ["fold-dropped"], "fold_kept": [],
            "uint_arith": ["uint-arith"], "uint_arith_converted": [],
            "stale_buffer": ["stale-buffer"], "fresh_buffer": [],
            "assert_same": ["assert-falls"], "assert_same_raises": [],
            "unsafe_int_cast": ["unsafe-int-cast"], "safe_int_cast": [],
            "Cache.cache_escape": ["cache-escape"], "Cache.cache_frozen": [],
            "return_before_check": ["return-before-check"], "check_before_return": [],
            "aggregate_length": ["aggregate-length"], "each_length": [],
            "Stat.specified_path": ["specified-path"], "Stat.specified_exact": [],
            "subtree_root": ["subtree-root"], "subtree_root_compared": []}
    ctx.ob(rule, "py-slips", got == want, fx, "python slip lints on the fixture: %s" % got)
