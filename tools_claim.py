#!/venv/bin/python
"""tools_claim.py Cxx "text" "note" "technique"  -- register a claimed property and regenerate MANIFEST.json"""
import json, sys, subprocess
pid, text, note, tech = sys.argv[1:5]
c = json.load(open('/verif/tables/claims.json'))
c['claimed'][pid] = {"text": text, "note": note, "technique": tech}
c['not_applicable'].pop(pid, None)
json.dump(c, open('/verif/tables/claims.json', 'w'), indent=1)
subprocess.run(['/venv/bin/python', '/verif/tools_mk_manifest.py'], check=True)
