"""C16 rules over python/tskit/vcf.py (and the missing-data marker in genotypes.c)."""
from __future__ import annotations

import ast

from sa.expr import walk, estr, strip
from sa.pyfront import call_name, dotted


def _parents(node):
    pm = {}
    for p in ast.walk(node):
        for c in ast.iter_child_nodes(p):
            pm[c] = p
    return pm


def writer_structure(ctx, py, rule="VCF-WRITE"):
    ctx.rule(rule, "VcfWriter.write: the site-mask `continue` is the first statement of the per-variant loop (masked sites influence "
                   "neither output nor errors); one record has the nine fixed VCF fields POS <- transformed_positions[variant.index], "
                   "ID <- site id, REF <- alleles[0], ALT <- alleles[1:num_alleles] or '.'; the '.' substitution for genotype -1 runs "
                   "whenever the variant has missing data or a sample mask is present (an `if` at loop level, not an alternative of "
                   "the mask branch); masks are coerced with dtype=bool")
    m = py.mod("vcf")
    fn = py.func("vcf", "VcfWriter.write")
    loops = [l for l in ast.walk(fn) if isinstance(l, ast.For) and "self.tree_sequence.variants(" in ast.unparse(l.iter)]
    ctx.need(len(loops) == 1, "variant loop in VcfWriter.write")
    lp = loops[0]
    it = ast.unparse(lp.iter)
    ctx.ob(rule, "variants-args", "samples=self.samples" in it and "isolated_as_missing=self.isolated_as_missing" in it, m.loc(lp),
           "variants(samples=self.samples, isolated_as_missing=self.isolated_as_missing)")
    body = lp.body
    first_if = next((s for s in body if isinstance(s, ast.If)), None)
    pre = body[:body.index(first_if)] if first_if is not None else body
    ok = first_if is not None and "self.site_mask[" in ast.unparse(first_if.test) and isinstance(first_if.body[0], ast.Continue) \
        and not any(isinstance(x, (ast.Raise, ast.Call)) and not (isinstance(x, ast.Call) and False) for s in pre for x in ast.walk(s)
                    if isinstance(x, ast.Raise) or (isinstance(x, ast.Call) and call_name(x) == "print"))
    ctx.ob(rule, "mask-first", ok, m.loc(first_if or lp), "`if self.site_mask[site_id]: continue` precedes every raise and print of the loop body")
    prints = [c for c in ast.walk(lp) if isinstance(c, ast.Call) and call_name(c) == "print" and len(c.args) >= 9]
    ok = len(prints) == 1
    fields = {}
    if ok:
        a = prints[0].args
        ok = len(a) == 9 and ast.unparse(a[0]) == "self.contig_id" and [ast.unparse(x) for x in a[5:]] == ["'.'", "'PASS'", "'.'", "'GT'"] \
            and all(isinstance(x, ast.Name) for x in a[1:5])
        if ok:
            fields = dict(zip(("pos", "id", "ref", "alt"), [x.id for x in a[1:5]]))
    ctx.ob(rule, "record-fields", ok, m.loc(prints[0] if prints else lp), "nine fixed fields CHROM POS ID REF ALT QUAL FILTER INFO FORMAT")

    def defs(var):
        return [ast.unparse(x.value) for x in ast.walk(lp) if isinstance(x, ast.Assign) and any(isinstance(t, ast.Name) and t.id == var for t in x.targets)]
    src = ast.unparse(lp)
    ctx.ob(rule, "pos", defs(fields.get("pos")) == ["self.transformed_positions[variant.index]"], m.loc(lp), "POS from the transformed position of this variant")
    ctx.ob(rule, "id", defs(fields.get("id")) == ["variant.site.id"], m.loc(lp), "ID is the site id")
    ctx.ob(rule, "ref", defs(fields.get("ref")) == ["variant.alleles[0]"], m.loc(lp), "REF is alleles[0]")
    ctx.ob(rule, "alt", sorted(defs(fields.get("alt"))) == sorted(["'.'", "','.join(variant.alleles[1:variant.num_alleles])"]), m.loc(lp),
           "ALT lists the remaining alleles or '.'")
    # '.' substitution
    pm = _parents(fn)
    stores = [a for a in ast.walk(lp) if isinstance(a, ast.Assign) and "ord('.')" in ast.unparse(a.value) and "gt_array" in ast.unparse(a.targets[0])]
    ok = len(stores) == 1
    why = "%d store(s) of ord('.')" % len(stores)
    if ok:
        st = stores[0]
        tgt = ast.unparse(st.targets[0])
        p = pm.get(st)
        chain = []
        node = st
        while p is not None and p is not lp:
            if isinstance(p, ast.If):
                chain.append((p, node in p.orelse or any(node is x for x in p.orelse)))
            node = p
            p = pm.get(p)
        ok = len(chain) == 1 and not chain[0][1] and chain[0][0] in lp.body
        if ok:
            t = ast.unparse(chain[0][0].test)
            ok = "variant.has_missing_data" in t and isinstance(chain[0][0].test, ast.BoolOp) and isinstance(chain[0][0].test.op, ast.Or) \
                and "self.sample_mask is not None" in t
            why = "substitution guarded by `%s` at loop level" % t
        else:
            why = "the '.' substitution is nested in / an alternative of another branch: missing calls are skipped on some paths"
        # the index of the store is a local defined as `genotypes == -1` (whatever it is called)
        idx = None
        t0 = st.targets[0]
        if isinstance(t0, ast.Subscript):
            for nme in ast.walk(t0.slice):
                if isinstance(nme, ast.Name):
                    ds = [a for a in ast.walk(lp) if isinstance(a, ast.Assign) and any(isinstance(t, ast.Name) and t.id == nme.id for t in a.targets)]
                    if len(ds) == 1 and isinstance(ds[0].value, ast.Compare) and ast.unparse(ds[0].value.comparators[0]) == "-1" \
                            and isinstance(ds[0].value.ops[0], ast.Eq):
                        idx = nme.id
        ok = ok and idx is not None
    ctx.ob(rule, "missing-substitution", ok, m.loc(stores[0] if stores else lp), why)
    ctx.ob(rule, "genotype-chars", "gt_array[indexes] = genotypes + ord('0')" in src, m.loc(lp), "allele index written as its digit")
    ctx.ob(rule, "sample-mask", "genotypes[sample_mask] = -1" in src and "genotypes = genotypes.copy()" in src, m.loc(lp),
           "masked samples become -1 on a copy (the variant's array is not modified)")
    init = py.func("vcf", "VcfWriter.__init__")
    for a in ast.walk(init):
        if isinstance(a, ast.Assign) and isinstance(a.value, ast.Call) and call_name(a.value) in ("np.array", "np.asarray") \
                and a.value.args and isinstance(a.value.args[0], ast.Name) and "mask" in a.value.args[0].id:
            kws = {k.arg: ast.unparse(k.value) for k in a.value.keywords}
            ctx.ob(rule, "mask-dtype|%s" % a.value.args[0].id, kws.get("dtype") == "bool", m.loc(a),
                   "%s normalised with %s" % (a.value.args[0].id, ast.unparse(a.value)))
    for a in ast.walk(fn):
        if isinstance(a, ast.Assign) and isinstance(a.value, ast.Call) and call_name(a.value) in ("np.array", "np.asarray") \
                and "sample_mask" in ast.unparse(a.value.args[0]):
            kws = {k.arg: ast.unparse(k.value) for k in a.value.keywords}
            ctx.ob(rule, "mask-dtype|write.sample_mask", kws.get("dtype") == "bool", m.loc(a), "per-variant sample mask coerced to bool")
    hdr = py.func("vcf", "VcfWriter._VcfWriter__write_header") if "VcfWriter._VcfWriter__write_header" in m.funcs else None
    for qn, f in m.funcs.items():
        if qn.endswith("write_header"):
            s = ast.unparse(f)
            ok = all(c in s for c in ("#CHROM", "POS", "ID", "REF", "ALT", "QUAL", "FILTER", "INFO", "FORMAT")) and "self.individual_names" in s \
                and "contig_length" in s
            ctx.ob(rule, "header", ok, m.loc(f), "header names the nine fixed columns, the individuals and the contig length")


def mark_missing(ctx, P, rule="MARK-MISSING"):
    ctx.rule(rule, "tsk_variant_mark_missing visits every root of the current tree (one loop from left_child[virtual_root] along "
                   "right_sib, not nested in any condition, single return at the end) and marks exactly the childless roots that "
                   "are requested samples")
    tu = P.tus["genotypes"]
    fn = P.need("tsk_variant_mark_missing", "genotypes")
    rets = [x for x in walk(fn.body) if x.k == "ReturnStmt"]
    ctx.ob(rule, "single-return", len(rets) == 1 and fn.body.kids[-1] is rets[0], tu.loc(fn.node), "%d return statement(s)" % len(rets))
    loops = [s for s in fn.body.kids if s is not None and s.k == "ForStmt"]
    ok = len(loops) == 1
    if ok:
        lp = loops[0]
        ok = estr(lp.kids[0]) in ("(root = left_child[N])", "(root = self->tree.left_child[self->tree.virtual_root])") and "right_sib[root]" in estr(lp.kids[3])
    ctx.ob(rule, "root-loop", ok, tu.loc(fn.node), "top-level loop over all roots")
    conds = [estr(x.kids[0]) for x in walk(fn.body) if x.k == "IfStmt"]
    ctx.ob(rule, "conditions", conds == ["(left_child[root] == TSK_NULL)", "(sample_index != TSK_NULL)"], tu.loc(fn.node),
           "marks childless roots that are requested samples; conditions %s" % conds)
    src = tu.src(fn.body)
    ctx.ob(rule, "marks", "genotypes[sample_index] = TSK_MISSING_DATA" in src and "num_missing++" in src, tu.loc(fn.node), "genotype set to TSK_MISSING_DATA and counted")
