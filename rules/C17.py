"""C17 - Text table dumps reload to the same tree sequence (structural clauses)."""
from __future__ import annotations

from . import scopes, lib_py, lib_newick, lib_module, lib_order, lib_schema, lib_mem, lib_kind, lib_kind4

LEVEL = "other"
EXPLANATION = ("Writer/reader column agreement between dump_text and the seven parse_* functions, header-driven token indexing, "
               "Base64 symmetry, option forwarding in load_text, sort + validity gate. Does not decide numeric round trip at a "
               "given precision.")


def run(ctx):
    py = ctx.python()
    lib_py.text_agreement(ctx, py)
    lib_py.header_indexing(ctx, py)
    lib_py.text_metadata_symmetry(ctx, py)
    lib_py.optional_index_tests(ctx, py)
    ps, ms = scopes.py_scope("C17"), scopes.module_scope("C17")
    lib_newick.none_defaults(ctx, py, mods=("trees", "text_formats"), only=ps)
    P = ctx.program()
    lib_module.format_types(ctx, P, only=ms)
    srt = lambda f: f.startswith("tsk_table_sorter_")
    lib_order.memcpy_alias(ctx, P, funcs=srt)
    lib_order.bookmark_cursor(ctx, P)
    import re as _re
    lib_module.module_guards(ctx, P, only=lambda f: _re.fullmatch(r"TreeSequence_get_(node|edge|migration|site|mutation|individual|population|provenance)", f) is not None)
    lib_order.comparators(ctx, P)
    lib_schema.argname(ctx, P, tus=("tables",), funcs=srt)
    lib_py.row_independent(ctx, py)
    lib_kind.py_tokenise_siblings(ctx, py)
    lib_kind.py_unknown_time(ctx, py)
    lib_py.unused_params(ctx, py, mods=("text_formats", "trees"), only=scopes.py_scope("C17"))
    lib_kind.py_lints(ctx, py, mods=("text_formats", "trees"), only=scopes.py_scope("C17"))
    lib_kind4.sort_last(ctx, py)
    lib_mem.c_lints(ctx, ctx.program(), scopes.lib_scope("C17"), tus=["tables"])
