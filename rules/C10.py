"""C10 - Truncated or corrupted files are rejected, never loaded as something else (structural clauses)."""
from __future__ import annotations

from sa.cfront import LIB_TUS
from . import scopes, lib_file, lib_err, lib_py, lib_gatefn, lib_mem, lib_kind, lib_guards

LEVEL = "other"
EXPLANATION = ("Every I/O and kastore result is checked and a short read can never pass as a full one; every validation guard of the "
               "readers confirmed by reading is present; check_offsets covers every adjacent pair; kastore errors are converted and "
               "mapped to Python exceptions; tskit.load passes the validity gate; the re-raise helper never returns. Does not decide "
               "the statement over all byte offsets and substitutions.")


def run(ctx):
    P = ctx.program()
    py = ctx.python()
    lib_file.fread_exact(ctx, P)
    lib_file.offsets_cover(ctx, P)
    lib_file.read_validated(ctx, P)
    lib_file.no_wrap(ctx, P)
    lib_file.keys_accounted(ctx, P)
    lib_file.inventory(ctx, P)
    lib_file.layout_agreement(ctx, P)
    lib_file.error_translation(ctx, P, py)
    E = lib_err.discipline(ctx, P, ["kastore"])
    funcs = set(lib_file.FILE_FUNCS_TABLES) | {"tsk_treeseq_load", "tsk_treeseq_loadf", "write_table", "write_table_cols",
                                               "write_table_ragged_cols", "tsk_table_collection_dumpf", "tsk_table_collection_dump"}
    for t in ("individual", "node", "edge", "migration", "site", "mutation", "population", "provenance"):
        funcs |= {"tsk_%s_table_load" % t, "tsk_%s_table_takeset_columns" % t, "tsk_%s_table_dump" % t}
    lib_err.discipline(ctx, P, ["tables", "trees"], funcs=funcs, errprop=E)
    lib_err.module_handlers(ctx, P, E)
    lib_gatefn.treeseq_init(ctx, P)
    lib_kind.takeset_atomic(ctx, P)
    lib_gatefn.gate_dispatch(ctx, P)
    lib_gatefn.gate_spec(ctx, P)
    lib_gatefn.gate_loops(ctx, P)
    from . import lib_kind3
    lib_kind3.error_codes(ctx, P)
    from . import lib_kind2
    lib_kind2.guard_seqlen(ctx, P)
    # an altered data region is rejected by the validity gate that tskit.load passes: its id guards must be exact
    gate = {f for f in P.tus["tables"].funcs if f.startswith("tsk_table_collection_check_")}
    seen = lib_guards.analyse(ctx, P, funcs=gate)
    lib_guards.presence(ctx, seen, funcs=gate, P=P)
    lib_py.always_raises(ctx, py, "util", "raise_known_file_format_errors")
    # the Python entry points of load: an except-handler that stops raising makes load() return None for a corrupt file
    ps = scopes.py_scope("C10")
    lib_py.unused_params(ctx, py, mods=("trees", "tables", "util"), only=ps)
    lib_kind.py_lints(ctx, py, mods=("trees", "tables", "util"), only=ps)
    from . import lib_kind4
    lib_kind4.open_mode(ctx, py)
    lib_mem.c_lints(ctx, ctx.program(), scopes.lib_scope("C10"))
