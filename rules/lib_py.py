"""A9: rules over the Python facade (python/tskit/*.py), ast only."""
from __future__ import annotations

import ast
import re

from sa.pyfront import dotted, call_name, calls_in, kwargs_of, params_of

TABLE_ATTR = {"individuals": "IndividualTable", "nodes": "NodeTable", "edges": "EdgeTable", "migrations": "MigrationTable",
              "sites": "SiteTable", "mutations": "MutationTable", "populations": "PopulationTable",
              "provenances": "ProvenanceTable"}


def table_columns(py):
    """class name -> column_names list (from the class attribute in tables.py)."""
    m = py.mod("tables")
    out = {}
    for cname, cls in m.classes.items():
        for st in cls.body:
            if isinstance(st, ast.Assign) and any(isinstance(t, ast.Name) and t.id == "column_names" for t in st.targets):
                if isinstance(st.value, (ast.List, ast.Tuple)):
                    out[cname] = [e.value for e in st.value.elts if isinstance(e, ast.Constant)]
    return out


def parents_map(node):
    pm = {}
    for p in ast.walk(node):
        for c in ast.iter_child_nodes(p):
            pm[c] = p
    return pm


# ---------------------------------------------------------------------------------------------
def setcols_complete(ctx, py, rule="PY-SETCOLS", only_tables=False):
    ctx.rule(rule, "a TableCollection method that rebuilds one of its own tables with self.<table>.set_columns(...) passes every "
                   "column in that table's column_names (set_columns replaces the table: an omitted column is data dropped); "
                   "table methods that rewrite themselves pass **self.asdict()-derived dicts")
    cols = table_columns(py)
    ctx.need(len(cols) >= 8, "column_names of the table classes")
    m = py.mod("tables")
    n = 0
    for qn, fn in m.funcs.items():
        cls = qn.split(".")[0]
        for c in ast.walk(fn):
            if not (isinstance(c, ast.Call) and isinstance(c.func, ast.Attribute) and c.func.attr in ("set_columns", "append_columns")):
                continue
            meth = c.func.attr
            recv = dotted(c.func.value)
            if recv is None:
                continue
            parts = recv.split(".")
            if cls == "TableCollection" and len(parts) == 2 and parts[0] == "self" and parts[1] in TABLE_ATTR and not only_tables:
                want = cols[TABLE_ATTR[parts[1]]]
                have = {k.arg for k in c.keywords if k.arg}
                star = any(k.arg is None for k in c.keywords)
                missing = [w for w in want if w not in have]
                ok = star or not missing
                n += 1
                ctx.ob(rule, "%s|%s|%s" % (qn, parts[1], meth), ok, m.loc(c),
                       "all columns passed" if ok else "self.%s.%s(...) omits %s: these columns are emptied" % (parts[1], meth, missing))
                # each keyword is fed from the column of the same name: `dest=self.migrations.source` rewrites one column with another
                for k in c.keywords:
                    if k.arg is None:
                        continue
                    srcs = {a.attr for a in ast.walk(k.value) if isinstance(a, ast.Attribute) and (dotted(a.value) or "") == recv}
                    if srcs:
                        okk = srcs == {k.arg}
                        ctx.ob(rule, "%s|%s|%s|%s" % (qn, parts[1], meth, k.arg), okk, m.loc(k.value),
                               "%s= comes from %s.%s" % (k.arg, recv, k.arg) if okk else
                               "%s= is filled from %s.%s: the column is overwritten with another column's values" % (k.arg, recv, sorted(srcs)[0]))
            elif recv == "self" and cls in cols or (recv == "self" and cls in ("BaseTable", "MetadataTable")):
                if qn.endswith(".set_columns") or meth != "set_columns":
                    continue
                star = [k for k in c.keywords if k.arg is None]
                n += 1
                ok = bool(star) and not [k for k in c.keywords if k.arg is not None and k.arg != "metadata_schema"]
                src = ""
                if star and isinstance(star[0].value, ast.Name):
                    nm = star[0].value.id
                    # the dict comes from self.asdict() / other.asdict() / a state dict
                    for a in ast.walk(fn):
                        if isinstance(a, ast.Assign) and any(isinstance(t, ast.Name) and t.id == nm for t in a.targets):
                            src = ast.unparse(a.value)
                ctx.ob(rule, "%s|self" % qn, ok, m.loc(c), "self.set_columns(**%s)" % (src or (ast.unparse(star[0].value) if star else "?")))
    return n


def kw_forward(ctx, py, mods=("trees", "tables", "vcf", "genotypes", "stats", "text_formats"), rule="PY-KWFORWARD", only=None):
    ctx.rule(rule, "when a function forwards one of its own parameters as keyword K=<param>, and K is itself the name of "
                   "another of its parameters, the two names must be equal (K=otherparam is a crossed option)")
    n = 0
    for mn in mods:
        m = py.mod(mn)
        for qn, fn in m.funcs.items():
            if only is not None and not only(mn, qn):
                continue
            names, kwonly, _ = params_of(fn)
            ps = set(names) | set(kwonly)
            for c in ast.walk(fn):
                if not isinstance(c, ast.Call):
                    continue
                for k in c.keywords:
                    if k.arg is None or not isinstance(k.value, ast.Name):
                        continue
                    if k.arg in ps and k.value.id in ps:
                        n += 1
                        ok = k.arg == k.value.id or (qn, k.arg, k.value.id) in KWFORWARD_OK
                        ctx.ob(rule, "%s|%s=%s" % (qn, k.arg, k.value.id), ok, m.loc(c),
                               "forwarded under its own name" if ok else
                               "%s(...%s=%s...) crosses two parameters of %s" % (call_name(c), k.arg, k.value.id, qn))
    return n


KWFORWARD_OK = set()


def unused_params(ctx, py, mods=("trees", "tables", "vcf", "genotypes", "stats", "text_formats", "util", "metadata", "intervals"),
                  rule="PY-PARAM-USED", only=None):
    ctx.rule(rule, "every parameter of a function in the facade is read in its body (a parameter that is never read is an "
                   "option silently ignored); stubs and frozen exceptions excluded")
    n = 0
    for mn in mods:
        m = py.mod(mn)
        for qn, fn in m.funcs.items():
            if only is not None and not only(mn, qn):
                continue
            body = [s for s in fn.body if not (isinstance(s, ast.Expr) and isinstance(s.value, ast.Constant))]
            if not body or all(isinstance(s, (ast.Pass, ast.Raise)) for s in body):
                continue
            names, kwonly, _ = params_of(fn)
            used = {x.id for x in ast.walk(fn) if isinstance(x, ast.Name) and isinstance(x.ctx, ast.Load)}
            has_locals = any(isinstance(x, ast.Call) and call_name(x) in ("locals", "vars") for x in ast.walk(fn))
            for p in names + kwonly:
                if p in ("self", "cls") or p.startswith("_"):
                    continue
                n += 1
                ok = p in used or has_locals or (mn, qn, p) in UNUSED_OK
                ctx.ob(rule, "%s.%s|%s" % (mn, qn, p), ok, m.loc(fn),
                       "read" if ok else "parameter `%s` of %s is never read: the option is ignored" % (p, qn))
    py_dead_stores(ctx, py, mods, only=only)
    return n


UNUSED_OK = {
    ("metadata", "AbstractMetadataCodec.is_schema_trivial", "schema"),   # base-class default, overridden
    ("metadata", "JSONCodec.default_validator", "types"),                # jsonschema.validators.create() callback signature
    ("metadata", "JSONCodec.default_validator", "schema"),
    ("metadata", "_CachedMetadata.__get__", "owner"),                   # descriptor protocol
}


def validate_before_store(ctx, py, rule="PY-VALIDATE-STORE"):
    ctx.rule(rule, "on every row-insertion path of tables.py the metadata handed to ll_table.add_row / update_row is the result "
                   "of self.metadata_schema.validate_and_encode_row (no other value is stored)")
    m = py.mod("tables")
    cols = table_columns(py)
    n = 0
    for cname in cols:
        if "metadata" not in cols[cname]:
            continue
        fn = m.funcs.get(cname + ".add_row")
        ctx.need(fn is not None, "%s.add_row" % cname)
        ok, why, node = _metadata_flow(fn)
        n += 1
        ctx.ob(rule, "%s.add_row" % cname, ok, m.loc(node or fn), why)
    fn = m.funcs.get("BaseTable.__setitem__")
    ctx.need(fn is not None, "BaseTable.__setitem__")
    stores = []
    for a in ast.walk(fn):
        if isinstance(a, ast.Assign):
            for t in a.targets:
                if isinstance(t, ast.Subscript) and isinstance(t.slice, ast.Constant) and t.slice.value == "metadata":
                    stores.append(a)
    ok = bool(stores) and all(isinstance(a.value, ast.Call) and (call_name(a.value) or "").endswith("validate_and_encode_row") for a in stores)
    n += 1
    ctx.ob(rule, "BaseTable.__setitem__|row_data[metadata]", ok, m.loc(stores[0] if stores else fn),
           "%d store(s) to row_data['metadata'], all through validate_and_encode_row" % len(stores) if ok else
           "row_data['metadata'] receives a value that did not pass validate_and_encode_row")
    # the update call forwards row_data and nothing that could override metadata
    upd = [c for c in ast.walk(fn) if isinstance(c, ast.Call) and (call_name(c) or "").endswith("ll_table.update_row")]
    ok = len(upd) == 1 and not any(k.arg == "metadata" for k in upd[0].keywords)
    ctx.ob(rule, "BaseTable.__setitem__|update_row", ok, m.loc(upd[0] if upd else fn), "single update_row(**row_data) call")
    # the guard is only the membership test
    pm = parents_map(fn)
    for a in stores:
        p = pm.get(a)
        conds = []
        while p is not None and p is not fn:
            if isinstance(p, ast.If):
                conds.append(ast.unparse(p.test))
            p = pm.get(p)
        okc = all(c.replace('"', "'") == "'metadata' in row_data" for c in conds)
        ctx.ob(rule, "BaseTable.__setitem__|guard", okc, m.loc(a), "validated under %s" % (conds or "no condition"))
    return n


def _metadata_flow(fn):
    """In add_row: the `metadata` argument of the ll_table.add_row call is a Name whose last top-level assignment is
    validate_and_encode_row(metadata)."""
    call = None
    for c in ast.walk(fn):
        if isinstance(c, ast.Call) and (call_name(c) or "").endswith("ll_table.add_row"):
            call = c
    if call is None:
        return False, "no ll_table.add_row call", None
    arg = None
    for k in call.keywords:
        if k.arg == "metadata":
            arg = k.value
    if arg is None:
        for a_ in call.args:
            if isinstance(a_, ast.Name) and a_.id == "metadata":
                arg = a_
    if arg is None and call.args:
        arg = call.args[-1]
    if not (isinstance(arg, ast.Name)):
        if isinstance(arg, ast.Call) and (call_name(arg) or "").endswith("validate_and_encode_row"):
            return True, "validated inline", call
        return False, "metadata argument of ll_table.add_row is `%s`, not a validated value" % (ast.unparse(arg) if arg is not None else None), call
    last = None
    for st in fn.body:
        for a in ast.walk(st):
            if isinstance(a, ast.Assign) and any(isinstance(t, ast.Name) and t.id == arg.id for t in a.targets):
                if a.lineno < call.lineno:
                    if last is None or a.lineno > last[0].lineno:
                        last = (a, st)
    if last is None:
        return False, "`%s` is never assigned from validate_and_encode_row" % arg.id, call
    a, st = last
    if not (isinstance(a.value, ast.Call) and (call_name(a.value) or "").endswith("validate_and_encode_row")):
        return False, "last assignment to `%s` before the store is `%s`" % (arg.id, ast.unparse(a.value)[:80]), a
    if a is not st:
        return False, "the validating assignment is conditional", a
    return True, "metadata = validate_and_encode_row(metadata) precedes the store unconditionally", a


def use_after_normalise(ctx, py, mod, qual, rule="PY-NORMALISED"):
    ctx.rule(rule, "once a parameter has been normalised with np.array/np.asarray(param, ...) and stored, later index / bitwise / "
                   "arithmetic uses refer to the normalised value, not to the raw parameter")
    m = py.mod(mod)
    fn = py.func(mod, qual)
    names, kwonly, _ = params_of(fn)
    ps = set(names) | set(kwonly)
    norm = {}
    for a in ast.walk(fn):
        if isinstance(a, ast.Assign) and isinstance(a.value, ast.Call) and call_name(a.value) in ("np.array", "np.asarray", "numpy.array", "numpy.asarray"):
            if a.value.args and isinstance(a.value.args[0], ast.Name) and a.value.args[0].id in ps:
                tgt = a.targets[0]
                # rebinding the parameter itself is fine (raw value gone)
                if isinstance(tgt, ast.Name) and tgt.id == a.value.args[0].id:
                    continue
                norm[a.value.args[0].id] = (a.lineno, ast.unparse(tgt))
    n = 0
    pm = parents_map(fn)
    for pname, (line, tgt) in norm.items():
        bad = []
        for x in ast.walk(fn):
            if isinstance(x, ast.Name) and x.id == pname and isinstance(x.ctx, ast.Load) and x.lineno > line:
                p = pm.get(x)
                if isinstance(p, (ast.UnaryOp, ast.BinOp, ast.Subscript)) or (isinstance(p, ast.Compare)):
                    if isinstance(p, ast.Compare) and all(isinstance(o, (ast.Is, ast.IsNot)) for o in p.ops):
                        continue
                    bad.append(x)
        n += 1
        ctx.ob(rule, "%s.%s|%s" % (mod, qual, pname), not bad, m.loc(bad[0] if bad else fn),
               "raw `%s` used after being normalised into %s" % (pname, tgt) if bad else "only %s is used after normalisation" % tgt)
    return n


def facade_guard(ctx, py, mod, qual, var, before_call_suffix, rule="PY-FACADE-GUARD", lower="0", upper=None):
    """`var` is range-tested (both bounds, raising) before the call whose name ends with before_call_suffix."""
    ctx.rule(rule, "facade methods that pass an index to an unguarded low-level call test both bounds first and raise")
    m = py.mod(mod)
    fn = py.func(mod, qual)
    target = None
    for c in ast.walk(fn):
        if isinstance(c, ast.Call) and (call_name(c) or "").endswith(before_call_suffix):
            target = c
            break
    if target is None:
        ctx.ob(rule, "%s.%s|%s" % (mod, qual, var), False, m.loc(fn), "call to %s not found" % before_call_suffix)
        return
    lo = hi = False
    for st in ast.walk(fn):
        if isinstance(st, ast.If) and st.lineno < target.lineno and any(isinstance(b, ast.Raise) for b in st.body):
            for cmp_ in ast.walk(st.test):
                if isinstance(cmp_, ast.Compare) and isinstance(cmp_.left, ast.Name) and cmp_.left.id == var and len(cmp_.ops) == 1:
                    op = cmp_.ops[0]
                    rhs = ast.unparse(cmp_.comparators[0])
                    if isinstance(op, ast.Lt) and rhs == lower:
                        lo = True
                    if isinstance(op, ast.GtE) and (upper is None or rhs == upper):
                        hi = True
    ctx.ob(rule, "%s.%s|%s" % (mod, qual, var), lo and hi, m.loc(target),
           "`%s` tested < %s and >= %s before %s" % (var, lower, upper or "len", before_call_suffix) if lo and hi else
           "missing %s test of `%s` before %s" % ("/".join(w for w, k in (("lower", lo), ("upper", hi)) if not k), var, before_call_suffix))


def gate_before_return(ctx, py, methods, rule="PY-GATE-RETURN"):
    ctx.rule(rule, "TreeSequence editing methods work on self.dump_tables() (a copy) and return tables.tree_sequence(), i.e. the "
                   "result passes the validity gate and the receiver is not modified")
    m = py.mod("trees")
    for name in methods:
        fn = m.funcs.get("TreeSequence." + name)
        ctx.need(fn is not None, "TreeSequence.%s" % name)
        rets = [r for r in ast.walk(fn) if isinstance(r, ast.Return) and r.value is not None]
        okr = bool(rets)
        for r in rets:
            v = r.value
            elts = v.elts if isinstance(v, ast.Tuple) else [v]
            first = elts[0]
            good = False
            if isinstance(first, ast.Call) and (call_name(first) or "").endswith(".tree_sequence"):
                good = True
            elif isinstance(first, ast.Name):
                # new_ts = tables.tree_sequence()
                for a in ast.walk(fn):
                    if isinstance(a, ast.Assign) and any(isinstance(t, ast.Name) and t.id == first.id for t in a.targets) \
                            and isinstance(a.value, ast.Call) and (call_name(a.value) or "").endswith(".tree_sequence"):
                        good = True
            elif isinstance(first, ast.Call) and call_name(first) in ("self.delete_intervals", "self.keep_intervals", "self.simplify"):
                good = True
            elif isinstance(first, ast.Call) and call_name(first) == "TreeSequence" and first.args and isinstance(first.args[0], ast.Name):
                # TreeSequence(ll_ts) with ll_ts = self._ll_tree_sequence.<op>(...): the C operation builds its output through
                # tsk_treeseq_init (checked on the C side by rule TS-OUTPUT-GATED)
                for a in ast.walk(fn):
                    if isinstance(a, ast.Assign) and any(isinstance(t, ast.Name) and t.id == first.args[0].id for t in a.targets) \
                            and isinstance(a.value, ast.Call) and (call_name(a.value) or "").startswith("self._ll_tree_sequence."):
                        good = True
                        lowlevel = True
            okr = okr and good
        dumps = [c for c in ast.walk(fn) if isinstance(c, ast.Call) and (call_name(c) or "").endswith("dump_tables")]
        dumps = dumps or [c for c in ast.walk(fn) if isinstance(c, ast.Call) and (call_name(c) or "").startswith("self._ll_tree_sequence.")]
        deleg = any(isinstance(c, ast.Call) and call_name(c) in ("self.delete_intervals", "self.keep_intervals") for c in ast.walk(fn))
        ctx.ob(rule, "TreeSequence." + name, okr and (bool(dumps) or deleg), m.loc(fn),
               "returns tables.tree_sequence() from a dump_tables() copy" if okr and (dumps or deleg) else
               "does not return through tables.tree_sequence() on a copy")


def _is_null_const(e):
    if isinstance(e, ast.Name) and e.id == "NULL":
        return True
    if isinstance(e, ast.Attribute) and e.attr == "NULL":
        return True
    if isinstance(e, ast.Constant) and e.value == -1:
        return True
    return isinstance(e, ast.UnaryOp) and isinstance(e.op, ast.USub) and isinstance(e.operand, ast.Constant) and e.operand.value == 1


def _tests_not_null(test, v):
    """`test` is (a conjunction containing) v != NULL, NULL != v, v >= 0 or v > -1."""
    if isinstance(test, ast.BoolOp) and isinstance(test.op, ast.And):
        return any(_tests_not_null(t, v) for t in test.values)
    if isinstance(test, ast.Compare) and len(test.ops) == 1:
        a, b, op = test.left, test.comparators[0], test.ops[0]
        isv = lambda e: isinstance(e, ast.Name) and e.id == v      # noqa: E731
        if isinstance(op, ast.NotEq) and ((isv(a) and _is_null_const(b)) or (isv(b) and _is_null_const(a))):
            return True
        if isv(a) and isinstance(op, ast.GtE) and isinstance(b, ast.Constant) and b.value == 0:
            return True
        if isv(a) and isinstance(op, ast.Gt) and _is_null_const(b):
            return True
    return False


def null_index(ctx, py, rule="PY-NULL-INDEX"):
    ctx.rule(rule, "in trees.py a value obtained from a NULL-able tree accessor (left_sample, right_sample, next_sample, "
                   "left_child, right_sib, parent, ...) is compared with NULL before it is used as a subscript "
                   "(list[-1] would silently wrap)")
    NULLABLE = ("left_sample", "right_sample", "next_sample", "left_child", "right_child", "left_sib", "right_sib", "parent")
    m = py.mod("trees")
    n = 0
    for qn, fn in m.funcs.items():
        defs = {}
        for a in ast.walk(fn):
            if isinstance(a, ast.Assign) and len(a.targets) == 1 and isinstance(a.targets[0], ast.Name) and isinstance(a.value, ast.Call):
                cn = call_name(a.value) or ""
                if cn.startswith("self.") and cn.split(".")[-1] in NULLABLE:
                    defs.setdefault(a.targets[0].id, []).append(a)
        if not defs:
            continue
        pm = parents_map(fn)
        for x in ast.walk(fn):
            if isinstance(x, ast.Subscript) and isinstance(x.slice, ast.Name) and x.slice.id in defs and isinstance(x.ctx, ast.Load):
                v = x.slice.id
                # an enclosing If/While whose test compares v with NULL
                p = pm.get(x)
                guarded = False
                while p is not None and p is not fn:
                    if isinstance(p, (ast.If, ast.While)):
                        in_body = any(x is y for b in p.body for y in ast.walk(b))
                        if in_body and _tests_not_null(p.test, v):
                            guarded = True
                    p = pm.get(p)
                n += 1
                ctx.ob(rule, "%s|%s[%s]" % (qn, ast.unparse(x.value), v), guarded, m.loc(x),
                       "guarded by %s != NULL" % v if guarded else
                       "`%s` comes from a NULL-able accessor and indexes `%s` without a NULL test" % (v, ast.unparse(x.value)))
    return n


# =============================================================================================
# C17: text writer / reader agreement
TEXT_PARSERS = {"nodes": "parse_nodes", "edges": "parse_edges", "sites": "parse_sites", "mutations": "parse_mutations",
                "individuals": "parse_individuals", "populations": "parse_populations", "migrations": "parse_migrations"}


def _writer_tables(py):
    """dump_text: table -> (header columns, [format field names], node)."""
    m = py.mod("text_formats")
    fn = py.func("text_formats", "dump_text")
    out = {}
    for st in fn.body:
        if not isinstance(st, ast.If):
            continue
        t = ast.unparse(st.test)
        if not t.endswith(" is not None"):
            continue
        tbl = t.split(" ")[0]
        header = None
        fields = None
        for x in ast.walk(st):
            if isinstance(x, ast.Call) and call_name(x) == "print" and header is None:
                consts = [a.value for a in x.args if isinstance(a, ast.Constant) and isinstance(a.value, str)]
                if consts and len(consts) == len(x.args):
                    header = consts
            if isinstance(x, ast.Call) and isinstance(x.func, ast.Attribute) and x.func.attr == "format" and fields is None:
                base = x.func.value
                if isinstance(base, ast.Constant) and isinstance(base.value, str):
                    import string
                    fields = [f[1].split(":")[0] for f in string.Formatter().parse(base.value) if f[1] is not None]
                    fields = [f for f in fields if f != "precision"]
                    kws = {k.arg for k in x.keywords}
                    fields = (fields, kws, base.value)
        out[tbl] = (header, fields, st)
    return m, out


def text_agreement(ctx, py, rule="PY-TEXT-COLUMNS"):
    ctx.rule(rule, "per table, every column dump_text writes (except the implicit id) is read by the matching parse_* function, "
                   "every required parser column is written, and each data row has exactly the header's fields in the header's order")
    m, W = _writer_tables(py)
    tm = py.mod("trees")
    n = 0
    for tbl, pname in TEXT_PARSERS.items():
        ctx.need(tbl in W and W[tbl][0] is not None, "dump_text header for %s" % tbl)
        header, fields, node = W[tbl]
        pf = py.func("trees", pname)
        req, opt = _reader_columns(pf)
        written = [h for h in header if h != "id"]
        unread = [c for c in written if c not in req and c not in opt]
        n += 1
        ctx.ob(rule, "%s|written-read" % tbl, not unread, tm.loc(pf),
               "all written columns are read" if not unread else "dump_text writes %s for %s but %s never reads it" % (unread, tbl, pname))
        unwritten = [c for c in req if c not in header]
        ctx.ob(rule, "%s|required-written" % tbl, not unwritten, m.loc(node),
               "all required columns are written" if not unwritten else "%s requires %s which dump_text does not write" % (pname, unwritten))
        if fields is not None:
            fl, kws, fmt = fields
            # 'child' etc: names must equal header names in order
            ctx.ob(rule, "%s|row-fields" % tbl, fl == header, m.loc(node),
                   "row fields == header" if fl == header else "header %s but row fields %s" % (header, fl))
            ctx.ob(rule, "%s|row-kwargs" % tbl, set(fl) <= kws, m.loc(node), "format() supplies every field")
            seps = fmt.count("\t")
            ctx.ob(rule, "%s|row-tabs" % tbl, seps in (len(header) - 1, len(header)), m.loc(node), "%d tab separators for %d columns" % (seps, len(header)))
    return n


def _reader_columns(fn):
    req, opt = [], []
    pm = parents_map(fn)
    for c in ast.walk(fn):
        if isinstance(c, ast.Call) and call_name(c) == "header.index" and c.args and isinstance(c.args[0], ast.Constant):
            p = pm.get(c)
            intry = False
            while p is not None and p is not fn:
                if isinstance(p, ast.Try):
                    intry = True
                p = pm.get(p)
            (opt if intry else req).append(c.args[0].value)
    return req, opt


def header_indexing(ctx, py, rule="PY-HEADER-INDEX"):
    ctx.rule(rule, "every tokens[...] subscript in a parse_* function is a variable defined by header.index(\"<column>\") (columns "
                   "in any order); optional columns default to None in an except ValueError and are tested before use")
    tm = py.mod("trees")
    n = 0
    for tbl, pname in TEXT_PARSERS.items():
        fn = py.func("trees", pname)
        idxvars = {}
        for a in ast.walk(fn):
            if isinstance(a, ast.Assign) and isinstance(a.value, ast.Call) and call_name(a.value) == "header.index":
                for t in a.targets:
                    if isinstance(t, ast.Name):
                        idxvars[t.id] = a.value.args[0].value if a.value.args and isinstance(a.value.args[0], ast.Constant) else None
        pm = parents_map(fn)
        for x in ast.walk(fn):
            if isinstance(x, ast.Subscript) and isinstance(x.value, ast.Name) and x.value.id == "tokens":
                ok = isinstance(x.slice, ast.Name) and x.slice.id in idxvars
                n += 1
                ctx.ob(rule, "%s|tokens[%s]" % (pname, ast.unparse(x.slice)), ok, tm.loc(x),
                       "index from header.index(%r)" % idxvars.get(getattr(x.slice, "id", None)) if ok else
                       "tokens[%s] is not header-driven" % ast.unparse(x.slice))
                if ok:
                    # the variable name should correspond to the column it reads into (left_index -> 'left')
                    col = idxvars[x.slice.id]
                    p = pm.get(x)
                    while p is not None and not isinstance(p, (ast.Assign, ast.Expr, ast.If)):
                        p = pm.get(p)
                    if isinstance(p, ast.Assign) and len(p.targets) == 1 and isinstance(p.targets[0], ast.Name):
                        tgt = p.targets[0].id
                        alias = {"children": "child", "is_sample": "is_sample", "flags": "flags"}
                        okn = tgt == col or alias.get(tgt) == col or tgt.rstrip("s") == col or col.startswith(tgt) or tgt.startswith(col) \
                            or (tgt, col) in HEADER_NAME_OK
                        ctx.ob(rule, "%s|%s<-%s" % (pname, tgt, col), okn, tm.loc(x),
                               "`%s` read from column %r" % (tgt, col) if okn else "variable `%s` is filled from column %r" % (tgt, col))
    return n


HEADER_NAME_OK = {("population", "population"), ("individual", "individual")}


def text_metadata_symmetry(ctx, py, rule="PY-TEXT-BASE64"):
    ctx.rule(rule, "metadata is Base64-encoded by text_metadata under base64_metadata and decoded under the same flag in every "
                   "parse_* function that reads a metadata column; load_text forwards encoding/base64_metadata to every parser and "
                   "carries every edge column into the table collection; the unknown-time sentinel is read back as UNKNOWN_TIME")
    m = py.mod("text_formats")
    tm = py.mod("trees")
    fn = py.func("text_formats", "text_metadata")
    src = ast.unparse(fn)
    ctx.ob(rule, "text_metadata|b64encode", "base64.b64encode(metadata)" in src and "base64_metadata" in src, m.loc(fn), "b64encode under base64_metadata")
    lt = py.func("trees", "load_text")
    for tbl, pname in TEXT_PARSERS.items():
        pf = py.func("trees", pname)
        req, opt = _reader_columns(pf)
        if "metadata" in req + opt:
            s = ast.unparse(pf)
            ok = "if base64_metadata:" in s and "base64.b64decode(metadata)" in s
            ctx.ob(rule, "%s|b64decode" % pname, ok, tm.loc(pf), "b64decode under base64_metadata")
            calls_ = [c for c in ast.walk(lt) if isinstance(c, ast.Call) and call_name(c) == pname]
            ctx.need(bool(calls_), "load_text calls %s" % pname)
            for c in calls_:
                kws = kwargs_of(c)
                ok = all(k in kws and isinstance(kws[k], ast.Name) and kws[k].id == k for k in ("strict", "encoding", "base64_metadata"))
                ctx.ob(rule, "load_text->%s" % pname, ok, tm.loc(c), "strict/encoding/base64_metadata forwarded under their own names")
    cols = table_columns(py)
    for c in ast.walk(lt):
        if isinstance(c, ast.Call) and call_name(c) == "tc.edges.set_columns":
            have = {k.arg for k in c.keywords}
            missing = [w for w in cols["EdgeTable"] if w not in have]
            ctx.ob(rule, "load_text|edges.set_columns", not missing, tm.loc(c),
                   "all edge columns carried over" if not missing else "load_text drops edge columns %s" % missing)
    s = ast.unparse(py.func("trees", "parse_mutations"))
    ctx.ob(rule, "parse_mutations|unknown", "UNKNOWN_TIME" in s and "tskit.TIME_UNITS_UNKNOWN" in s or "\"unknown\"" in s or "'unknown'" in s, tm.loc(py.func("trees", "parse_mutations")),
           "the unknown-time sentinel written by dump_text is mapped back to UNKNOWN_TIME")
    ok = any(isinstance(x, ast.Call) and call_name(x) == "tc.sort" for x in ast.walk(lt)) and \
        any(isinstance(r, ast.Return) and isinstance(r.value, ast.Call) and call_name(r.value) == "tc.tree_sequence" for r in ast.walk(lt))
    ctx.ob(rule, "load_text|sort+gate", ok, tm.loc(lt), "load_text sorts and returns tc.tree_sequence()")


def always_raises(ctx, py, mod, qual, rule="PY-ALWAYS-RAISES"):
    ctx.rule(rule, "helper functions whose callers rely on them never returning (re-raise helpers) have no path that falls off "
                   "the end or returns")
    m = py.mod(mod)
    fn = py.func(mod, qual)

    def terminates(stmts):
        """every path through stmts ends in raise"""
        if not stmts:
            return False
        last = stmts[-1]
        if isinstance(last, ast.Raise):
            return True
        if isinstance(last, ast.If):
            return bool(last.orelse) and terminates(last.body) and terminates(last.orelse)
        if isinstance(last, ast.With):
            return terminates(last.body)
        if isinstance(last, ast.Try):
            return (terminates(last.body) or terminates(last.finalbody)) and all(terminates(h.body) for h in last.handlers) \
                or terminates(last.finalbody)
        return False
    rets = [r for r in ast.walk(fn) if isinstance(r, ast.Return)]
    ok = not rets and terminates(fn.body)
    ctx.ob(rule, "%s.%s" % (mod, qual), ok, m.loc(rets[0] if rets else fn),
           "every path raises" if ok else "%s can return normally: callers' except-blocks then fall through and load() returns None" % qual)


# =============================================================================================
HALFOPEN = [
    # (module, function, attribute compared, bound role, value of the selection expression AT the boundary
    #  (attribute == bound) once the negations around the comparison are applied, meaning)
    ("tables", "TableCollection.keep_intervals", "position", "interval-start", True, "a site at position == s is kept"),
    ("tables", "TableCollection.keep_intervals", "position", "interval-end", False, "a site at position == e is not kept (intervals are half-open)"),
    ("tables", "TableCollection.keep_intervals", "right", "interval-start", False, "an edge/migration with right == s does not overlap [s, e)"),
    ("tables", "TableCollection.keep_intervals", "left", "interval-end", False, "an edge/migration with left == e does not overlap [s, e)"),
    ("tables", "TableCollection.ltrim", "position", "min-left", False, "a site exactly at the first edge's left end is not deleted"),
    ("tables", "TableCollection.rtrim", "position", "max-right", True, "a site exactly at the last edge's right end is deleted"),
]


def _bound_name(fn, role):
    """Resolve the local that plays `role` from its definition, not from its spelling."""
    for x in ast.walk(fn):
        if role in ("interval-start", "interval-end") and isinstance(x, ast.For) and isinstance(x.target, ast.Tuple) \
                and len(x.target.elts) == 2 and "intervals" in ast.unparse(x.iter):
            e = x.target.elts[0 if role == "interval-start" else 1]
            if isinstance(e, ast.Name):
                return e.id
        if isinstance(x, ast.Assign) and len(x.targets) == 1 and isinstance(x.targets[0], ast.Name):
            v = ast.unparse(x.value)
            if role == "min-left" and v == "np.min(self.edges.left)":
                return x.targets[0].id
            if role == "max-right" and v == "np.max(self.edges.right)":
                return x.targets[0].id
    return None


def _is_negation(node):
    if isinstance(node, ast.UnaryOp) and isinstance(node.op, (ast.Invert, ast.Not)):
        return True
    return isinstance(node, ast.Call) and (call_name(node) or "").split(".")[-1] == "logical_not"


def half_open(ctx, py, rule="PY-HALFOPEN"):
    ctx.rule(rule, "interval membership in the Python editors is half-open [s, e) everywhere: for each (coordinate attribute, "
                   "interval bound) pair, the truth value that the selection expression takes exactly at the boundary "
                   "(comparison operator, operand order and the logical_not / ~ / not around it all taken into account) is the one "
                   "the half-open convention dictates, so sites and edges are clipped consistently")
    n = 0
    AT_EQ = {"Lt": False, "Gt": False, "NotEq": False, "LtE": True, "GtE": True, "Eq": True}
    for mod, qual, attr, role, want, why in HALFOPEN:
        m = py.mod(mod)
        fn = py.func(mod, qual)
        bound = _bound_name(fn, role)
        key = "%s|%s~%s" % (qual, attr, role)
        if bound is None:
            ctx.ob(rule, key, False, m.loc(fn), "no local plays the role `%s` (%s)" % (role, why))
            continue
        # locals that alias the attribute: site_pos = self.sites.position
        alias = set()
        for x in ast.walk(fn):
            if isinstance(x, ast.Assign) and isinstance(x.value, ast.Attribute) and x.value.attr == attr:
                alias |= {t.id for t in x.targets if isinstance(t, ast.Name)}
        pm = parents_map(fn)

        def is_attr(e):
            return (isinstance(e, ast.Attribute) and e.attr == attr) or (isinstance(e, ast.Name) and e.id in alias)

        def is_bound(e):
            return isinstance(e, ast.Name) and e.id == bound
        found = []
        for c in ast.walk(fn):
            if not isinstance(c, ast.Compare):
                continue
            terms = [c.left] + list(c.comparators)
            for i, op in enumerate(c.ops):
                l, r = terms[i], terms[i + 1]
                if not ((is_attr(l) and is_bound(r)) or (is_attr(r) and is_bound(l))):
                    continue
                val = AT_EQ.get(type(op).__name__)
                if val is None:
                    continue
                # negations between the comparison and its statement
                negs, p, stmt = 0, pm.get(c), None
                while p is not None and not isinstance(p, ast.stmt):
                    negs += _is_negation(p)
                    p = pm.get(p)
                stmt = p
                # ... and around every later use of the name the statement assigns
                if isinstance(stmt, ast.Assign) and len(stmt.targets) == 1 and isinstance(stmt.targets[0], ast.Name):
                    nm = stmt.targets[0].id
                    uses = [u for u in ast.walk(fn) if isinstance(u, ast.Name) and u.id == nm and isinstance(u.ctx, ast.Load)]
                    if uses and all(_is_negation(pm.get(u)) for u in uses):
                        negs += 1
                found.append((val ^ (negs % 2 == 1), c))
        n += 1
        if not found:
            ctx.ob(rule, key, False, m.loc(fn), "no comparison of .%s with %s found (%s)" % (attr, bound, why))
            continue
        bad = [f for f in found if f[0] != want]
        ctx.ob(rule, key, not bad, m.loc((bad or found)[0][1]),
               "%s: `%s` is %s at the boundary" % (why, ast.unparse(found[0][1]), want) if not bad else
               "`%s` makes the selection %s at %s == %s, but %s" % (ast.unparse(bad[0][1]), bad[0][0], attr, bound, why))
    return n


# =============================================================================================
LL_RECEIVERS = {"_ll_tables": "TableCollection", "_ll_tree_sequence": "TreeSequence", "_ll_tree": "Tree", "ll_tables": "TableCollection",
                "_ll_variant": "Variant", "_ll_ld_calculator": "LdCalculator"}


def ll_positional(ctx, py, P, rule="PY-LL-POSITIONAL", only=None):
    ctx.rule(rule, "positional calls from the Python facade into _tskit pass, in slot i, the variable named like keyword i of the C "
                   "method's kwlist (e.g. ll_table.add_row(flags, time, population, individual, metadata)); a swapped or shifted "
                   "argument is a silently mis-assigned column/option")
    from sa import modinfo
    tu = P.tus["module"]
    meths, _ = modinfo.method_tables(tu)
    kw_of = {}
    for tname, rows in meths.items():
        cls = tname.replace("_methods", "")
        for pyname, cfn in rows:
            f = tu.funcs.get(cfn)
            if f is None:
                continue
            pcs = modinfo.parse_calls(tu, f)
            if pcs and pcs[0].kwlist:
                kw_of[(cls, pyname)] = pcs[0].kwlist
    n = 0
    for mn in ("tables", "trees", "genotypes", "stats"):
        m = py.mod(mn)
        for qn, fn in m.funcs.items():
            if only is not None and not only(mn, qn):
                continue
            pycls = qn.split(".")[0]
            for c in ast.walk(fn):
                if not (isinstance(c, ast.Call) and isinstance(c.func, ast.Attribute)):
                    continue
                recv = dotted(c.func.value)
                if recv is None:
                    continue
                last = recv.split(".")[-1]
                cls = None
                if last == "ll_table" and pycls.endswith("Table"):
                    cls = pycls
                elif last in LL_RECEIVERS:
                    cls = LL_RECEIVERS[last]
                if cls is None:
                    continue
                kws = kw_of.get((cls, c.func.attr))
                if not kws or not c.args:
                    continue
                bad = []
                checked = 0
                for i, a in enumerate(c.args):
                    if isinstance(a, ast.Starred) or i >= len(kws):
                        break
                    nm = a.id if isinstance(a, ast.Name) else None
                    if nm is None:
                        continue
                    if nm in kws:
                        checked += 1
                        if kws[i] != nm:
                            bad.append("slot %d receives `%s` but the C method expects `%s` there" % (i, nm, kws[i]))
                if checked:
                    n += 1
                    ctx.ob(rule, "%s->%s.%s" % (qn, cls, c.func.attr), not bad, m.loc(c), "; ".join(bad) or "%d named positional arguments in place" % checked)
    return n


def alias_polarity(ctx, py, rule="PY-ALIAS-POLARITY"):
    ctx.rule(rule, "every facade function that still accepts the deprecated impute_missing_data alias maps it to isolated_as_missing "
                   "with the same (negated) polarity, on every path where the alias was supplied (sibling agreement)")
    m = py.mod("trees")
    n = 0
    for qn, fn in m.funcs.items():
        names, kwonly, _ = params_of(fn)
        if "impute_missing_data" not in names + kwonly:
            continue
        assigns = [a for a in ast.walk(fn) if isinstance(a, ast.Assign) and any(isinstance(t, ast.Name) and t.id == "isolated_as_missing" for t in a.targets)
                   and "impute_missing_data" in ast.unparse(a.value)]
        ok = bool(assigns) and all(ast.unparse(a.value) == "not impute_missing_data" for a in assigns)
        why = "isolated_as_missing = not impute_missing_data"
        if ok:
            # the mapping must be control-dependent only on "impute_missing_data is not None" (and the precedence test on isolated_as_missing)
            pm = parents_map(fn)
            for a in assigns:
                p = pm.get(a)
                conds = []
                while p is not None and p is not fn:
                    if isinstance(p, ast.If):
                        conds.append(ast.unparse(p.test))
                    p = pm.get(p)
                okc = all(("impute_missing_data is not None" in c) or ("isolated_as_missing is None" in c) for c in conds)
                if not okc:
                    ok, why = False, "alias mapped only under %s" % conds
        else:
            why = "alias mapping is %s" % [ast.unparse(a.value) for a in assigns]
        n += 1
        ctx.ob(rule, qn, ok, m.loc(assigns[0] if assigns else fn), why)
    return n


# =============================================================================================
def optional_index_tests(ctx, py, rule="PY-OPTIONAL-INDEX"):
    ctx.rule(rule, "in the parse_* functions an optional column index (set from header.index inside try / defaulting to None) is "
                   "tested with `is not None`, never by truthiness: column 0 is a legal position (columns may come in any order)")
    tm = py.mod("trees")
    n = 0
    for tbl, pname in TEXT_PARSERS.items():
        fn = py.func("trees", pname)
        opt = set()
        for a in ast.walk(fn):
            if isinstance(a, ast.Assign) and isinstance(a.value, ast.Constant) and a.value.value is None:
                for t in a.targets:
                    if isinstance(t, ast.Name) and t.id.endswith("_index"):
                        opt.add(t.id)
        for x in ast.walk(fn):
            tests = []
            if isinstance(x, (ast.If, ast.IfExp, ast.While)):
                tests = [x.test]
            for t in tests:
                for sub in ast.walk(t):
                    # a bare Name in boolean context: operand of not/and/or or the test itself
                    cand = []
                    if sub is t and isinstance(sub, ast.Name):
                        cand.append(sub)
                    if isinstance(sub, ast.BoolOp):
                        cand += [v for v in sub.values if isinstance(v, ast.Name)]
                    if isinstance(sub, ast.UnaryOp) and isinstance(sub.op, ast.Not) and isinstance(sub.operand, ast.Name):
                        cand.append(sub.operand)
                    for c in cand:
                        if c.id in opt:
                            n += 1
                            ctx.ob(rule, "%s|%s" % (pname, c.id), False, tm.loc(x),
                                   "`%s` is tested by truthiness: a column at position 0 is treated as absent" % c.id)
        for v in sorted(opt):
            uses = [c for c in ast.walk(fn) if isinstance(c, ast.Compare) and isinstance(c.left, ast.Name) and c.left.id == v
                    and any(isinstance(o, (ast.IsNot, ast.Is)) for o in c.ops)]
            n += 1
            ctx.ob(rule, "%s|%s|is-not-None" % (pname, v), bool(uses), tm.loc(fn), "`%s is [not] None` guards the optional column" % v)
    return n


TABLE_PLURALS = {"individuals": "individual", "nodes": "node", "edges": "edge", "migrations": "migration", "sites": "site",
                 "mutations": "mutation", "populations": "population", "provenances": "provenance"}


def table_name_agreement(ctx, py, rule="PY-TABLE-NAMES"):
    ctx.rule(rule, "a TreeSequence accessor named <table>s_<column> touches only that table: every `table_metadata_schemas.<x>` is "
                   "the same table's schema and every low-level attribute it reads is the like-named <table>s_<column>")
    m = py.mod("trees")
    n = 0
    for qn, fn in m.funcs.items():
        if not qn.startswith("TreeSequence."):
            continue
        name = qn.split(".", 1)[1]
        mt = re.match(r"(%s)_(\w+)$" % "|".join(TABLE_PLURALS), name)
        if not mt:
            continue
        pl, col = mt.group(1), mt.group(2)
        bad = []
        for x in ast.walk(fn):
            if isinstance(x, ast.Attribute):
                d = dotted(x) or ""
                ms = re.search(r"table_metadata_schemas\.(\w+)$", d)
                if ms and ms.group(1) != TABLE_PLURALS[pl]:
                    bad.append("uses table_metadata_schemas.%s" % ms.group(1))
                mo = re.match(r"_?(%s)_(\w+)$" % "|".join(TABLE_PLURALS), x.attr)
                if mo and mo.group(1) != pl:
                    bad.append("reads %s" % x.attr)
        n += 1
        ctx.ob(rule, qn, not bad, m.loc(fn), "touches only %s" % pl if not bad else "%s %s" % (name, "; ".join(sorted(set(bad)))))
    return n


def py_dead_stores(ctx, py, mods, only=None, rule="PY-DEAD-STORE"):
    ctx.rule(rule, "no local name in this property's Python functions is only ever assigned (never read): a computed-and-ignored "
                   "value means a later expression uses the wrong name or a step was dropped")
    n = 0
    for mn in mods:
        m = py.mod(mn)
        for qn, fn in m.funcs.items():
            if only is not None and not only(mn, qn):
                continue
            stores, loads = {}, set()
            for x in ast.walk(fn):
                if isinstance(x, ast.Name):
                    if isinstance(x.ctx, ast.Store):
                        stores.setdefault(x.id, x)
                    else:
                        loads.add(x.id)
            if any(isinstance(c, ast.Call) and call_name(c) in ("locals", "vars") for c in ast.walk(fn)):
                continue
            # `for i in range(n): <body without i>` is repetition, whatever the counter is called
            counters, other = set(), set()
            for x in ast.walk(fn):
                if isinstance(x, (ast.For, ast.comprehension)):
                    tg = {t.id for t in ast.walk(x.target) if isinstance(t, ast.Name)}
                    if isinstance(x.iter, ast.Call) and call_name(x.iter) == "range":
                        counters |= tg
                    else:
                        other |= tg
            n_stores = {}
            for x in ast.walk(fn):
                if isinstance(x, ast.Name) and isinstance(x.ctx, ast.Store):
                    n_stores[x.id] = n_stores.get(x.id, 0) + 1
            dead = sorted(v for v in stores if v not in loads and not v.startswith("_")
                          and not (v in counters and v not in other and n_stores[v] == 1))
            n += 1
            ctx.ob(rule, "%s.%s" % (mn, qn), not dead, m.loc(stores[dead[0]]) if dead else m.loc(fn),
                   "every assigned name is read" if not dead else "name(s) %s assigned but never read" % dead)
    return n


def immutable_treeseq(ctx, py, rule="PY-TS-IMMUTABLE"):
    ctx.rule(rule, "TreeSequence, Tree and Variant never rebind or mutate the low-level tree sequence they wrap: `_ll_tree_sequence` is "
                   "assigned only in __init__ / __setstate__, and the mutating low-level methods (load, load_tables) are invoked only "
                   "on a freshly constructed _tskit.TreeSequence() local, never on self._ll_tree_sequence")
    m = py.mod("trees")
    n = 0
    for qn, fn in m.funcs.items():
        cls = qn.split(".")[0]
        if cls not in ("TreeSequence", "Tree"):
            continue
        for x in ast.walk(fn):
            if isinstance(x, (ast.Assign, ast.AugAssign)):
                tg = x.targets if isinstance(x, ast.Assign) else [x.target]
                for t in tg:
                    if isinstance(t, ast.Attribute) and t.attr == "_ll_tree_sequence":
                        n += 1
                        ok = qn.split(".")[-1] in ("__init__", "__setstate__")
                        ctx.ob(rule, "%s|assign" % qn, ok, m.loc(x), "_ll_tree_sequence assigned in %s" % qn)
            if isinstance(x, ast.Call) and isinstance(x.func, ast.Attribute) and x.func.attr in ("load", "load_tables"):
                recv = dotted(x.func.value) or ""
                if recv.endswith("_ll_tree_sequence"):
                    n += 1
                    ctx.ob(rule, "%s|%s" % (qn, x.func.attr), False, m.loc(x), "%s() called on the wrapped low-level tree sequence" % x.func.attr)
                elif recv in ("ts", "ll_ts"):
                    # must be a fresh local
                    fresh = any(isinstance(a, ast.Assign) and any(isinstance(t, ast.Name) and t.id == recv for t in a.targets)
                                and isinstance(a.value, ast.Call) and (call_name(a.value) or "").endswith("_tskit.TreeSequence") for a in ast.walk(fn))
                    n += 1
                    ctx.ob(rule, "%s|%s" % (qn, x.func.attr), fresh, m.loc(x), "%s() on a freshly constructed _tskit.TreeSequence()" % x.func.attr)
    ctx.ob(rule, "instances", n >= 3, m.rel, "%d assignment / loader sites analysed" % n)
    # lazily cached results: whatever a TreeSequence method stores on self after construction and hands out again must be frozen
    for qn, fn in m.funcs.items():
        if not qn.startswith("TreeSequence.") or qn.split(".")[-1] in ("__init__", "__setstate__"):
            continue
        for x in ast.walk(fn):
            if isinstance(x, ast.Assign):
                for t in x.targets:
                    if isinstance(t, ast.Attribute) and isinstance(t.value, ast.Name) and t.value.id == "self" and t.attr != "_ll_tree_sequence":
                        if isinstance(x.value, ast.Constant):
                            continue
                        v = x.value
                        # immutable by construction: int(...), float(...), len(...), bool(...), str(...), bytes(...), tuple(...), frozenset(...)
                        if isinstance(v, ast.Call) and isinstance(v.func, ast.Name) and v.func.id in (
                                "int", "float", "len", "bool", "str", "bytes", "tuple", "frozenset", "complex"):
                            continue
                        if isinstance(v, (ast.Compare, ast.BoolOp)):
                            continue
                        frozen = False
                        for y in ast.walk(fn):
                            if isinstance(y, ast.Assign) and isinstance(y.value, ast.Constant) and y.value.value is False:
                                for tt in y.targets:
                                    if ast.unparse(tt) == "self.%s.flags.writeable" % t.attr:
                                        frozen = True
                            if isinstance(y, ast.Call) and ast.unparse(y.func) == "self.%s.setflags" % t.attr \
                                    and any(k.arg == "write" and isinstance(k.value, ast.Constant) and k.value.value is False for k in y.keywords):
                                frozen = True
                        n += 1
                        ctx.ob(rule, "%s|cache|%s" % (qn, t.attr), frozen, m.loc(x),
                               "cached `self.%s` is made read-only before it is handed out" % t.attr if frozen else
                               "`self.%s = %s` caches a mutable object that every later call returns again: writing into it changes what "
                               "the tree sequence reports (set `.flags.writeable = False`, or do not cache)" % (t.attr, ast.unparse(x.value)[:50]))
    return n


FACADES = {
    # python module -> {python class: (low-level class in _tskitmodule.c, attribute holding it)}
    "trees": {"Tree": ("Tree", "_ll_tree"), "TreeSequence": ("TreeSequence", "_ll_tree_sequence")},
    "tables": {"TableCollection": ("TableCollection", "_ll_tables"), "BaseTable": ("NodeTable", "ll_table"),
               "MetadataTable": ("NodeTable", "ll_table"),
               **{t.capitalize() + "Table": (t.capitalize() + "Table", "ll_table") for t in
                  ("individual", "node", "edge", "migration", "site", "mutation", "population", "provenance")}},
    "genotypes": {"Variant": ("Variant", "_ll_variant")},
}


def _ll_uses(fn, attr):
    """names X in `<...>.attr.X` / `alias.X` within fn, where alias is a local bound to `<...>.attr` (or its public property)."""
    attrs = {attr, attr.lstrip("_")}
    aliases = set()
    for x in ast.walk(fn):
        if isinstance(x, ast.Assign) and isinstance(x.value, ast.Attribute) and x.value.attr in attrs:
            aliases |= {t.id for t in x.targets if isinstance(t, ast.Name)}
    out = {}
    for x in ast.walk(fn):
        if isinstance(x, ast.Attribute):
            base = x.value
            if (isinstance(base, ast.Attribute) and base.attr in attrs) or (isinstance(base, ast.Name) and base.id in aliases):
                out.setdefault(x.attr, x)
    return out


def _ll_reach(m, cls, attr, qn, depth=3, seen=None):
    """low-level attributes of `self.<attr>` that method `qn` of `cls` reaches: directly, through other methods / properties of
    the class (self.X), or through a cached attribute self._X assigned elsewhere in the class from a low-level value."""
    seen = set() if seen is None else seen
    if qn in seen or depth < 0:
        return set()
    seen.add(qn)
    out = set()
    fns = [f for k, f in m.funcs.items() if k == qn or k == qn + ".setter"]
    for fn in fns:
        out |= set(_ll_uses(fn, attr))
        for x in ast.walk(fn):
            if (isinstance(x, ast.Attribute) and isinstance(x.value, ast.Call) and isinstance(x.value.func, ast.Name)
                    and x.value.func.id == "super"):
                for k in m.funcs:
                    if k.endswith("." + x.attr) and not k.startswith(cls + "."):
                        out |= _ll_reach(m, k.split(".")[0], attr, k, depth - 1, seen)
            if isinstance(x, ast.Attribute) and isinstance(x.value, ast.Name) and x.value.id == "self":
                nm = x.attr
                if cls + "." + nm in m.funcs:
                    out |= _ll_reach(m, cls, attr, cls + "." + nm, depth - 1, seen)
                elif isinstance(x.ctx, ast.Load) and nm.startswith("_") and nm not in (attr,):
                    for k, g in m.funcs.items():
                        if not k.startswith(cls + "."):
                            continue
                        for a in ast.walk(g):
                            if isinstance(a, ast.Assign) and any(isinstance(t, ast.Attribute) and t.attr == nm and isinstance(t.value, ast.Name)
                                                                 and t.value.id == "self" for t in a.targets):
                                uses = _ll_uses(g, attr)
                                dumps = {ast.dump(v): k2 for k2, v in uses.items()}
                                # the stored value, closed over the local definitions it is built from
                                exprs, names, grew = [a.value], set(), True
                                while grew:
                                    grew = False
                                    for e in list(exprs):
                                        for y in ast.walk(e):
                                            if isinstance(y, ast.Name) and isinstance(y.ctx, ast.Load) and y.id not in names:
                                                names.add(y.id)
                                                for b in ast.walk(g):
                                                    if isinstance(b, (ast.Assign, ast.For, ast.comprehension)):
                                                        tg = b.targets if isinstance(b, ast.Assign) else [b.target]
                                                        if any(isinstance(z, ast.Name) and z.id == y.id for t in tg for z in ast.walk(t)):
                                                            exprs.append(b.value if isinstance(b, ast.Assign) else b.iter)
                                                            grew = True
                                for e in exprs:
                                    for y in ast.walk(e):
                                        if isinstance(y, ast.Attribute) and ast.dump(y) in dumps:
                                            out.add(y.attr)
    return out


def facade_names(ctx, py, P, classes=(("trees", "Tree"),), rule="PY-LL-NAME", floor=10, exempt=None):
    """A Python facade method named X (or whose name matches get_X / X_array) where the low-level class registers a method of
    that name must reach that low-level method."""
    from sa import modinfo
    ctx.rule(rule, "every method / property of the Python facade classes whose name is also registered (as X, get_X or X_array) in "
                   "the low-level class's method table answers from that low-level method: directly, through another method of "
                   "the class, or through an attribute cached from it.  A facade that computes the answer itself leaves the C "
                   "kernel the other rules analyse")
    tu = P.tus["module"]
    meths, gets = modinfo.method_tables(tu)
    exempt = exempt or {}
    n = 0
    for mn, cls in classes:
        llc, attr = FACADES[mn][cls]
        names = {s for s, _ in meths.get(llc + "_methods", [])} | {s for s, _, _ in gets.get(llc + "_getsetters", [])}
        ctx.need(bool(names), "method table of low-level class %s" % llc)
        m = py.mod(mn)
        for qn, fn in m.funcs.items():
            if not qn.startswith(cls + ".") or qn.endswith(".setter"):
                continue
            nm = qn.split(".")[1]
            if any(isinstance(d, ast.Name) and d.id in ("classmethod", "staticmethod") for d in fn.decorator_list):
                continue
            cands = {nm, "get_" + nm, nm + "_array", re.sub(r"^get_", "", nm)} & names
            if nm.startswith("get_"):
                cands |= {nm[4:]} & names
            if not cands:
                continue
            body = [b for b in fn.body if not (isinstance(b, ast.Expr) and isinstance(b.value, ast.Constant))]
            if len(body) == 1 and isinstance(body[0], ast.Raise):
                continue        # abstract in this class
            if qn in exempt:
                ctx.ob(rule, qn, True, m.loc(fn), "exempt: " + exempt[qn])
                continue
            got = _ll_reach(m, cls, attr, qn)
            n += 1
            ok = bool(cands & got)
            ctx.ob(rule, qn, ok, m.loc(fn), "reaches self.%s.%s" % (attr, sorted(cands & got)[0]) if ok else
                   "%s never reaches self.%s.%s (low-level attributes reached: %s)" % (qn, attr, "/".join(sorted(cands)), sorted(got)[:6] or "none"))
    ctx.floor(rule, floor)
    return n


def _names_load(n): return {x.id for x in ast.walk(n) if isinstance(x,ast.Name) and isinstance(x.ctx,ast.Load)}
def _names_store(n): return {x.id for x in ast.walk(n) if isinstance(x,ast.Name) and isinstance(x.ctx,ast.Store)}
def loop_carried(fn):
    """[(loop, name, statement)]: `name` is read in the loop body on a path on which this iteration has not assigned it, while some
    other path of the body assigns it under a loop-variant condition (conditions that cannot change between iterations are
    transparent): the value seen is the one left by an earlier iteration."""
    out=[]
    for lp in ast.walk(fn):
        if not isinstance(lp,(ast.For,ast.While)): continue
        variant=set(_names_store(lp.target)) if isinstance(lp,ast.For) else set()
        for s in lp.body: variant|=_names_store(s)
        # variables assigned under a loop-variant condition somewhere in the body
        maybe={}
        def collect(stmts, under_variant):
            for s in stmts:
                if isinstance(s,ast.If):
                    uv = under_variant or bool(_names_load(s.test)&variant)
                    collect(s.body,uv); collect(s.orelse,uv)
                elif isinstance(s,(ast.For,ast.While)):
                    collect(s.body,True); collect(s.orelse,under_variant)
                elif isinstance(s,ast.Try):
                    collect(s.body,True)
                    for h in s.handlers: collect(h.body,True)
                    collect(s.orelse,True); collect(s.finalbody,under_variant)
                elif isinstance(s,ast.With):
                    collect(s.body,under_variant)
                else:
                    if under_variant:
                        for v in _names_store(s): maybe.setdefault(v,s)
        collect(lp.body,False)
        if not maybe: continue
        hits=[]
        def visit(stmts, definite):
            for s in stmts:
                if isinstance(s,ast.If):
                    for v in _names_load(s.test):
                        if v in maybe and v not in definite: hits.append((v,s))
                    if _names_load(s.test)&variant:
                        d1=visit(s.body,set(definite)); d2=visit(s.orelse,set(definite))
                        definite|=(d1&d2)
                    else:
                        d1=visit(s.body,set(definite)); d2=visit(s.orelse,set(definite))
                        definite|=(d1|d2)   # invariant test: the same branch every iteration
                elif isinstance(s,(ast.For,ast.While,ast.With,ast.Try)):
                    for v in _names_load(s):
                        if v in maybe and v not in definite and v not in _names_store(s): hits.append((v,s))
                else:
                    for v in _names_load(s):
                        if v in maybe and v not in definite:
                            # augmented / self-referential updates are accumulators, not stale reads
                            if isinstance(s,ast.AugAssign) and isinstance(s.target,ast.Name) and s.target.id==v: continue
                            if isinstance(s,ast.Assign) and v in _names_store(s): continue
                            hits.append((v,s))
                    definite|=_names_store(s)
            return definite
        d0=set(_names_store(lp.target)) if isinstance(lp,ast.For) else set()
        visit(lp.body,d0)
        out+= [(lp,v,s) for v,s in hits]
    return out


def row_independent(ctx, py, rule="PY-ROW-INDEPENDENT", floor=8):
    ctx.rule(rule, "the text parsers treat every line independently: in each `for line in source` loop of the parse_* functions no "
                   "name that reaches table.add_row can carry a value over from an earlier line (every such name is assigned in "
                   "this iteration before the call, or is only ever assigned under conditions that cannot change between lines)")
    m = py.mod("trees")
    n = 0
    for qn, fn in m.funcs.items():
        if not qn.startswith("parse_"):
            continue
        carried = {}
        for lp, v, s in loop_carried(fn):
            carried.setdefault(v, s)
        for lp in ast.walk(fn):
            if not isinstance(lp, ast.For):
                continue
            for c in ast.walk(lp):
                if isinstance(c, ast.Call) and isinstance(c.func, ast.Attribute) and c.func.attr == "add_row":
                    used = sorted({x.id for a in list(c.args) + [k.value for k in c.keywords] for x in ast.walk(a) if isinstance(x, ast.Name)})
                    for v in used:
                        n += 1
                        bad = v in carried
                        ctx.ob(rule, "%s|%s" % (qn, v), not bad, m.loc(carried[v]) if bad else m.loc(c),
                               "`%s` is assigned afresh for every line (or never inside the loop)" % v if not bad else
                               "`%s` reaches add_row with the value an earlier line left in it when this line's condition is false" % v)
    ctx.floor(rule, floor)
    return n


def decode_every(ctx, py, rule="PY-DECODE-EVERY", floor=3):
    ctx.rule(rule, "the site loops of TreeSequence.variants and genotype_matrix decode every site they visit: `<variant>.decode(<loop "
                   "variable>)` is an unconditional statement of the loop body, and what the iteration yields / stores comes after "
                   "it (a skipped decode leaves the previous site's genotypes, or the zero-initialised row, in place)")
    m = py.mod("trees")
    n = 0
    for qn in ("TreeSequence.variants", "TreeSequence.genotype_matrix"):
        fn = py.func("trees", qn)
        k = 0
        for lp in ast.walk(fn):
            if not isinstance(lp, ast.For) or not isinstance(lp.target, ast.Name):
                continue
            dec = [c for c in ast.walk(lp) if isinstance(c, ast.Call) and isinstance(c.func, ast.Attribute) and c.func.attr == "decode"]
            if not dec:
                continue
            n += 1
            top = [s for s in lp.body if isinstance(s, ast.Expr) and s.value in dec]
            arg_ok = bool(top) and len(top[0].value.args) == 1 and isinstance(top[0].value.args[0], ast.Name) and top[0].value.args[0].id == lp.target.id
            first = bool(top) and all(lp.body.index(top[0]) <= lp.body.index(s) for s in lp.body
                                      if any(isinstance(y, (ast.Yield, ast.Subscript)) for y in ast.walk(s)))
            ok = bool(top) and arg_ok and first
            ctx.ob(rule, "%s@%d" % (qn, k), ok, m.loc(dec[0]),
                   "decode(%s) is the unconditional first step of the loop body" % lp.target.id if ok else
                   "decode() is %s" % ("conditional: some sites are never decoded" if not top else
                                       "not called with the loop variable" if not arg_ok else "preceded by the yield / store"))
            # domain: the loop walks a contiguous range of site ids written in its header (a filtered id list, or a name that an
            # option re-binds to a subset, skips sites); where the function allocates a result matrix the range is its row count
            it = lp.iter
            is_range = isinstance(it, ast.Call) and call_name(it) == "range"
            rows = None
            for a in ast.walk(fn):
                if isinstance(a, ast.Assign) and isinstance(a.value, ast.Call) and (call_name(a.value) or "").split(".")[-1] in ("zeros", "empty", "full"):
                    for kw in a.value.keywords:
                        if kw.arg == "shape" and isinstance(kw.value, ast.Tuple) and kw.value.elts:
                            rows = ast.unparse(kw.value.elts[0])
                    if rows is None and a.value.args and isinstance(a.value.args[0], ast.Tuple) and a.value.args[0].elts:
                        rows = ast.unparse(a.value.args[0].elts[0])
            dom_ok = is_range and (rows is None or (len(it.args) == 1 and ast.unparse(it.args[0]) == rows)
                                   or (len(it.args) == 2 and ast.unparse(it.args[0]) == "0" and ast.unparse(it.args[1]) == rows))
            ctx.ob(rule, "%s@%d|domain" % (qn, k), dom_ok, m.loc(lp),
                   "iterates `%s`%s" % (ast.unparse(it)[:40], "" if dom_ok else
                                        (": not a contiguous range in the loop header" if not is_range else ": does not cover the %s rows that are allocated" % rows)))
            k += 1
    ctx.floor(rule, floor)
    return n


_NARROW = re.compile(r"^(np|numpy)\.(int32|int16|int8|uint32|uint16|uint8|float32|float16)$|^'(<|=)?(i4|i2|i1|u4|u2|u1|f4|f2)'$")
_COORD = re.compile(r"position|\bleft\b|\bright\b|\btime\b|sequence_length|breakpoint|coordinate")


def py_width(ctx, py, mods, only=None, rule="PY-WIDTH"):
    ctx.rule(rule, "genome coordinates and times are never converted to a type narrower than 64 bits in this property's Python "
                   "functions: no `dtype=` / `.astype()` of int32 / float32 (or smaller) is applied to an expression naming "
                   "positions, left / right, times or the sequence length (tskit coordinates are float64; a VCF POS above 2**31 or "
                   "a time below float32 resolution would silently change)")
    n = 0
    for mn in mods:
        m = py.mod(mn)
        for qn, fn in m.funcs.items():
            if only is not None and not only(mn, qn):
                continue
            bad = None
            for c in ast.walk(fn):
                if not isinstance(c, ast.Call):
                    continue
                dt = None
                for k in c.keywords:
                    if k.arg == "dtype":
                        dt = ast.unparse(k.value)
                if isinstance(c.func, ast.Attribute) and c.func.attr == "astype" and c.args:
                    dt = ast.unparse(c.args[0])
                if dt and _NARROW.match(dt):
                    data = " ".join(ast.unparse(a) for a in c.args) + " " + (ast.unparse(c.func.value) if isinstance(c.func, ast.Attribute) else "")
                    if _COORD.search(data):
                        bad = (c, dt)
                        break
            n += 1
            ctx.ob(rule, "%s.%s" % (mn, qn), bad is None, m.loc(bad[0]) if bad else m.loc(fn),
                   "no narrowing of coordinates" if bad is None else "`%s` narrows a coordinate / time to %s" % (ast.unparse(bad[0])[:80], bad[1]))
    return n


def base_class_attrs(ctx, py, mod="tables", base="BaseTable", rule="PY-BASE-ATTR"):
    """Methods of a base class must not assume an attribute that only some subclasses define."""
    ctx.rule(rule, "a method that all eight table classes inherit from BaseTable reads `self.<attr>` for an attribute that only the "
                   "MetadataTable branch defines (metadata_schema, …) only under a guard (`try: … except AttributeError`, or inside "
                   "an `if` on the presence of the metadata column), unless every subclass outside that branch overrides the method: "
                   "ProvenanceTable has no metadata schema, and indexing / copying / comparing it must still work")
    m = py.mod(mod)

    def members(cn):
        out = set()
        c = m.classes[cn]
        for s in c.body:
            if isinstance(s, (ast.FunctionDef, ast.AsyncFunctionDef)):
                out.add(s.name)
            elif isinstance(s, ast.Assign):
                out |= {t.id for t in s.targets if isinstance(t, ast.Name)}
            elif isinstance(s, ast.AnnAssign) and isinstance(s.target, ast.Name):
                out.add(s.target.id)
        for qn, fn in m.funcs.items():
            if qn.startswith(cn + "."):
                for x in ast.walk(fn):
                    if isinstance(x, ast.Attribute) and isinstance(x.ctx, ast.Store) and isinstance(x.value, ast.Name) and x.value.id == "self":
                        out.add(x.attr)
        return out
    bases = {cn: [ast.unparse(b) for b in c.bases] for cn, c in m.classes.items()}

    def ancestors(cn):
        out = []
        for b in bases.get(cn, []):
            if b in m.classes:
                out += [b] + ancestors(b)
        return out
    subs = [cn for cn in m.classes if base in ancestors(cn)]
    base_mem = members(base)
    n = 0
    for qn, fn in m.funcs.items():
        if not qn.startswith(base + ".") or qn.endswith(".setter"):
            continue
        meth = qn.split(".")[1]
        pm = parents_map(fn)
        for x in ast.walk(fn):
            if not (isinstance(x, ast.Attribute) and isinstance(x.value, ast.Name) and x.value.id == "self" and isinstance(x.ctx, ast.Load)):
                continue
            a = x.attr
            if a in base_mem:
                continue
            have = [s for s in subs if a in members(s) or any(a in members(anc) for anc in ancestors(s) if anc != base)]
            lack = [s for s in subs if s not in have and m.classes[s].body and not any(s in ancestors(t) for t in subs)]   # concrete leaves
            lack = [s for s in lack if meth not in members(s)]      # the method is overridden there
            if not have or not lack:
                continue
            guard = None
            p, child = pm.get(x), x
            while p is not None and p is not fn:
                if isinstance(p, ast.Try) and child in p.body and any(h.type is None or "AttributeError" in ast.unparse(h.type) for h in p.handlers):
                    guard = "try/except AttributeError"
                if isinstance(p, ast.If) and child in p.body and re.search(r"metadata|hasattr", ast.unparse(p.test)):
                    guard = "if " + ast.unparse(p.test)[:40]
                child, p = p, pm.get(p)
            n += 1
            ctx.ob(rule, "%s|%s" % (qn, a), guard is not None, m.loc(x),
                   "self.%s read under %s" % (a, guard) if guard else
                   "self.%s is read unguarded in a method inherited by %s, which do(es) not define it: AttributeError" % (a, ", ".join(lack)))
    return n
