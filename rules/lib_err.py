"""A3 rules: error discipline in libtskit, kastore and the module."""
from __future__ import annotations

from sa.cfront import LIB_TUS
from sa.cfg import CFG
from sa.errprop import ErrProp, LIBC_CHECKED
from sa.expr import walk, callee, strip, estr, calls

# (function, callee) -> reason.  Confirmed by reading; each is a single call site family.
EXCEPTIONS = {
    ("tsk_individual_table_init", "tsk_individual_table_set_metadata_schema"): "set_metadata_schema(self, NULL, 0) cannot fail (zero-length copy)",
    ("tsk_node_table_init", "tsk_node_table_set_metadata_schema"): "set_metadata_schema(self, NULL, 0) cannot fail",
    ("tsk_edge_table_init", "tsk_edge_table_set_metadata_schema"): "set_metadata_schema(self, NULL, 0) cannot fail",
    ("tsk_site_table_init", "tsk_site_table_set_metadata_schema"): "set_metadata_schema(self, NULL, 0) cannot fail",
    ("tsk_mutation_table_init", "tsk_mutation_table_set_metadata_schema"): "set_metadata_schema(self, NULL, 0) cannot fail",
    ("tsk_migration_table_init", "tsk_migration_table_set_metadata_schema"): "set_metadata_schema(self, NULL, 0) cannot fail",
    ("tsk_population_table_init", "tsk_population_table_set_metadata_schema"): "set_metadata_schema(self, NULL, 0) cannot fail",
    ("tsk_edge_table_squash", "tsk_edge_table_clear"): "clear == truncate(0): the only failure is num_rows > self->num_rows",
    ("tsk_table_sorter_sort_sites", "tsk_site_table_clear"): "clear == truncate(0) cannot fail",
    ("tsk_treeseq_split_edges", "tsk_edge_table_clear"): "clear == truncate(0) cannot fail",
    ("tsk_table_collection_loadf_inited", "kastore_close"): "cleanup after the load result is already decided",
    ("tsk_table_collection_load", "fclose"): "cleanup of a read-only stream",
    ("tsk_table_collection_dump", "fclose"): "cleanup on the error path (the success path tests fclose)",
    ("tsk_table_collection_dumpf", "kastore_close"): "cleanup on the error path (the success path tests kastore_close)",
    ("get_mutation_samples", "tsk_treeseq_get_site"): "site ids were validated by check_sites before this helper runs",
    ("get_mutation_samples", "get_allele_samples"): "always returns 0",
    ("kastore_open", "fclose"): "cleanup on the error path",
    ("kastore_open", "kastore_close"): "cleanup on the error path",
    ("kastore_close", "fclose"): "result folded into ret on the line that follows? no: close of a possibly-read-only stream; write errors are caught by the preceding fflush/fwrite checks",
    ("IdentitySegments_print_state", "fclose"): "debug helper",
    ("TableCollection_dump", "fclose"): "close of a dup()ed descriptor after the dump result is decided",
    ("TableCollection_load", "fclose"): "close of a dup()ed read-only descriptor",
    ("TreeSequence_dump", "fclose"): "close of a dup()ed descriptor after the dump result is decided",
    ("TreeSequence_load", "fclose"): "close of a dup()ed read-only descriptor",
}


def discipline(ctx, P, tus, rule="ERR-CHECK", funcs=None, errprop=None):
    ctx.rule(rule, "every call to a function that can return a library error (computed from the call graph; plus "
                   "fread/fwrite/fseek/ftell/fclose/fflush) has its result tested on every path before it is overwritten or "
                   "the function returns, or is returned; frozen single-call-site exceptions carry a reason")
    E = errprop or ErrProp(P, LIB_TUS + ["kastore"])
    n = 0
    for key in tus:
        tu = P.tus[key]
        for fn in tu.funcs.values():
            if funcs is not None and fn.name not in funcs:
                continue
            ss = E.sites(fn, extra_callees=LIBC_CHECKED)
            if not ss:
                continue
            cfg = None
            ordinal = {}
            for call, c, var, kind in ss:
                k = ordinal.get(c, 0)
                ordinal[c] = k + 1
                key2 = "%s->%s@%d" % (fn.name, c, k)
                where = tu.loc(call)
                if kind in ("returned", "condition"):
                    ok, why = True, kind
                elif kind == "assigned":
                    cfg = cfg or CFG(fn)
                    ok, why = E.checked_after(fn, cfg, call, var)
                else:
                    ok, why = False, "result of %s is %s" % (c, kind)
                if not ok and (fn.name, c) in EXCEPTIONS:
                    ok, why = True, "exception: " + EXCEPTIONS[(fn.name, c)]
                n += 1
                ctx.ob(rule, key2, ok, where, why)
    return E


def module_handlers(ctx, P, E, rule="ERR-PYEXC"):
    """Module: a failed tsk_* call sets a Python exception (handle_library_error) before the function returns NULL/-1."""
    ctx.rule(rule, "in the module, the error branch of every checked tsk_* call reaches handle_library_error (or sets another "
                   "Python exception) before leaving the function, so a library error becomes a Python exception")
    tu = P.tus["module"]
    HANDLERS = {"handle_library_error", "handle_tskit_error", "PyErr_SetString", "PyErr_Format", "PyErr_NoMemory",
                "PyErr_SetObject", "PyErr_SetFromErrno"}
    for fn in tu.funcs.values():
        ss = [s for s in E.sites(fn) if s[3] == "assigned" and s[2] in ("err", "ret")]
        if not ss:
            continue
        cfg = CFG(fn)
        ordinal = {}
        for call, c, var, kind in ss:
            k = ordinal.get(c, 0)
            ordinal[c] = k + 1
            # find the first cond node testing var after the call
            node = _node_of(cfg, call)
            if node is None:
                continue
            conds = _first_conds(cfg, node, var)
            if not conds:
                continue
            ok = True
            why = "error branch raises"
            for cn in conds:
                # error edge: True of (var != 0 / var < 0), False of (var == 0)
                for s, lab in cn.succ:
                    if not _is_error_edge(cn, lab, var):
                        continue
                    if not _reaches_handler_before_exit(cfg, s, HANDLERS):
                        ok = False
                        why = "error branch of `%s` test leaves the function without setting a Python exception" % var
            if not ok and (fn.name, c) in EXCEPTIONS:
                ok, why = True, "exception: " + EXCEPTIONS[(fn.name, c)]
            ctx.ob(rule, "%s->%s@%d" % (fn.name, c, k), ok, tu.loc(call), why)


def _node_of(cfg, ast):
    for n in cfg.nodes:
        if n.ast is None or n.kind == "join":
            continue
        for x in walk(n.ast):
            if x is ast:
                return n
    return None


def _first_conds(cfg, node, var):
    out = []
    seen = set()
    st = [s for s, _ in node.succ]
    while st:
        n = st.pop()
        if n in seen:
            continue
        seen.add(n)
        if n.kind == "cond" and n.ast is not None and any(x.k == "DeclRefExpr" and x.ref == var for x in walk(n.ast)):
            a = strip(n.ast, casts=False)
            if a is not None and a.k == "BinaryOperator" and a.op == "==" and "TSK_PYTHON_CALLBACK_ERROR" in estr(a.kids[1]):
                # the Python callback already set the exception: only the other branch needs the handler
                for s, lab in n.succ:
                    if lab is False:
                        st.append(s)
                continue
            out.append(n)
            continue
        for s, _ in n.succ:
            st.append(s)
    return out


def _is_error_edge(cn, lab, var):
    a = strip(cn.ast, casts=False)
    if a is None or a.k != "BinaryOperator":
        return False
    if a.op in ("!=", "<") and lab is True:
        return True
    if a.op in ("==", ">=") and lab is False:
        return True
    return False


def _reaches_handler_before_exit(cfg, start, handlers):
    """Every path from start to exit passes a statement calling one of `handlers`."""
    def is_handler(n):
        if n.ast is None or n.kind == "join":
            return False
        for x in walk(n.ast):
            if x.k == "CallExpr" and callee(x) in handlers:
                return True
        return False
    avoid = {n for n in cfg.nodes if is_handler(n)}
    if start in avoid:
        return True
    return not cfg.path_exists(start, cfg.exit, avoid=avoid)
