"""C12 rules: struct codec encode/decode sibling agreement, dtype table, validation gates."""
from __future__ import annotations

import ast
import json
import os
import re
import struct

from sa.pyfront import call_name, dotted

SIMPLE_TYPES = {"array", "object", "string", "null", "number", "integer", "boolean"}


def _method(py, cls, name):
    fn = py.func("metadata", "%s.%s" % (cls, name))
    return fn


def _dispatch(fn):
    """The {type: StructCodec.make_x} dict literal of make_encode / make_decode."""
    for d in ast.walk(fn):
        if isinstance(d, ast.Dict) and d.keys and all(isinstance(k, ast.Constant) for k in d.keys):
            return {k.value: ast.unparse(v) for k, v in zip(d.keys, d.values)}
    return None


def _gets(fn):
    """[(key, default text)] of sub_schema.get(key, default) and sub_schema[key] reads."""
    out = []
    for c in ast.walk(fn):
        if isinstance(c, ast.Call) and call_name(c) == "sub_schema.get" and c.args and isinstance(c.args[0], ast.Constant):
            out.append((c.args[0].value, ast.unparse(c.args[1]) if len(c.args) > 1 else None))
    return sorted(set(out), key=str)


def _formats(fn):
    """Format-string expressions: every BinOp `"<" + expr`, plus bare uses of sub_schema["binaryFormat"] in struct calls."""
    out = []
    for b in ast.walk(fn):
        if isinstance(b, ast.BinOp) and isinstance(b.op, ast.Add) and isinstance(b.left, ast.Constant) and isinstance(b.left.value, str):
            out.append(ast.unparse(b))
    return sorted(out)


def _branch_order(fn):
    """Tests of the top-level if/elif chain that selects the coder variant."""
    tests = []
    for st in fn.body:
        if isinstance(st, ast.If):
            cur = st
            while True:
                tests.append(ast.unparse(cur.test))
                if len(cur.orelse) == 1 and isinstance(cur.orelse[0], ast.If):
                    cur = cur.orelse[0]
                else:
                    break
    return tests


def codec_pairs(ctx, py, rule="CODEC-PAIRS"):
    ctx.rule(rule, "the struct codec's encode and decode factories are siblings: the two dispatch tables have the same keys (the "
                   "JSON-schema simple types), key t maps to make_<x>_encode / make_<x>_decode with the same <x>; for each pair the "
                   "format-string expressions are identical (\"<\" + binaryFormat, \"<\" + arrayLengthFormat), every schema default read "
                   "with .get(k, d) has one value on both sides, and the variant selection (fixed length -> exhaust buffer -> "
                   "length-prefixed) tests the same conditions in the same order")
    m = py.mod("metadata")
    enc = _method(py, "StructCodec", "make_encode")
    dec = _method(py, "StructCodec", "make_decode")
    de, dd = _dispatch(enc), _dispatch(dec)
    ctx.need(de is not None and dd is not None, "dispatch tables in make_encode / make_decode")
    ctx.ob(rule, "dispatch|keys", set(de) == set(dd) == SIMPLE_TYPES, m.loc(enc), "encode keys %s / decode keys %s" % (sorted(de), sorted(dd)))
    for k in sorted(set(de) | set(dd)):
        e, d = de.get(k, ""), dd.get(k, "")
        me = re.fullmatch(r"StructCodec\.make_(\w+)_encode", e)
        md = re.fullmatch(r"StructCodec\.make_(\w+)_decode", d)
        ok = bool(me and md and me.group(1) == md.group(1))
        want = {"array": "array", "object": "object", "string": "string", "null": "null", "number": "numeric", "integer": "numeric", "boolean": "numeric"}
        ok = ok and me.group(1) == want.get(k)
        ctx.ob(rule, "dispatch|%s" % k, ok, m.loc(enc), "%s -> %s / %s" % (k, e, d))
    for fn_ in (enc, dec):
        src = ast.unparse(fn_)
        ctx.ob(rule, "dispatch|object-or-null|%s" % fn_.name, "{'object', 'null'}" in src and "make_object_or_null_" in src, m.loc(fn_),
               "nullable objects dispatched to make_object_or_null_*")
    for t in ("array", "string", "null", "numeric", "object", "object_or_null"):
        fe = _method(py, "StructCodec", "make_%s_encode" % t)
        fd = _method(py, "StructCodec", "make_%s_decode" % t)
        ge, gd = dict((k, v) for k, v in _gets(fe)), dict((k, v) for k, v in _gets(fd))
        shared = set(ge) & set(gd)
        bad = [(k, ge[k], gd[k]) for k in shared if ge[k] != gd[k]
               # null padding: encoder packs "0x" (zero bytes) when no format is given, decoder reads nothing: equivalent
               and not (t == "null" and k == "binaryFormat" and {ge[k], gd[k]} == {"'0x'", None})]
        ctx.ob(rule, "%s|defaults" % t, not bad, m.loc(fd), "schema defaults agree on %s" % sorted(shared) if not bad else
               "default of %r differs: encoder %s, decoder %s" % bad[0])
        if t in ("array", "string", "numeric"):
            fe_f, fd_f = set(_formats(fe)), set(_formats(fd))
            ok = fe_f == fd_f and bool(fe_f)
            ctx.ob(rule, "%s|formats" % t, ok, m.loc(fd), "format expressions %s" % sorted(fe_f) if ok else
                   "encoder uses %s, decoder uses %s" % (sorted(fe_f), sorted(fd_f)))
        if t == "array":
            be, bd = _branch_order(fe), _branch_order(fd)
            ctx.ob(rule, "array|variant-order", be == bd and len(be) >= 2, m.loc(fd), "variant selection %s / %s" % (be, bd))
            ke = set(ge)
            ctx.ob(rule, "array|keys", set(ge) == set(gd), m.loc(fd), "schema keys read: %s / %s" % (sorted(ge), sorted(gd)))
    # the documented defaults
    DOC = {"arrayLengthFormat": "'L'", "stringEncoding": "'utf-8'", "nullTerminated": "False", "noLengthEncodingExhaustBuffer": "False"}
    for t in ("array", "string"):
        for side in ("encode", "decode"):
            f = _method(py, "StructCodec", "make_%s_%s" % (t, side))
            for k, v in _gets(f):
                if k in DOC:
                    ctx.ob(rule, "%s_%s|doc-default|%s" % (t, side, k), v == DOC[k], m.loc(f), "%s defaults to %s (documented %s)" % (k, v, DOC[k]))


def dtype_table(ctx, py, rule="CODEC-DTYPE"):
    ctx.rule(rule, "FORMAT_TO_DTYPE in StructCodec.numpy_dtype maps every single-character struct format to a numpy dtype of the "
                   "same size and kind as the little-endian struct character (sizes computed with the struct module on the "
                   "constant table, no tskit code is run)")
    m = py.mod("metadata")
    fn = _method(py, "StructCodec", "numpy_dtype")
    table = None
    for a in ast.walk(fn):
        if isinstance(a, ast.Assign) and any(isinstance(t, ast.Name) and t.id == "FORMAT_TO_DTYPE" for t in a.targets) and isinstance(a.value, ast.Dict):
            table = {k.value: v.value for k, v in zip(a.value.keys, a.value.values) if isinstance(k, ast.Constant) and isinstance(v, ast.Constant)}
    ctx.need(table is not None, "FORMAT_TO_DTYPE table")
    for ch, dt in sorted(table.items()):
        try:
            size = struct.calcsize("<" + ch)
        except struct.error:
            ctx.ob(rule, ch, False, m.loc(fn), "%r is not a struct format" % ch)
            continue
        mm = re.fullmatch(r"([?iufS])(\d*)", dt)
        dsize = int(mm.group(2)) if mm and mm.group(2) else 1
        kind = mm.group(1) if mm else "?"
        want_kind = {"?": "?", "b": "i", "h": "i", "i": "i", "l": "i", "q": "i", "B": "u", "H": "u", "I": "u", "L": "u", "Q": "u",
                     "f": "f", "d": "f", "e": "f", "c": "S"}.get(ch)
        ok = bool(mm) and dsize == size and kind == want_kind
        ctx.ob(rule, ch, ok, m.loc(fn), "'<%s' is %d bytes, kind %s; dtype %s" % (ch, size, want_kind, dt))
    need = set("?bBhHiIlLqQfdc")
    ctx.ob(rule, "coverage", need <= set(table), m.loc(fn), "all scalar struct formats covered (missing %s)" % sorted(need - set(table)))


def schema_gates(ctx, py, rule="CODEC-GATES"):
    ctx.rule(rule, "schemas that violate the meta-schema are rejected at construction: MetadataSchema.__init__ and both codecs call "
                   "check_schema before building coders and convert SchemaError; unknown codecs raise; the schema string is the "
                   "canonical JSON of the codec-modified schema and parse_metadata_schema feeds it back through the same constructor; "
                   "validate_and_encode_row validates before encoding")
    m = py.mod("metadata")
    for qual, validator in (("MetadataSchema.__init__", "TSKITMetadataSchemaValidator.check_schema"),
                            ("StructCodec.__init__", "StructCodecSchemaValidator.check_schema"),
                            ("JSONCodec.__init__", "check_schema")):
        fn = py.func("metadata", qual)
        cs = [c for c in ast.walk(fn) if isinstance(c, ast.Call) and (call_name(c) or "").endswith(validator)]
        ok = bool(cs)
        first_build = None
        for a in ast.walk(fn):
            if isinstance(a, ast.Assign) and any(isinstance(t, ast.Attribute) and t.attr in ("encode", "decode", "codec_instance", "encode_row") for t in a.targets):
                if first_build is None or a.lineno < first_build.lineno:
                    first_build = a
        if ok and first_build is not None and qual != "MetadataSchema.__init__":
            ok = cs[0].lineno < first_build.lineno
        ctx.ob(rule, qual + "|check_schema", ok, m.loc(cs[0] if cs else fn), "%s precedes coder construction" % validator)
        src = ast.unparse(fn)
        ctx.ob(rule, qual + "|error", "MetadataSchemaValidationError" in src, m.loc(fn), "SchemaError converted to MetadataSchemaValidationError")
    init = py.func("metadata", "MetadataSchema.__init__")
    src = ast.unparse(init)
    ctx.ob(rule, "MetadataSchema|unknown-codec", "codec_registry[schema['codec']]" in src and "except KeyError" in src, m.loc(init), "unknown codec raises")
    ctx.ob(rule, "MetadataSchema|string", "self._string = tskit.canonical_json(self._schema)" in src and "self._schema = codec_cls.modify_schema(schema)" in src,
           m.loc(init), "string form = canonical JSON of the codec-modified schema")
    ctx.ob(rule, "MetadataSchema|validator", "self._validate_row = TSKITMetadataSchemaValidator(self._schema).validate" in src, m.loc(init),
           "row validator built from the same (modified) schema")
    rep = py.func("metadata", "MetadataSchema.__repr__")
    ctx.ob(rule, "MetadataSchema|repr", ast.unparse(rep.body[-1]) == "return self._string", m.loc(rep), "__repr__ returns the canonical string")
    pf = py.func("metadata", "parse_metadata_schema")
    s2 = ast.unparse(pf)
    ctx.ob(rule, "parse_metadata_schema", "return MetadataSchema(decoded)" in s2 and "json.loads(encoded_schema" in s2 and "OrderedDict" in s2, m.loc(pf),
           "string parsed with key order preserved and passed to the same constructor")
    ve = py.func("metadata", "MetadataSchema.validate_and_encode_row")
    body = [s for s in ve.body if not (isinstance(s, ast.Expr) and isinstance(s.value, ast.Constant))]
    txt = ast.unparse(ve)
    iv = txt.find("self._validate_row(row)")
    ie = txt.find("self.encode_row(row)")
    ok = iv >= 0 and ie > iv
    ctx.ob(rule, "validate_and_encode_row|order", ok, m.loc(ve), "validates (unless trivially valid) before encoding")
    conds = [ast.unparse(i.test) for i in ast.walk(ve) if isinstance(i, ast.If)]
    ctx.ob(rule, "validate_and_encode_row|bypass", all("_bypass_validation" in c for c in conds) and len(conds) <= 1, m.loc(ve),
           "validation skipped only under _bypass_validation; conditions %s" % conds)
    ob = py.func("metadata", "StructCodec.order_by_index")
    so = ast.unparse(ob)
    ctx.ob(rule, "order_by_index", "sorted(" in so and "index" in so, m.loc(ob), "property order is a function of the index/name, not of dict insertion order")
    # canonical order = (index, name) with the RAW name as tie-break: the same order json.dumps(sort_keys=True) gives the schema
    # string, so that parse(repr(schema)) lays the struct out identically
    keys = []
    for c in ast.walk(ob):
        if isinstance(c, ast.Call) and isinstance(c.func, ast.Name) and c.func.id == "sorted":
            for kw in c.keywords:
                if kw.arg == "key" and isinstance(kw.value, ast.Lambda):
                    keys.append((ast.unparse(kw.value.body), kw.value.args.args[0].arg if kw.value.args.args else "", c))
    name_keys = [k for k in keys if "index" not in k[0]]
    okn = len(name_keys) == 1 and name_keys[0][0] == "%s[0]" % name_keys[0][1]
    ctx.ob(rule, "order_by_index|name-key", okn, m.loc(name_keys[0][2]) if name_keys else m.loc(ob),
           "ties between properties are broken by the raw property name" if okn else
           "the name tie-break sorts by `%s`, not by the raw name: two schemas that differ in dict order or after a repr round trip "
           "lay the struct out differently" % (name_keys[0][0] if name_keys else "?"))
    # null-terminated strings: the field is decoded first, then cut at the first NUL CHARACTER (a zero BYTE can be half of a
    # utf-16 / utf-32 code unit)
    sd = py.func("metadata", "StructCodec.make_string_decode")
    bnul = [c for c in ast.walk(sd) if isinstance(c, ast.Constant) and isinstance(c.value, bytes) and b"\x00" in c.value]
    dec = [c for c in ast.walk(sd) if isinstance(c, ast.Call) and isinstance(c.func, ast.Attribute) and c.func.attr == "decode"]
    okd = not bnul and bool(dec) and all(isinstance(c.func.value, ast.Subscript) and "struct.unpack" in ast.unparse(c.func.value) for c in dec)
    ctx.ob(rule, "string_decode|decode-then-cut", okd, m.loc(bnul[0] if bnul else sd),
           "the unpacked field is decoded as a whole and cut at the NUL character afterwards" if okd else
           "the raw bytes are cut at a zero byte before decoding: multi-byte encodings are truncated")
    # ... and cut at the FIRST NUL: whatever follows the terminator (stale bytes of a C buffer) is not part of the string
    src = ast.unparse(sd)
    first = re.search(r"\.(find|index|split|partition)\(", src) is not None
    strip_ = re.search(r"\.(rstrip|strip|replace)\(\s*'\\x00'", src) is not None
    ctx.ob(rule, "string_decode|first-nul", first and not strip_, m.loc(sd),
           "a null-terminated string ends at the first NUL (find / index / split)" if (first and not strip_) else
           "the decoder strips or replaces NULs instead of cutting at the FIRST one: bytes after the terminator leak into the value")


def codec_defaults(ctx, py, rule="CODEC-DEFAULTS"):
    ctx.rule(rule, "schema defaults are honoured by construction: StructCodec.modify_schema forbids additional properties on every "
                   "object schema regardless of whether `required` was given explicitly, derives `required` from the properties "
                   "without a default only when absent; JSONCodec collects every property that *has* a default (membership test, so "
                   "a null default counts) and fills them in on decode")
    m = py.mod("metadata")
    fn = py.func("metadata", "StructCodec.modify_schema")
    pm = {}
    for p in ast.walk(fn):
        for c in ast.iter_child_nodes(p):
            pm[c] = p
    hits = []
    for a in ast.walk(fn):
        if isinstance(a, ast.Assign) and any(isinstance(t, ast.Subscript) and isinstance(t.slice, ast.Constant) and t.slice.value == "additionalProperties"
                                             for t in a.targets):
            hits.append(a)
    ok = len(hits) == 1 and isinstance(hits[0].value, ast.Constant) and hits[0].value.value is False
    conds = []
    if hits:
        p = pm.get(hits[0])
        while p is not None and p is not fn:
            if isinstance(p, ast.If):
                conds.append(ast.unparse(p.test))
            p = pm.get(p)
    okc = all("required" not in c for c in conds)
    ctx.ob(rule, "modify_schema|additionalProperties", ok and okc, m.loc(hits[0] if hits else fn),
           "ret['additionalProperties'] = False for every object schema (conditions: %s)" % conds if ok and okc else
           "additionalProperties = False is set only under %s: schemas with an explicit `required` list accept extra keys" % conds)
    req = [a for a in ast.walk(fn) if isinstance(a, ast.Assign) and any(isinstance(t, ast.Subscript) and isinstance(t.slice, ast.Constant)
                                                                      and t.slice.value == "required" for t in a.targets)]
    okr = len(req) == 1 and "'default' not in sub_schema" in ast.unparse(req[0].value)
    ctx.ob(rule, "modify_schema|required", okr, m.loc(req[0] if req else fn), "required = properties without a default")
    ji = py.func("metadata", "JSONCodec.__init__")
    comp = [c for c in ast.walk(ji) if isinstance(c, ast.DictComp)]
    okd = False
    why = "no defaults comprehension"
    if comp:
        ifs = [ast.unparse(i) for g in comp[0].generators for i in g.ifs]
        okd = ifs == ["'default' in prop"]
        why = "defaults collected under %s" % ifs
    ctx.ob(rule, "JSONCodec|defaults-filter", okd, m.loc(comp[0] if comp else ji), why if okd else why + ": a property whose default is null/falsy is not filled in on decode")
    jd = ast.unparse(py.func("metadata", "JSONCodec.decode"))
    ctx.ob(rule, "JSONCodec|fill", "dict(self.defaults, **result)" in jd, m.loc(py.func("metadata", "JSONCodec.decode")), "decode fills defaults under the decoded object")
