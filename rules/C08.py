"""C08 - Statistics equal their definitions and are additive over windows (schedule clause and plumbing only)."""
from __future__ import annotations

from . import scopes, lib_mem, lib_kind, lib_kind4
import json

from . import lib_stats, lib_module, lib_py, lib_guards, lib_sweep

LEVEL = "other"
EXPLANATION = ("Thread independence of the GIL-released regions and the Python worker fan-out, mode / span_normalise / polarised / "
               "centre plumbing with polarity, no ignored or crossed statistic options, exact and present argument validators, "
               "length-equality next to every memcmp-based allele comparison, full sweep-loop termination in the statistic kernels, "
               "C-contiguous index/weight arrays. Every value-level claim (definitions, additivity) is declined.")


def run(ctx):
    P = ctx.program()
    py = ctx.python()
    ps, ms = scopes.py_scope("C08", py), scopes.module_scope("C08", P)
    lib_stats.gil_regions(ctx, P)
    lib_stats.python_threads(ctx, py)
    lib_stats.stats_mode(ctx, P)
    lib_stats.validators(ctx, P)
    lib_stats.early_exits(ctx, P)
    lib_stats.string_equality(ctx, P)
    lib_stats.kernel_shapes(ctx, P)
    frozen = json.load(open(lib_module.OPTIONS_TABLE))["methods"]
    stat_funcs = {f for f, es in frozen.items() if any(e.get("flag", "").startswith("TSK_STAT_") for e in es)}
    lib_module.options_plumbing(ctx, P, funcs=stat_funcs)
    lib_module.flags_consumed(ctx, P, funcs=stat_funcs)
    lib_module.array_flags(ctx, P, only=ms)
    lib_module.parsed_used(ctx, P, only=ms)
    lib_sweep.sweep_conditions(ctx, P, tus=["trees"])
    lib_sweep.sweep_inverse(ctx, P, tus=["trees"])
    lib_stats.lazy_flush(ctx, P)
    lib_stats.carry_sign(ctx, P)
    from . import lib_kind2
    lib_kind2.guard_nan(ctx, P)
    funcs = set(lib_stats.VALIDATORS)
    seen = lib_guards.analyse(ctx, P, funcs=funcs)
    lib_guards.presence(ctx, seen, funcs=funcs, P=P)
    lib_py.kw_forward(ctx, py, mods=("trees", "stats"), only=ps)
    lib_py.unused_params(ctx, py, mods=("trees", "stats"), only=ps)
    lib_kind.py_lints(ctx, py, mods=("trees", "stats"), only=ps)
    lib_kind4.sample_row_index(ctx, py)
    from . import lib_kind2
    lib_kind2.array_conversion_source(ctx, P)
    lib_kind.py_windows_parity(ctx, py, [("trees", "TreeSequence.genetic_relatedness_matrix")])
    lib_py.ll_positional(ctx, py, P, only=ps)
    lib_module.name_agreement(ctx, P, classes=("TreeSequence", "LdCalculator"), floor=60)
    lib_module.module_every_path(ctx, P, classes=("TreeSequence", "LdCalculator"), floor=20)
    lib_py.facade_names(ctx, py, P, classes=(("trees", "TreeSequence"),), floor=90,
                        exempt={"TreeSequence.get_population": "deprecated alias for the population *of a node*; unrelated to the "
                                                               "low-level get_population(id) row getter"})
    lib_mem.c_lints(ctx, ctx.program(), scopes.lib_scope("C08"))
    from . import lib_kind5
    lib_kind5.variant_samples_pair(ctx, ctx.program())
