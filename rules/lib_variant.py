"""C03 / C04 / traversal rules."""
from __future__ import annotations

import re

from sa.cfront import LIB_TUS
from sa.cfg import CFG
from sa.expr import strip, walk, callee, estr, xstr, is_assign, calls
from sa.schema import Facts
from sa.guards import single_def

# loops whose push is legitimately conditional (pruned traversals), confirmed by reading
PRUNED = {
    "tsk_tree_num_lineages": "(child_time > t)",
    "update_kc_subtree_state": "(depths[c] != 0)",
    "tsk_ls_hmm_redistribute_transitions": "!all_zero(A, v, num_optimal_value_set_words)",
}


def traversal_push(ctx, P, rule="TRAVERSAL-PUSH", floor=10, tus=None):
    ctx.rule(rule, "every stack-based tree traversal pushes each child it iterates (`for (v = left_child[u]; v != TSK_NULL; v = "
                   "right_sib[v]) stack[..] = v`) unconditionally; the three pruned traversals confirmed by reading push under "
                   "exactly their documented condition.  A conditional push silently skips subtrees")
    for key in (tus or LIB_TUS):
        tu = P.tus[key]
        for fn in tu.funcs.values():
            F = None
            k = 0
            for lp in walk(fn.body):
                if lp.k != "ForStmt":
                    continue
                kids = lp.kids + [None] * (5 - len(lp.kids))
                init, inc, body = kids[0], kids[3], kids[4]
                it = estr(init) if init is not None else ""
                inct = estr(inc) if inc is not None else ""
                if not re.search(r"(left|right)_child\[", it) or not re.search(r"(left|right)_sib\[", inct):
                    continue
                F = F or Facts(P, fn)
                for x in walk(body):
                    if x.k == "BinaryOperator" and x.op == "=":
                        l = strip(x.kids[0])
                        if l is not None and l.k == "ArraySubscriptExpr" and "stack" in estr(l.kids[0]):
                            conds = [estr(i.kids[0]) for i, br in F.enclosing_ifs(x) if i.b > lp.b]
                            want = [PRUNED[fn.name]] if fn.name in PRUNED else []
                            ok = conds == [] or conds == want
                            ctx.ob(rule, "%s@%d" % (fn.name, k), ok, tu.loc(x),
                                   "child pushed %s" % ("under " + str(conds) if conds else "unconditionally") if ok else
                                   "child pushed only under %s (expected %s): subtrees are skipped" % (conds, want or "no condition"))
                            k += 1
    ctx.floor(rule, floor if tus is None else 1)


def variant_decode(ctx, P, rule="VARIANT-DECODE"):
    ctx.rule(rule, "tsk_variant_decode, on every path to success: site lookup -> tsk_tree_seek(site.position) -> every genotype set to "
                   "the ancestral allele -> mark_missing (resolved to tsk_variant_mark_missing) iff !impute_missing, where "
                   "impute_missing is exactly options & TSK_ISOLATED_NOT_MISSING -> mutation loop calling update_genotypes "
                   "(resolved per sampling mode); allele 0 is the ancestral state unless user alleles are given")
    tu = P.tus["genotypes"]
    fn = P.need("tsk_variant_decode", "genotypes")
    F = Facts(P, fn)
    where = tu.loc(fn.node)
    cfg = CFG(fn)

    def node_of(ast):
        for n in cfg.nodes:
            if n.ast is None or n.kind == "join":
                continue
            for x in walk(n.ast):
                if x is ast:
                    return n
        return None
    get_site = [n for c_, a, n in F.calls if c_ == "tsk_treeseq_get_site"]
    seek = [n for c_, a, n in F.calls if c_ == "tsk_tree_seek"]
    # indirect calls
    ind = [(estr(strip(x.kids[0])), x) for x in walk(fn.body) if x.k == "CallExpr" and callee(x) is None and strip(x.kids[0]) is not None
           and strip(x.kids[0]).k == "DeclRefExpr"]
    mm = [x for nm, x in ind if nm == "mark_missing"]
    ug = [x for nm, x in ind if nm == "update_genotypes"]
    ok = bool(get_site and seek and mm and ug)
    ctx.ob(rule, "anchors", ok, where, "get_site=%d seek=%d mark_missing=%d update_genotypes=%d" % (len(get_site), len(seek), len(mm), len(ug)))
    if not ok:
        return
    order = get_site[0].b < seek[0].b < mm[0].b < ug[0].b
    ctx.ob(rule, "order", order, where, "site lookup, seek, mark missing, mutation loop (source order)")
    a = [estr(x) for x in seek[0].kids[1:]]
    ctx.ob(rule, "seek-arg", a[0] == "&self->tree" and a[1] == "self->site.position", tu.loc(seek[0]), "tsk_tree_seek(&self->tree, self->site.position, …)")
    # the tree is repositioned for EVERY decode: no path reaches the ancestral fill / mutation loop around the seek
    skn, ugn0 = node_of(seek[0]), node_of(ug[0])
    if skn is not None and ugn0 is not None:
        wit = cfg.find_path(cfg.entry, ugn0, avoid={skn})
        ctx.ob(rule, "seek|every-path", wit is None, tu.loc(seek[0]),
               "every path to the mutation loop passes tsk_tree_seek (decode() may be called in any site order)" if wit is None else
               "a path reaches the mutation loop without tsk_tree_seek (lines %s): the tree of the previous decode is reused"
               % " -> ".join(tu.loc(n.ast).split(":")[-1] for n in wit if n.ast is not None)[:120])
    # mark_missing condition
    conds = [xstr(i.kids[0], F.al) for i, br in F.enclosing_ifs(mm[0])]
    d = single_def(fn, "impute_missing")
    dsrc = tu.src(d) if d is not None else ""
    okc = conds == ["!impute_missing"] and "TSK_ISOLATED_NOT_MISSING" in dsrc and "self->options" in dsrc and dsrc.count("!") % 2 == 0
    ctx.ob(rule, "mark_missing|condition", okc, tu.loc(mm[0]),
           "mark_missing called under %s with impute_missing = %s" % (conds, dsrc))
    # must pass through mark_missing before the mutation loop when !impute_missing: ug not reachable from entry avoiding mm on the !impute edge
    mmn, ugn = node_of(mm[0]), node_of(ug[0])
    if mmn is not None and ugn is not None:
        def skip_edge(a_, b_, lab):
            # the edge that skips mark_missing is the False edge of the `impute_missing` test (cond node prints without the !)
            return False
        reach = cfg.path_exists(cfg.entry, ugn, avoid={mmn})
        # exactly one bypass is allowed: the impute_missing branch.  Count cond nodes on which the bypass depends.
        ctx.ob(rule, "mark_missing|before-loop", mm[0].b < ug[0].b and reach, tu.loc(mm[0]),
               "mark_missing precedes the mutation loop and is bypassed only by the impute branch")
    # function pointer resolution
    defs_mm = [estr(n.kids[1]) for l, o, r, n in F.assigns if n.k == "BinaryOperator" and estr(n.kids[0]) == "mark_missing"]
    defs_ug = [(estr(n.kids[1]), [xstr(i.kids[0], F.al) for i, br in F.enclosing_ifs(n)]) for l, o, r, n in F.assigns
               if n.k == "BinaryOperator" and estr(n.kids[0]) == "update_genotypes"]
    ctx.ob(rule, "resolve|mark_missing", defs_mm == ["tsk_variant_mark_missing"], where, "mark_missing = %s" % defs_mm)
    okug = sorted(defs_ug) == sorted([("tsk_variant_update_genotypes_sample_list", []), ("tsk_variant_update_genotypes_traversal", ["by_traversal"])])
    ctx.ob(rule, "resolve|update_genotypes", okug, where, "update_genotypes = %s" % defs_ug)
    # ancestral fill
    fill = [n for l, o, r, n in F.assigns if l == "self->genotypes[j]" and r == "allele_index"]
    ctx.ob(rule, "ancestral-fill", bool(fill) and fill[0].b < mm[0].b, where, "genotypes[j] = allele_index for all samples before missing data is marked")
    a0 = F.has_assign("self->alleles[0]", "self->site.ancestral_state")
    ctx.ob(rule, "allele0", a0 is not None, where, "alleles[0] = site.ancestral_state when no user alleles")
    # update_genotypes args
    ua = [estr(x) for x in ug[0].kids[1:]]
    ctx.ob(rule, "update-args", ua == ["self", "mutation.node", "allele_index"], tu.loc(ug[0]), "update_genotypes(self, mutation.node, allele_index); found %s" % ua)
    src = tu.src(fn.body)
    ctx.ob(rule, "allele-not-found", src.count("TSK_ERR_ALLELE_NOT_FOUND") >= 2, where, "user-allele lookups that fail raise TSK_ERR_ALLELE_NOT_FOUND")


def simplifier_pairs(ctx, P, rule="SIMPLIFY-REWIND"):
    ctx.rule(rule, "simplifier_rewind_node undoes exactly what simplifier_record_node did: the node map entry written on record is "
                   "reset to TSK_NULL and the node table is truncated back to the recorded id; record_node forwards every field of "
                   "the input node and applies the sample-flag update only under !NO_UPDATE_SAMPLE_FLAGS")
    tu = P.tus["tables"]
    rec = P.need("simplifier_record_node", "tables")
    rew = P.need("simplifier_rewind_node", "tables")
    FR, FW = Facts(P, rec), Facts(P, rew)
    wrote = [l for l, o, r, n in FR.assigns if l.startswith("self->node_id_map[")]
    ctx.ob(rule, "record|map", wrote == ["self->node_id_map[input_id]"], tu.loc(rec.node), "record writes %s" % wrote)
    for w in wrote:
        ok = FW.has_assign(w, "TSK_NULL") is not None
        ctx.ob(rule, "rewind|%s" % w, ok, tu.loc(rew.node), "%s = TSK_NULL in rewind" % w if ok else
               "rewind_node does not reset %s: the dropped input node keeps a stale output id" % w)
    tr = FW.calls_to("tsk_node_table_truncate")
    ctx.ob(rule, "rewind|truncate", any(a[0] == "&self->tables->nodes" and "output_id" in a[1] for a, n in tr), tu.loc(rew.node),
           "node table truncated to output_id")
    add = FR.calls_to("tsk_node_table_add_row")
    want = ["&self->tables->nodes", "node.flags", "node.time", "node.population", "node.individual", "node.metadata", "node.metadata_length"]
    ctx.ob(rule, "record|forward", any(a == want for a, n in add), tu.loc(rec.node), "add_row(%s)" % (add[0][0] if add else None))
    flagw = [(l, o, r, [xstr(i.kids[0], FR.al) for i, br in FR.enclosing_ifs(n)]) for l, o, r, n in FR.assigns if l == "node.flags"]
    ok = bool(flagw) and all(c and c[-1] == "update_flags" for l, o, r, c in flagw)
    d = single_def(rec, "update_flags")
    ok = ok and d is not None and "TSK_SIMPLIFY_NO_UPDATE_SAMPLE_FLAGS" in tu.src(d)
    ctx.ob(rule, "record|flags", ok, tu.loc(rec.node), "node.flags modified only under update_flags; writes %s" % [(l, o, r) for l, o, r, c in flagw])
    # only the sample bit may be touched
    okbits = all("TSK_NODE_IS_SAMPLE" in r for l, o, r, c in flagw) and all(o in ("&=", "|=") for l, o, r, c in flagw)
    ctx.ob(rule, "record|flag-bits", okbits, tu.loc(rec.node), "only the TSK_NODE_IS_SAMPLE bit is cleared/set (other flag bits survive)")


def _array_aliases(fn, field):
    """local names initialised / assigned from an expression ending in `field` (e.g. `list_next = self->tree.next_sample`)."""
    out = {field}
    for x in walk(fn.body):
        if x.k == "VarDecl" and x.kids and x.name:
            t = estr(x.kids[-1])
            if re.search(r"(->|\.)%s$" % field, t):
                out.add(x.name)
        elif x.k == "BinaryOperator" and x.op == "=":
            if re.search(r"(->|\.)%s$" % field, estr(x.kids[1])):
                out.add(estr(x.kids[0]))
    return out


def sample_walks(ctx, P, rule="SAMPLE-WALK", tus=("genotypes", "trees"), floor=1):
    """Every walk over a node's sample list visits left_sample[u] .. right_sample[u] inclusive."""
    ctx.rule(rule, "every loop that advances `i = next_sample[i]` starts from left_sample[u] behind a TSK_NULL test, stops with "
                   "`if (i == right_sample[u]) break` (or a local holding right_sample[u]) and places that stop test after every "
                   "other use of i in the loop body and before the advance: the last sample of the list is processed and the "
                   "walk never runs past the node's own segment of the list")
    n = 0
    for key in tus:
        tu = P.tus[key]
        for fn in tu.funcs.values():
            src = tu.src(fn.body) if fn.body is not None else ""
            if "next_sample" not in src:
                continue
            nxt = _array_aliases(fn, "next_sample")
            lft = _array_aliases(fn, "left_sample")
            rgt = _array_aliases(fn, "right_sample")
            F = Facts(P, fn)
            loops = [x for x in walk(fn.body) if x.k in ("WhileStmt", "ForStmt", "DoStmt")]
            k = 0
            for adv in walk(fn.body):
                if not (adv.k == "BinaryOperator" and adv.op == "="):
                    continue
                r = strip(adv.kids[1])
                if r is None or r.k != "ArraySubscriptExpr" or estr(r.kids[0]) not in nxt:
                    continue
                var = estr(adv.kids[0])
                if estr(r.kids[1]) != var:
                    continue
                inner = [lp for lp in loops if lp.b <= adv.b and adv.e <= lp.e]
                if not inner:
                    continue
                lp = max(inner, key=lambda q: q.b)
                body = lp.kids[-1] if lp.k != "DoStmt" else lp.kids[0]
                # stop locals: s = right_sample[..]
                stops = set()
                for x in walk(fn.body):
                    if x.k == "BinaryOperator" and x.op == "=":
                        rr = strip(x.kids[1])
                        if rr is not None and rr.k == "ArraySubscriptExpr" and estr(rr.kids[0]) in rgt:
                            stops.add(estr(x.kids[0]))
                stop_if = None
                for x in walk(body):
                    if x.k == "IfStmt":
                        c = strip(x.kids[0])
                        if c is not None and c.k == "BinaryOperator" and c.op == "==":
                            a, b = estr(c.kids[0]), estr(c.kids[1])
                            other = b if a == var else a if b == var else None
                            if other is None:
                                continue
                            o = strip(c.kids[1] if a == var else c.kids[0])
                            is_right = other in stops or (o is not None and o.k == "ArraySubscriptExpr" and estr(o.kids[0]) in rgt)
                            then = x.kids[1]
                            has_break = then is not None and any(y.k == "BreakStmt" for y in walk(then))
                            if is_right and has_break:
                                stop_if = x
                key_ = "%s|%s@%d" % (fn.name, var, k)
                k += 1
                n += 1
                where = tu.loc(adv)
                if stop_if is None:
                    ctx.ob(rule, key_, False, where, "no `if (%s == right_sample[..]) break` in the loop that advances %s" % (var, var))
                    continue
                if not (stop_if.e <= adv.b):
                    ctx.ob(rule, key_, False, where, "the stop test comes after the advance `%s`" % estr(adv))
                    continue
                # every other use of var inside the loop body precedes the stop test
                late = None
                for x in walk(body):
                    if x.k == "DeclRefExpr" and x.ref == var and x.b >= stop_if.e and not (adv.b <= x.b and x.e <= adv.e):
                        late = x
                        break
                if late is not None:
                    ctx.ob(rule, key_, False, tu.loc(late), "`%s` is used after the stop test: the last sample of the list is not processed" % var)
                    continue
                # start: var = left_sample[..] and a NULL test
                inits = []
                for x in walk(fn.body):
                    if x.k == "BinaryOperator" and x.op == "=" and estr(x.kids[0]) == var and x is not adv:
                        inits.append(x)
                    elif x.k == "VarDecl" and x.name == var and x.kids:
                        inits.append(x)
                def from_left(x):
                    rr = strip(x.kids[-1])
                    return rr is not None and rr.k == "ArraySubscriptExpr" and estr(rr.kids[0]) in lft
                bad_init = [x for x in inits if not from_left(x)]
                if bad_init or not inits:
                    ctx.ob(rule, key_, False, tu.loc(bad_init[0]) if bad_init else where,
                           "%s is not initialised from left_sample[..]" % var)
                    continue
                cond = estr(lp.kids[0]) if lp.k == "WhileStmt" else ""
                null_ok = re.search(r"%s != (TSK_NULL|-1)" % re.escape(var), cond) is not None
                if not null_ok:
                    for i, br in F.enclosing_ifs(lp):
                        if re.search(r"%s != (TSK_NULL|-1)" % re.escape(var), estr(i.kids[0])) and br:
                            null_ok = True
                if not null_ok:
                    for x in walk(fn.body):
                        if (x.k == "IfStmt" and x.b < lp.b and re.search(r"%s == (TSK_NULL|-1)" % re.escape(var), estr(x.kids[0]))
                                and any(y.k in ("GotoStmt", "ReturnStmt", "ContinueStmt", "BreakStmt") for y in walk(x.kids[1]))):
                            null_ok = True      # reject-and-leave form
                if not null_ok:
                    ctx.ob(rule, key_, False, where, "no `%s != TSK_NULL` test before the walk (a node with no samples has left_sample == TSK_NULL)" % var)
                    continue
                ctx.ob(rule, key_, True, where, "walk over %s: left .. right inclusive, NULL-guarded" % var)
    ctx.floor(rule, floor)
    return n


def variant_copy(ctx, P, rule="VARIANT-COPY"):
    ctx.rule(rule, "tsk_variant_restricted_copy starts from a bitwise copy, so every pointer member of tsk_variant_t is afterwards either "
                   "set to NULL or pointed at memory the copy owns (`other->F = tsk_malloc(...)`), and every owned buffer is filled "
                   "from the source with its own element size and the copy's count: no member of the copy aliases a buffer that the "
                   "original frees or overwrites on its next decode")
    tu = P.tus["genotypes"]
    fn = P.need("tsk_variant_restricted_copy", "genotypes")
    F = Facts(P, fn)
    fields = P.structs.get("tsk_variant_t") or []
    ctx.need(bool(fields), "struct tsk_variant_t")
    dst = fn.params[1].name if len(fn.params) > 1 else "other"
    src_ = fn.params[0].name if fn.params else "self"
    first = [n for c_, a, n in F.calls if c_ in ("tsk_memcpy", "memcpy") and a and a[0] == dst and a[1] == src_]
    ctx.ob(rule, "bitwise-first", bool(first), tu.loc(fn.node), "starts with memcpy(%s, %s, sizeof(*%s))" % (dst, src_, dst))
    for f, ty, d in fields:
        if "*" not in (ty or ""):
            continue
        lhs = "%s->%s" % (dst, f)
        asg = [(r, n) for l, o, r, n in F.assigns if l == lhs and o == "="]
        nulls = [1 for r, n in asg if r in ("NULL", "((void *)0)", "0")]
        owns = [n for r, n in asg if re.search(r"\b(tsk_)?(m|c)alloc\(", r)]
        ok = bool(nulls) or bool(owns)
        ctx.ob(rule, "member|%s" % f, ok, tu.loc(fn.node),
               "%s is %s" % (lhs, "re-allocated" if owns else "set to NULL") if ok else
               "%s keeps the pointer copied from %s: the two variants share (and both free) one buffer" % (lhs, src_))
        if owns and f not in ("alleles", "user_alleles_mem"):
            filled = [a for c_, a, n in F.calls if c_ in ("tsk_memcpy", "memcpy") and a and a[0] == lhs]
            okf = bool(filled) and filled[0][1] == "%s->%s" % (src_, f) and ("sizeof(*%s)" % lhs) in filled[0][2].replace(" ", "").replace("sizeof(*", "sizeof(*")
            ctx.ob(rule, "fill|%s" % f, okf, tu.loc(fn.node), "memcpy(%s, %s->%s, n * sizeof(*%s)): %s" % (lhs, src_, f, lhs, filled[0] if filled else None))


def reduce_site_set(ctx, P, rule="SIMPLIFY-REDUCE-SITES"):
    """C04 asks that simplifying the result again changes nothing.  With reduce_to_site_topology the trees are reduced to what
    is visible at a SET of site positions; the result is a fixed point only if that set is the set of sites the output keeps."""
    import re
    ctx.rule(rule, "the site positions that drive TSK_SIMPLIFY_REDUCE_TO_SITE_TOPOLOGY are the positions of the sites simplify outputs: "
                   "simplifier_init_position_lookup takes its positions from the input site table, so it must either be restricted "
                   "to the sites that TSK_SIMPLIFY_FILTER_SITES will keep or site filtering must be off when it is used; otherwise "
                   "a second simplify, which sees only the retained sites, coarsens the trees again (not a fixed point)")
    tu = P.tus["tables"]
    fn = P.need("simplifier_init_position_lookup", "tables")
    src = " ".join(tu.src(fn.body).split())
    from_input = "input_tables.sites.position" in src
    ctx.ob(rule, "position_lookup|source", from_input, tu.loc(fn.node),
           "position_lookup is copied from input_tables.sites.position (every input site)" if from_input else
           "position_lookup is no longer built from the input site table: re-read the function")
    restricted = re.search(r"filter_sites|FILTER_SITES|mutations|site_id_map", src) is not None
    # or: the caller refuses / disables filtering when reducing
    init = P.need("simplifier_init", "tables")
    isrc = " ".join(tu.src(init.body).split())
    guarded = re.search(r"REDUCE_TO_SITE_TOPOLOGY[^;{]*FILTER_SITES|FILTER_SITES[^;{]*REDUCE_TO_SITE_TOPOLOGY", isrc) is not None
    ok = restricted or guarded
    ctx.ob(rule, "position_lookup|retained-sites", ok, tu.loc(fn.node),
           "the reduction uses the sites that are retained" if ok else
           "the reduction uses every input site while TSK_SIMPLIFY_FILTER_SITES (the default) then drops the sites without mutations: "
           "simplify(reduce_to_site_topology=True) is not idempotent")
    return 2
