"""Python facade rules written after the Python-focused seeding round: caller-supplied options are not overridden, facade methods
reach their low-level namesake on every path, equality entry points have no shortcuts, parser siblings, index and domain
agreement.  All rules are structural (ast), keyed by (rule, function, construct)."""
from __future__ import annotations

import ast
import re

MODS = {"np", "numpy", "util", "tskit", "_tskit", "int", "float", "str", "list", "tuple", "bool", "bytes", "len", "NULL", "self", "cls",
        "json", "os", "drawing", "metadata", "schema", "math", "base64", "collections"}


def _parents(fn):
    par = {}
    for x in ast.walk(fn):
        for c in ast.iter_child_nodes(x):
            par[c] = x
    return par


def _defaults(fn):
    a = fn.args
    pos = a.posonlyargs + a.args
    d = {p.arg: x for p, x in zip(pos[len(pos) - len(a.defaults):], a.defaults)}
    d.update({p.arg: x for p, x in zip(a.kwonlyargs, a.kw_defaults) if x is not None})
    return d, {p.arg for p in pos + a.kwonlyargs}


def _names(n):
    return {x.id for x in ast.walk(n) if isinstance(x, ast.Name)}


def sentinel_test(test, names):
    """Does `test` (or a conjunct / disjunct / negation of it) compare one of `names` with a sentinel: None, a constant, an
    UPPER_CASE constant, its own truthiness, isinstance?"""
    if isinstance(test, ast.BoolOp):
        return any(sentinel_test(v, names) for v in test.values)
    if isinstance(test, ast.UnaryOp) and isinstance(test.op, ast.Not):
        return sentinel_test(test.operand, names)
    if isinstance(test, ast.Name):
        return test.id in names
    if isinstance(test, ast.Compare) and len(test.ops) == 1:
        for a, b in ((test.left, test.comparators[0]), (test.comparators[0], test.left)):
            if isinstance(a, ast.Name) and a.id in names and isinstance(test.ops[0], (ast.Is, ast.IsNot, ast.Eq, ast.NotEq, ast.In, ast.NotIn)):
                if isinstance(b, ast.Constant) or (isinstance(b, (ast.Tuple, ast.List, ast.Set)) and all(isinstance(e, ast.Constant) for e in b.elts)) \
                        or (isinstance(b, ast.Attribute) and b.attr.isupper()) or (isinstance(b, ast.Name) and b.id.isupper()):
                    return True
    if isinstance(test, ast.Call) and ast.unparse(test.func) in ("isinstance", "callable") and test.args and isinstance(test.args[0], ast.Name) \
            and test.args[0].id in names:
        return True
    return False


def _default_branch(test, p):
    """"body" / "orelse": the branch of `if test:` on which parameter p holds its default (None / constant / falsy); None: unknown."""
    if isinstance(test, ast.BoolOp) and isinstance(test.op, ast.And):
        for v in test.values:
            r = _default_branch(v, p)
            if r == "body":
                return "body"
        return None
    if isinstance(test, ast.UnaryOp) and isinstance(test.op, ast.Not):
        r = _default_branch(test.operand, p)
        return {"body": "orelse", "orelse": "body"}.get(r)
    if isinstance(test, ast.Name) and test.id == p:
        return "orelse"
    if isinstance(test, ast.Compare) and len(test.ops) == 1 and any(isinstance(n, ast.Name) and n.id == p for n in (test.left, test.comparators[0])):
        if isinstance(test.ops[0], (ast.Is, ast.Eq, ast.In)):
            return "body"
        if isinstance(test.ops[0], (ast.IsNot, ast.NotEq, ast.NotIn)):
            return "orelse"
    return None


# (function, parameter): re-assignments of a defaulted parameter confirmed by reading to be intended
PARAM_OVERRIDE_OK = {
    ("write_ms", "write_header"),            # per-iteration state: the header is written once, before the first replicate
    ("map_mutations", "ancestral_state"),    # the name is re-used for the RESULT of the low-level call (the argument was consumed)
    ("trait_linear_model", "Z"),             # covariates orthonormalised in place of the argument, as documented
    ("safe_np_int_cast", "copy"),            # no copy needed when the dtype already matches
}


def param_override(fn, qn):
    """[(node, message)]: a parameter that has a default is re-assigned although the caller's value is not the sentinel.  Accepted:
    a conversion of the parameter itself (`p = np.array(p)`), a conditional expression or an enclosing `if` that tests the
    parameter - or a parameter the new value is taken from - against None / a constant / its truthiness."""
    out = []
    dflt, params = _defaults(fn)
    par = _parents(fn)
    short = qn.split(".")[-1]
    for x in ast.walk(fn):
        if not isinstance(x, ast.Assign):
            continue
        names = []
        for t in x.targets:
            names += [n.id for n in ([t] if isinstance(t, ast.Name) else getattr(t, "elts", [])) if isinstance(n, ast.Name)]
        for p in names:
            if p not in dflt or (short, p) in PARAM_OVERRIDE_OK:
                continue
            v = x.value
            used = _names(v)
            selfconv = p in used and not {n for n in used if n != p and n not in MODS}
            src = {p} | (used & params)
            ifexp = (isinstance(v, ast.IfExp) and sentinel_test(v.test, src)) or \
                    (isinstance(v, ast.BoolOp) and isinstance(v.values[0], ast.Name) and v.values[0].id == p)   # `p = p or d`: the or-default clause
            g, guarded = x, False
            while g in par:
                q = par[g]
                if isinstance(q, ast.If) and sentinel_test(q.test, src):
                    # a test of p ITSELF legitimises the assignment only on the branch where p is at its default; on the other
                    # branch the caller's value is being rewritten, which only a conversion of p may do
                    pol = _default_branch(q.test, p)
                    branch = "body" if any(g is s_ for s_ in q.body) else "orelse"
                    if pol is None or pol == branch or not sentinel_test(q.test, {p}):
                        guarded = True
                g = q
            if not (selfconv or ifexp or guarded):
                out.append((x, "`%s` replaces the caller's `%s` although nothing tests that the caller left it at its default (%s)"
                            % (ast.unparse(x)[:60], p, ast.unparse(dflt[p]))))
    return out


# ------------------------------------------------------------------------------------------------------------------------

_ARRAYISH = re.compile(r"(_array$|^_?(edges|nodes|sites|mutations|migrations|individuals|populations|provenances|indexes)_|^samples$|_offset$)")
RAW_INDEX_OK = {("keep_with_offset", "keep"),       # a boolean mask, not an id
                }


def raw_index(fn, qn):
    """[(node, message)]: a PUBLIC function indexes a numpy array with its own parameter (an id from the caller) and never tests
    the parameter's lower bound: numpy accepts negative indexes, so -1 silently means "the last row"."""
    out = []
    short = qn.split(".")[-1]
    if short.startswith("_") and not short.startswith("__"):
        return out
    a = fn.args
    params = {p.arg for p in a.posonlyargs + a.args + a.kwonlyargs} - {"self", "cls"}
    # locals that are numpy arrays: bound from np.* / an array-named attribute / a conversion helper
    arrays, alias = set(), {}
    for x in ast.walk(fn):
        if isinstance(x, ast.Assign) and len(x.targets) == 1 and isinstance(x.targets[0], ast.Name):
            v = x.value
            if isinstance(v, ast.Call) and ast.unparse(v.func).startswith(("np.", "numpy.", "util.safe_np_int_cast")):
                arrays.add(x.targets[0].id)
                # a parameter converted to an array keeps being "the caller's ids"
                for arg in v.args[:1]:
                    if isinstance(arg, ast.Name) and arg.id in params:
                        alias[x.targets[0].id] = arg.id
            elif isinstance(v, ast.Attribute) and _ARRAYISH.search(v.attr):
                arrays.add(x.targets[0].id)
    ids = params | set(alias)

    def lower_tested(p):
        for c in ast.walk(fn):
            if isinstance(c, ast.Compare) and any(isinstance(o, (ast.Lt, ast.LtE, ast.Gt, ast.GtE)) for o in c.ops) \
                    and any(isinstance(n, ast.Name) and n.id == p for n in ast.walk(c)):
                return True
            if isinstance(c, ast.Call) and "check" in ast.unparse(c.func) and any(isinstance(n, ast.Name) and n.id == p for n in c.args):
                return True
        return False
    for x in ast.walk(fn):
        if not (isinstance(x, ast.Subscript) and isinstance(x.slice, ast.Name) and x.slice.id in ids):
            continue
        p = x.slice.id
        recv = x.value
        is_arr = (isinstance(recv, ast.Name) and recv.id in arrays and recv.id not in params) or \
                 (isinstance(recv, ast.Attribute) and _ARRAYISH.search(recv.attr))
        if not is_arr or (short, p) in RAW_INDEX_OK:
            continue
        # the name no longer holds the caller's value once it has been re-bound from a call (u = self.parent(u) validates u)
        if any(isinstance(a_, ast.Assign) and isinstance(a_.value, ast.Call) and a_.lineno < x.lineno
               and any(isinstance(t_, ast.Name) and t_.id == p for t_ in a_.targets)
               and not ast.unparse(a_.value.func).startswith(("np.", "numpy.", "util.safe_np_int_cast", "int", "list")) for a_ in ast.walk(fn)):
            continue
        if not (lower_tested(p) or (p in alias and lower_tested(alias[p]))):
            out.append((x, "`%s` indexes a numpy array with the caller's `%s`, whose lower bound is never tested: a negative id wraps "
                        "around instead of being rejected" % (ast.unparse(x)[:40], alias.get(p, p))))
    return out


# ------------------------------------------------------------------------------------------------------------------------

def try_multi(fn):
    """[(node, message)]: `try:` with several statements and an `except …: pass` handler: when an early statement raises, the
    later ones are silently skipped (typical after merging several single-statement try blocks)."""
    out = []
    for x in ast.walk(fn):
        if isinstance(x, ast.Try) and len(x.body) > 1:
            for h in x.handlers:
                if all(isinstance(s, ast.Pass) for s in h.body):
                    # which statements can raise the handled exception at all?  any call / subscript
                    risky = [s for s in x.body if any(isinstance(y, (ast.Call, ast.Subscript)) for y in ast.walk(s))]
                    if len(risky) > 1 and not _try_multi_ok(x):
                        out.append((x, "`try` guards %d statements but `except %s: pass` resumes AFTER the block: if an early one raises, "
                                    "the later ones are skipped" % (len(risky), ast.unparse(h.type) if h.type else "")))
    return out


def _try_multi_ok(t):
    # util.convert_file_like_to_open_file: `try: fileno(); os.fstat…` style probes where the 2nd depends on the 1st
    stores = set()
    for i, s in enumerate(t.body):
        loads = {n.id for n in ast.walk(s) if isinstance(n, ast.Name) and isinstance(n.ctx, ast.Load)}
        if i > 0 and not (loads & stores):
            return False
        stores |= {n.id for n in ast.walk(s) if isinstance(n, ast.Name) and isinstance(n.ctx, ast.Store)}
    return True


# ------------------------------------------------------------------------------------------------------------------------

TABLES = ("individuals", "nodes", "edges", "migrations", "sites", "mutations", "populations", "provenances")


def _domain(e, loopvars):
    """("table", T) for an expression that ranges over ALL rows of table T; ("item", v) for one that hangs off a loop variable."""
    if isinstance(e, ast.Call) and isinstance(e.func, ast.Attribute) and e.func.attr in TABLES and not e.args:
        return ("table", e.func.attr)
    if isinstance(e, ast.Call) and ast.unparse(e.func) == "range" and len(e.args) == 1:
        m = re.search(r"num_(%s)$" % "|".join(TABLES), ast.unparse(e.args[0]))
        if m:
            return ("table", m.group(1))
    if isinstance(e, ast.Attribute):
        m = re.match(r"^(%s)_\w+$" % "|".join(TABLES), e.attr)
        if m:
            return ("table", m.group(1))
        if isinstance(e.value, ast.Attribute) and e.value.attr in TABLES:
            return ("table", e.value.attr)
        root = e
        while isinstance(root, ast.Attribute):
            root = root.value
        if isinstance(root, ast.Name) and root.id in loopvars:
            return ("item", root.id)
    return None


def zip_domain(fn):
    """[(node, message)]: zip() pairs a whole-table column with something that does not range over the same table's rows (zip
    stops at the shorter one and restarts the longer at row 0 on every outer iteration)."""
    out = []
    par = _parents(fn)
    # local aliases of whole-table expressions
    whole = {}
    for x in ast.walk(fn):
        if isinstance(x, ast.Assign) and len(x.targets) == 1 and isinstance(x.targets[0], ast.Name):
            v = x.value
            if isinstance(v, ast.Call) and v.args and ast.unparse(v.func).split(".")[-1] in ("is_unknown_time", "array", "asarray", "isnan", "logical_not"):
                v = v.args[0]
            d = _domain(v, set())
            if d and d[0] == "table":
                whole[x.targets[0].id] = d
    for x in ast.walk(fn):
        if not (isinstance(x, ast.Call) and ast.unparse(x.func) == "zip" and len(x.args) >= 2):
            continue
        loopvars = set()
        g = x
        while g in par:
            g = par[g]
            if isinstance(g, (ast.For, ast.comprehension)):
                loopvars |= _names(g.target)
        doms = []
        for a_ in x.args:
            d = whole.get(a_.id) if isinstance(a_, ast.Name) else _domain(a_, loopvars)
            doms.append(d)
        tabs = {d for d in doms if d and d[0] == "table"}
        items = {d for d in doms if d and d[0] == "item"}
        if len(tabs) > 1 or (tabs and items):
            out.append((x, "`%s` pairs %s with %s: they do not range over the same rows" % (
                ast.unparse(x)[:60], "all rows of %s" % sorted(t for _, t in tabs)[0],
                "the per-item sequence of `%s`" % sorted(v for _, v in items)[0] if items else "all rows of %s" % sorted(t for _, t in tabs)[1])))
    return out


# ------------------------------------------------------------------------------------------------------------------------

def equality_lints(fn, qn):
    """[(node, message)] for __eq__ / __ne__ / equals: no `return True` before the comparison (other than identity), no zip()
    of the two operands without a length comparison."""
    out = []
    short = qn.split(".")[-1]
    if short not in ("__eq__", "__ne__", "equals"):
        return out
    par = _parents(fn)
    for x in ast.walk(fn):
        if isinstance(x, ast.Return) and isinstance(x.value, ast.Constant) and x.value.value is True:
            # accepted: inside `try:` after an assert_equals call (equals = "assert_equals did not raise"), or under `self is other`
            g, ok = x, False
            while g in par:
                q = par[g]
                if isinstance(q, ast.Try) and g in q.body and any(isinstance(c, ast.Call) and "assert_equals" in ast.unparse(c.func)
                                                                   for s in q.body for c in ast.walk(s)):
                    ok = True
                if isinstance(q, ast.If) and g in q.body and isinstance(q.test, ast.Compare) and isinstance(q.test.ops[0], ast.Is) \
                        and {ast.unparse(q.test.left), ast.unparse(q.test.comparators[0])} == {"self", "other"}:
                    ok = True
                g = q
            if not ok:
                out.append((x, "`return True` before the full comparison: %s can report equality for objects that differ" % short))
        if isinstance(x, ast.Call) and ast.unparse(x.func) == "zip":
            has_len = any(isinstance(c, ast.Compare) and sum(1 for y in ast.walk(c) if isinstance(y, ast.Call) and ast.unparse(y.func) == "len") >= 2
                          for c in ast.walk(fn)) or any(
                isinstance(c, ast.Compare) and any(isinstance(y, ast.Attribute) and y.attr in ("num_rows", "shape", "size") for y in ast.walk(c))
                for c in ast.walk(fn))
            if not has_len:
                out.append((x, "`%s` stops at the shorter operand and no length comparison is made: a strict prefix compares equal"
                            % ast.unparse(x)[:40]))
    return out


def or_none(fn):
    out = []
    for x in ast.walk(fn):
        if isinstance(x, ast.BoolOp) and isinstance(x.op, ast.Or) and isinstance(x.values[-1], ast.Constant) and x.values[-1].value is None:
            out.append((x, "`%s` turns every falsy value (\"\", 0, an empty array) into None, which downstream code reads as \"not given\""
                        % ast.unparse(x)[:60]))
    return out


def fold_dropped(fn):
    """[(node, message)]: `acc = seed; for x in xs: acc = f(<no acc>)`; … acc used afterwards: the loop was a fold (each step
    combines the running value with the next item) and no longer reads the running value, so only the last item counts."""
    out = []
    for blk in ast.walk(fn):
        body = getattr(blk, "body", None)
        if not isinstance(body, list):
            continue
        for i, lp in enumerate(body):
            if not isinstance(lp, ast.For) or i == 0:
                continue
            for s in lp.body:
                if not (isinstance(s, ast.Assign) and len(s.targets) == 1 and isinstance(s.targets[0], ast.Name)):
                    continue
                v = s.targets[0].id
                inits = [a for a in body[:i] if isinstance(a, ast.Assign) and any(isinstance(t, ast.Name) and t.id == v for t in a.targets)]
                if not inits or isinstance(inits[-1].value, ast.Constant):
                    continue        # `found = None; for …: found = x` (last / any match wins) is a different, legitimate idiom
                if any(isinstance(n, ast.Name) and n.id == v for n in ast.walk(s.value)):
                    continue
                early = [n for st in lp.body for n in ast.walk(st) if isinstance(n, ast.Name) and n.id == v and isinstance(n.ctx, ast.Load)
                         and (n.lineno, n.col_offset) < (s.lineno, s.col_offset)]
                after = [n for st in body[i + 1:] for n in ast.walk(st) if isinstance(n, ast.Name) and n.id == v and isinstance(n.ctx, ast.Load)]
                if not early and after:
                    out.append((s, "`%s` is seeded with `%s` before the loop and used after it, but the loop step `%s` never reads it: the "
                                "running value is dropped and only the last item counts" % (v, ast.unparse(inits[-1].value)[:30], ast.unparse(s)[:50])))
    return out


def assert_falls(m, fn, qn):
    """[(node, message)]: an assert_* method that returns early when `equals(...)` holds must raise on every other path: the code
    after the shortcut cannot fall off the end (it would return silently although equals() said the objects differ)."""
    from . import lib_kind3
    out = []
    if not qn.split(".")[-1].startswith("assert_"):
        return out
    for i, s_ in enumerate(fn.body):
        if isinstance(s_, ast.If) and any(isinstance(c, ast.Call) and isinstance(c.func, ast.Attribute) and c.func.attr == "equals" for c in ast.walk(s_.test)) \
                and s_.body and isinstance(s_.body[0], ast.Return):
            rest = fn.body[i + 1:]
            if lib_kind3._falls(rest, lib_kind3._noreturn(m)):
                out.append((rest[-1] if rest else s_, "after `if %s: return` the rest of %s can fall off its end: it returns silently "
                            "although equals() reported a difference" % (ast.unparse(s_.test)[:40], qn.split(".")[-1])))
    return out


_ALLOC_CALLS = ("np.full", "np.zeros", "np.empty", "np.ones", "np.full_like", "np.zeros_like", "list", "dict", "bytearray")


def stale_buffer(fn):
    """[(node, message)]: a scratch buffer allocated before a loop, filled through subscripts inside it, and re-allocated inside
    the loop only under a condition: in the iterations where the condition is false the slots that this iteration does not
    write keep what an earlier iteration left there."""
    out = []

    def is_alloc(v):
        return (isinstance(v, ast.Call) and ast.unparse(v.func) in _ALLOC_CALLS) or isinstance(v, (ast.List, ast.Dict))
    for blk in ast.walk(fn):
        body = getattr(blk, "body", None)
        if not isinstance(body, list):
            continue
        for i, lp in enumerate(body):
            if not isinstance(lp, (ast.For, ast.While)):
                continue
            before = {t.id for s_ in body[:i] if isinstance(s_, ast.Assign) and is_alloc(s_.value) for t in s_.targets if isinstance(t, ast.Name)}
            for nm in sorted(before):
                uncond = any(isinstance(s_, ast.Assign) and is_alloc(s_.value) and any(isinstance(t, ast.Name) and t.id == nm for t in s_.targets)
                             for s_ in lp.body)
                cond = [s_ for top in lp.body if isinstance(top, ast.If) for s_ in ast.walk(top)
                        if isinstance(s_, ast.Assign) and is_alloc(s_.value) and any(isinstance(t, ast.Name) and t.id == nm for t in s_.targets)]
                stores = [s_ for s_ in ast.walk(lp) if isinstance(s_, (ast.Assign, ast.AugAssign))
                          and any(isinstance(t, ast.Subscript) and isinstance(t.value, ast.Name) and t.value.id == nm
                                  for t in (s_.targets if isinstance(s_, ast.Assign) else [s_.target]))]
                if cond and not uncond and stores:
                    out.append((cond[0], "`%s` is allocated before the loop and re-allocated inside it only under a condition, while the "
                                "loop writes into it slot by slot: slots not written in an iteration keep an earlier iteration's value" % nm))
    return out


_UINT = re.compile(r"uint(8|16|32|64)|size_t_dtype")


def uint_arith(fn):
    """[(node, message)]: arithmetic on an unsigned numpy array (a name bound to np.array(..., dtype=np.uint32), or the
    `sample_set_sizes` a statistics callback receives, which the facade builds as uint32): `n ** 2`, `9 * n * (n - 1)`, `a - b`
    wrap around silently.  Accepted: the name is first converted (np.array(x, dtype=float), x.astype(float), float(x))."""
    out = []
    unsigned, converted = set(), set()
    for g in [fn] + [x for x in ast.walk(fn) if isinstance(x, ast.FunctionDef) and x is not fn]:
        for p_ in g.args.posonlyargs + g.args.args:
            if p_.arg == "sample_set_sizes":
                unsigned.add(p_.arg)
    for x in ast.walk(fn):
        if isinstance(x, ast.Assign) and len(x.targets) == 1 and isinstance(x.targets[0], ast.Name):
            v, t = x.value, x.targets[0].id
            if isinstance(v, ast.Call) and any(k.arg == "dtype" and _UINT.search(ast.unparse(k.value)) for k in v.keywords):
                unsigned.add(t)
            elif isinstance(v, ast.Name) and v.id in unsigned:
                unsigned.add(t)             # plain alias
            elif isinstance(v, ast.Call) and any(isinstance(n_, ast.Name) and n_.id in unsigned for n_ in ast.walk(v)) \
                    and re.search(r"float", ast.unparse(v)):
                converted.add(t)
    unsigned -= converted
    if not unsigned:
        return out
    for g in [fn] + [x for x in ast.walk(fn) if isinstance(x, ast.FunctionDef) and x is not fn]:
        pass
    for x in ast.walk(fn):
        if isinstance(x, ast.BinOp) and isinstance(x.op, (ast.Pow, ast.Mult, ast.Sub)):
            for side in (x.left, x.right):
                if isinstance(side, ast.Name) and side.id in unsigned:
                    out.append((x, "`%s` is arithmetic on the unsigned array `%s`: it wraps around instead of growing (convert to float first)"
                                % (ast.unparse(x)[:50], side.id)))
                    break
    return out[:1]


def function_lints(m, qn, fn):
    """[(kind, node, message)] – called from lib_kind3.py_function_lints so that every property's Python scope gets them."""
    out = []
    out += [("param-override", n, msg) for n, msg in param_override(fn, qn)]
    out += [("raw-index", n, msg) for n, msg in raw_index(fn, qn)]
    out += [("try-multi", n, msg) for n, msg in try_multi(fn)]
    out += [("zip-domain", n, msg) for n, msg in zip_domain(fn)]
    out += [("equality", n, msg) for n, msg in equality_lints(fn, qn)]
    out += [("or-none", n, msg) for n, msg in or_none(fn)]
    out += [("alloc-domain", n, msg) for n, msg in alloc_domain(fn)]
    out += [("fold-dropped", n, msg) for n, msg in fold_dropped(fn)]
    out += [("uint-arith", n, msg) for n, msg in uint_arith(fn)]
    out += [("stale-buffer", n, msg) for n, msg in stale_buffer(fn)]
    out += [("assert-falls", n, msg) for n, msg in assert_falls(m, fn, qn)]
    out += [("sample-membership", n, msg) for n, msg in sample_membership(fn)]
    out += [("unsafe-int-cast", n, msg) for n, msg in unsafe_int_cast(fn)]
    out += [("flag-equality", n, msg) for n, msg in flag_equality(fn)]
    out += [("cache-escape", n, msg) for n, msg in cache_escape(fn)]
    out += [("return-before-check", n, msg) for n, msg in return_before_check(fn)]
    from . import lib_kind5
    out += [("aggregate-length", n, msg) for n, msg in lib_kind5.aggregate_length(fn)]
    out += [("specified-path", n, msg) for n, msg in lib_kind5.specified_path(fn)]
    out += [("subtree-root", n, msg) for n, msg in lib_kind5.subtree_root(fn)]
    return out


# ------------------------------------------------------------------------------------------------------------------------
# PY-LL-EVERY-PATH

_LL = re.compile(r"^self\.(_ll_\w+|ll_\w+)$")


def _refs(node, name, helpers):
    for x in ast.walk(node):
        if isinstance(x, ast.Attribute) and x.attr == name and _LL.match(ast.unparse(x.value)):
            return True
        if isinstance(x, ast.Call) and isinstance(x.func, ast.Attribute) and isinstance(x.func.value, ast.Name) and x.func.value.id == "self" \
                and x.func.attr in helpers:
            return True
    return False


def _type_test(test):
    t = ast.unparse(test)
    return bool(re.search(r"type\(other\) is(?: not)? type\(self\)|isinstance\(other,", t))


def _walk(stmts, called, name, helpers, viol):
    cur = {called}
    for s in stmts:
        nxt = set()
        for c in cur:
            nxt |= _step(s, c, name, helpers, viol)
        cur = nxt
        if not cur:
            break
    return cur


def _step(s, c, name, helpers, viol):
    if isinstance(s, ast.Return):
        if not (c or (s.value is not None and _refs(s.value, name, helpers))):
            viol.append(s)
        return set()
    if isinstance(s, ast.Raise):
        return set()
    if isinstance(s, ast.If):
        if _type_test(s.test):
            # comparing with an object of another type is decided without the low-level call
            outs = _walk(s.body, c, name, helpers, []) | _walk(s.orelse, c, name, helpers, [])
            return {True} if outs else set()
        c2 = c or _refs(s.test, name, helpers)
        return _walk(s.body, c2, name, helpers, viol) | _walk(s.orelse, c2, name, helpers, viol)
    if isinstance(s, (ast.For, ast.While)):
        hdr = s.iter if isinstance(s, ast.For) else s.test
        c2 = c or _refs(hdr, name, helpers)
        return {c2} | _walk(s.body, c2, name, helpers, viol) | _walk(s.orelse, c2, name, helpers, viol)
    if isinstance(s, ast.With):
        c2 = c or any(_refs(i.context_expr, name, helpers) for i in s.items)
        return _walk(s.body, c2, name, helpers, viol)
    if isinstance(s, ast.Try):
        o = _walk(s.body, c, name, helpers, viol)
        if s.orelse:
            o = set().union(*[_walk(s.orelse, c3, name, helpers, viol) for c3 in o]) if o else set()
        for h in s.handlers:
            o |= _walk(h.body, c, name, helpers, viol)
        if s.finalbody:
            o = set().union(*[_walk(s.finalbody, c3, name, helpers, viol) for c3 in o]) if o else set()
        return o
    if isinstance(s, (ast.FunctionDef, ast.ClassDef)):
        return {c}
    return {c or _refs(s, name, helpers)}


def ll_every_path(ctx, py, classes, rule="PY-LL-EVERY-PATH", floor=1, only=None):
    """classes: [(module, class)].  For every method X of the class that calls the low-level method of the same name
    (self._ll_*.X), every path through X that returns or falls off the end has passed that call (or a helper method of the
    class that makes it).  A `fast path` that answers without the C kernel is reported with the return it takes."""
    ctx.rule(rule, "a facade method that delegates to the low-level method of the same name does so on EVERY path that returns: no "
                   "early return, no branch and no zero-iteration loop bypasses the call (a comparison with an object of another "
                   "type is the one accepted bypass).  Fast paths that decide the answer in Python leave the kernel that the other "
                   "rules analyse")
    n = 0
    for mn, cls in classes:
        m = py.mod(mn)
        meths = {qn.split(".", 1)[1]: fn for qn, fn in m.funcs.items() if qn.startswith(cls + ".") and qn.count(".") == 1}
        for nm, fn in sorted(meths.items()):
            if only is not None and not only(mn, "%s.%s" % (cls, nm)):
                continue
            if not _refs(fn, nm, set()):
                continue
            # helper methods of the class that themselves reference ll.<nm>
            helpers = {h for h, hf in meths.items() if h != nm and _refs(hf, nm, set())}
            viol = []
            outs = _walk(fn.body, False, nm, helpers, viol)
            bad = viol[0] if viol else (fn if False in outs else None)
            n += 1
            ctx.ob(rule, "%s.%s" % (cls, nm), bad is None, m.loc(bad if bad is not None else fn),
                   "every returning path calls the low-level %s" % nm if bad is None else
                   "%s.%s can %s without calling the low-level %s" % (cls, nm, "return here" if viol else "fall off its end", nm))
    ctx.floor(rule, floor)
    return n


# ------------------------------------------------------------------------------------------------------------------------

def full_sort(ctx, py, rule="PY-FULL-SORT", floor=1):
    ctx.rule(rule, "the table transformations that finish with self.sort() sort everything: no internal call to TableCollection.sort "
                   "passes edge_start / site_start / mutation_start (those are for callers who KNOW a prefix is sorted; a "
                   "transformation of arbitrary valid input does not)")
    n = 0
    for mn in ("tables", "trees"):
        m = py.mod(mn)
        for qn, fn in m.funcs.items():
            for x in ast.walk(fn):
                if isinstance(x, ast.Call) and isinstance(x.func, ast.Attribute) and x.func.attr == "sort" \
                        and re.search(r"^(self|tables|tc|ret|new_tables)$|\.tables$|_tables$", ast.unparse(x.func.value)):
                    if qn.endswith(".sort"):
                        continue
                    n += 1
                    ok = not x.args and not x.keywords
                    ctx.ob(rule, "%s.%s|%s" % (mn, qn, ast.unparse(x.func.value)), ok, m.loc(x),
                           "full sort" if ok else "`%s` skips part of the sort in a transformation of arbitrary input" % ast.unparse(x)[:70])
    ctx.floor(rule, floor)
    return n


COORD_COLUMNS = {"left", "right", "position"}


def shift_kind(ctx, py, rule="PY-SHIFT-KIND", floor=3):
    ctx.rule(rule, "ltrim / rtrim / trim shift genome coordinates only: every `<column> - <shift>` (the shift is the local taken "
                   "from np.min / np.max of an edge coordinate, whatever it is called) names a left / right / position column "
                   "explicitly, or selects it by NAME from those three; times, ids and metadata are never selected by dtype or "
                   "position; and each of edges.left, edges.right, sites.position, migrations.left, migrations.right is shifted")
    m = py.mod("tables")
    n = 0
    for qn, fn in m.funcs.items():
        if qn.split(".")[-1] not in ("ltrim", "rtrim", "trim"):
            continue
        par = _parents(fn)
        # the shift: a local bound to the minimum / maximum of a coordinate column (resolved by role, not by spelling)
        shifts = set()
        for x in ast.walk(fn):
            if isinstance(x, ast.Assign) and len(x.targets) == 1 and isinstance(x.targets[0], ast.Name) and isinstance(x.value, ast.Call) \
                    and ast.unparse(x.value.func).split(".")[-1] in ("min", "max", "amin", "amax") \
                    and any(isinstance(y, ast.Attribute) and y.attr in COORD_COLUMNS for y in ast.walk(x.value)):
                shifts.add(x.targets[0].id)
        if not shifts:
            continue
        shifted, by_name = set(), False
        for x in ast.walk(fn):
            if isinstance(x, ast.BinOp) and isinstance(x.op, ast.Sub) and isinstance(x.right, ast.Name) and x.right.id in shifts:
                lhs = x.left
                if isinstance(lhs, ast.Attribute):
                    n += 1
                    ok = lhs.attr in COORD_COLUMNS | {"sequence_length"}
                    shifted.add(ast.unparse(lhs).replace("self.", ""))
                    ctx.ob(rule, "%s|%s" % (qn, ast.unparse(lhs)), ok, m.loc(x), "`%s` shifts a %s" % (ast.unparse(x), "coordinate" if ok else "NON-coordinate column"))
                else:
                    g, sel = x, None
                    while g in par:
                        g = par[g]
                        if isinstance(g, ast.If):
                            sel = g.test
                            break
                    names_ok = sel is not None and isinstance(sel, ast.Compare) and isinstance(sel.ops[0], ast.In) \
                        and isinstance(sel.comparators[0], (ast.Tuple, ast.List, ast.Set)) \
                        and all(isinstance(e, ast.Constant) and e.value in COORD_COLUMNS for e in sel.comparators[0].elts)
                    by_name = by_name or names_ok
                    n += 1
                    ctx.ob(rule, "%s|computed-operand" % qn, names_ok, m.loc(x),
                           "`%s` shifts columns selected by name" % ast.unparse(x) if names_ok else
                           "`%s` shifts columns selected by `%s`, not by name: a float time column is shifted too"
                           % (ast.unparse(x), ast.unparse(sel)[:50] if sel is not None else "nothing"))
        if qn.split(".")[-1] == "ltrim":
            for col in ("edges.left", "edges.right", "sites.position", "migrations.left", "migrations.right"):
                ok = col in shifted or by_name
                ctx.ob(rule, "%s|%s" % (qn, col), ok, m.loc(fn), "%s is shifted" % col if ok else
                       "%s is not shifted explicitly (and no by-name selection shifts it)" % col)
    ctx.ob(rule, "instances", n >= 1, m.rel, "%d shifted operands analysed" % n)
    # the precondition: migrations reaching beyond the edges on EITHER side make the shift produce coordinates outside [0, L]
    tc = m.funcs.get("TableCollection._check_trim_conditions")
    if tc is not None:
        for x in ast.walk(tc):
            if isinstance(x, ast.BoolOp):
                txt = [ast.unparse(v) for v in x.values]
                l = any("migrations.left" in t_ for t_ in txt)
                r = any("migrations.right" in t_ for t_ in txt)
                if l and r:
                    ok = isinstance(x.op, ast.Or)
                    ctx.ob(rule, "_check_trim_conditions|either-side", ok, m.loc(x),
                           "migrations beyond the leftmost OR the rightmost edge are refused" if ok else
                           "the two migration-bound tests are joined with `and`: migrations that overhang on one side only pass, and "
                           "ltrim gives them negative coordinates")
    return n


ROW_CLASSES = re.compile(r"(row_class|TableRow|^(Individual|Node|Edge|Site|Mutation|Migration|Population|Provenance)$)")


def row_eager(ctx, py, rule="PY-ROW-EAGER", floor=8):
    ctx.rule(rule, "a row object is a value fixed when it is fetched: every argument of a row constructor (row_class, <T>TableRow, "
                   "Edge / Node / Site …) is evaluated at the call; no lambda or local closure that reads the table or tree sequence "
                   "LATER is passed (the metadata decoder is the bound method of the schema current at fetch time)")
    n = 0
    for mn in ("tables", "trees"):
        m = py.mod(mn)
        for qn, fn in m.funcs.items():
            local_defs = {x.name for x in ast.walk(fn) if isinstance(x, ast.FunctionDef) and x is not fn}
            for x in ast.walk(fn):
                if isinstance(x, ast.Call) and ROW_CLASSES.search(ast.unparse(x.func).split(".")[-1]):
                    args = list(x.args) + [k.value for k in x.keywords]
                    late = [a for a in args if isinstance(a, ast.Lambda) or (isinstance(a, ast.Name) and a.id in local_defs)]
                    late = [a for a in late if not isinstance(a, ast.Lambda) or any(
                        isinstance(y, ast.Attribute) and isinstance(y.value, ast.Name) and y.value.id == "self" for y in ast.walk(a.body))]
                    n += 1
                    ctx.ob(rule, "%s.%s|%s" % (mn, qn, ast.unparse(x.func)), not late, m.loc(x),
                           "arguments evaluated at the call" if not late else
                           "`%s` is evaluated when the row is READ, against whatever the table holds then" % ast.unparse(late[0])[:60])
    ctx.floor(rule, floor)
    return n


MAPPING_MIXINS = {"__contains__", "keys", "items", "values", "get", "__eq__", "__ne__"}


def mapping_mixin(ctx, py, rule="PY-MAPPING-MIXIN", floor=1, mods=("tables", "intervals")):
    ctx.rule(rule, "classes derived from collections.abc.Mapping define __getitem__, __iter__ and __len__ and inherit the mixin methods "
                   "(__contains__, keys, items, values, get, __eq__) from them, so membership, iteration and lookup agree by "
                   "construction; an override of a mixin method must be written in terms of __getitem__ / __iter__")
    n = 0
    for mn in mods:
        m = py.mod(mn)
        for c in ast.walk(m.tree):
            if isinstance(c, ast.ClassDef) and any("Mapping" in ast.unparse(b) for b in c.bases):
                defined = {s.name: s for s in c.body if isinstance(s, ast.FunctionDef)}
                n += 1
                ctx.ob(rule, "%s|abstract" % c.name, {"__getitem__", "__iter__", "__len__"} <= set(defined), m.loc(c),
                       "%s defines __getitem__, __iter__, __len__" % c.name)
                for nm in sorted(MAPPING_MIXINS & set(defined)):
                    f = defined[nm]
                    via = any(isinstance(y, ast.Subscript) and isinstance(y.value, ast.Name) and y.value.id == "self" for y in ast.walk(f)) \
                        or any(isinstance(y, ast.Call) and ast.unparse(y.func) in ("iter", "self.__getitem__", "self.__iter__", "super().%s" % nm) for y in ast.walk(f)) \
                        or any(isinstance(y, (ast.For, ast.comprehension)) and ast.unparse(y.iter) == "self" for y in ast.walk(f))
                    n += 1
                    ctx.ob(rule, "%s|%s" % (c.name, nm), via, m.loc(f),
                           "%s.%s is written in terms of __getitem__ / __iter__" % (c.name, nm) if via else
                           "%s.%s overrides the Mapping mixin with its own lookup: membership can disagree with [] / iteration / len" % (c.name, nm))
    ctx.floor(rule, floor)
    return n


def root_threshold(ctx, py, rule="PY-ROOT-THRESHOLD", floor=1):
    ctx.rule(rule, "whether a node is a root depends on the tree's root_threshold option: in class Tree every comparison of "
                   "num_samples(<node>) is against self.root_threshold, never a literal (a literal 0 / 1 is the default threshold "
                   "hard-coded: trees built with root_threshold > 1 then disagree with roots / left_root / the sibling arrays)")
    m = py.mod("trees")
    n = 0
    for qn, fn in m.funcs.items():
        if not qn.startswith("Tree."):
            continue
        for x in ast.walk(fn):
            if isinstance(x, ast.Compare) and len(x.comparators) == 1:
                sides = [x.left, x.comparators[0]]
                ns = [s for s in sides if isinstance(s, ast.Call) and ast.unparse(s.func) in ("self.num_samples", "self.get_num_samples")]
                if not ns:
                    continue
                other = sides[1] if sides[0] is ns[0] else sides[0]
                n += 1
                ok = not isinstance(other, ast.Constant)
                ctx.ob(rule, "%s|%s" % (qn, ast.unparse(x)[:40]), ok, m.loc(x),
                       "`%s`" % ast.unparse(x) if ok else "`%s` hard-codes the root threshold" % ast.unparse(x))
    ctx.ob(rule, "instances", n >= floor, m.rel, "%d comparisons of num_samples() in class Tree" % n)
    return n


def diff_order(ctx, py, rule="PY-DIFF-ORDER", floor=1):
    ctx.rule(rule, "a Python consumer of edge_diffs that keeps per-parent state applies a transition's removals before its insertions "
                   "(the loop over edges_out is the earlier sibling of the loop over edges_in): the same (parent, child) pair may "
                   "leave and re-enter at one breakpoint, and insert-then-remove deletes it")
    n = 0
    for mn in ("trees", "stats", "tables"):
        m = py.mod(mn)
        for qn, fn in m.funcs.items():
            for blk in ast.walk(fn):
                body = getattr(blk, "body", None)
                if not isinstance(body, list):
                    continue
                outs = [i for i, s in enumerate(body) if isinstance(s, ast.For) and ast.unparse(s.iter) == "edges_out"]
                ins = [i for i, s in enumerate(body) if isinstance(s, ast.For) and ast.unparse(s.iter) == "edges_in"]
                if outs and ins:
                    n += 1
                    ok = outs[0] < ins[0]
                    ctx.ob(rule, "%s.%s" % (mn, qn), ok, m.loc(body[min(outs[0], ins[0])]),
                           "removals are applied before insertions" if ok else "insertions are applied before removals")
    ctx.ob(rule, "instances", n >= floor, "python/tskit/trees.py", "%d out/in loop pairs" % n)
    return n


def alloc_domain(fn):
    """[(node, message)]: a local array allocated with one row count (np.zeros(self.num_nodes …)) is sliced or looped with
    another (`[: self.num_samples]`): positions in a per-node array are node ids, not sample indexes."""
    out = []
    dom = {}
    cnt = re.compile(r"\bnum_(nodes|samples|edges|sites|mutations|individuals|populations|migrations|trees)\b")
    for x in ast.walk(fn):
        if isinstance(x, ast.Assign) and len(x.targets) == 1 and isinstance(x.targets[0], ast.Name) and isinstance(x.value, ast.Call) \
                and ast.unparse(x.value.func) in ("np.zeros", "np.ones", "np.empty", "np.full", "np.zeros_like"):
            if not x.value.args:
                continue
            a0 = x.value.args[0]
            first = a0.elts[0] if isinstance(a0, ast.Tuple) and a0.elts else a0
            ms = cnt.findall(ast.unparse(first))
            if len(set(ms)) == 1:
                dom[x.targets[0].id] = ms[0]
    # names that hold NODE ids: handed on as `nodes=` / `samples=` keyword, or iterated from self.samples()
    node_ids = set()
    for x in ast.walk(fn):
        if isinstance(x, ast.Call):
            for kw in x.keywords:
                if kw.arg in ("nodes", "samples", "focal") and isinstance(kw.value, ast.Name):
                    node_ids.add(kw.value.id)
    for x in ast.walk(fn):
        if isinstance(x, ast.Subscript) and isinstance(x.value, ast.Name) and x.value.id in dom:
            sl = x.slice.elts[0] if isinstance(x.slice, ast.Tuple) and x.slice.elts else x.slice
            if isinstance(sl, ast.Name) and sl.id in node_ids and dom[x.value.id] == "samples":
                out.append((x, "`%s` indexes an array with one row per SAMPLE by `%s`, which holds node ids (it is passed on as a "
                            "nodes= / samples= argument): rows land at the node id, not at the sample's index" % (ast.unparse(x)[:40], sl.id)))
            if isinstance(sl, ast.Slice):
                for b in (sl.lower, sl.upper):
                    if b is not None:
                        ms = set(cnt.findall(ast.unparse(b)))
                        if ms and ms != {dom[x.value.id]}:
                            out.append((x, "`%s` cuts an array with one entry per %s at a count of %s: the positions are %s ids" % (
                                ast.unparse(x)[:50], dom[x.value.id][:-1], sorted(ms)[0], dom[x.value.id][:-1])))
    return out


def validation_bypass(ctx, py, rule="PY-BYPASS"):
    ctx.rule(rule, "row validation is skipped (MetadataSchema._bypass_validation) only for a schema that cannot reject anything: every "
                   "is_schema_trivial implementation decides on the WHOLE schema (its key set / length) or returns False; one that "
                   "inspects a single keyword (`properties`) lets schemas through whose other keywords (required, "
                   "additionalProperties, type …) would have rejected the object")
    m = py.mod("metadata")
    n = 0
    for qn, fn in m.funcs.items():
        if not qn.endswith(".is_schema_trivial"):
            continue
        for r in ast.walk(fn):
            if isinstance(r, ast.Return) and r.value is not None:
                v = r.value
                n += 1
                if isinstance(v, ast.Constant) and v.value is False:
                    ctx.ob(rule, qn, True, m.loc(r), "never bypasses")
                    continue
                txt = ast.unparse(v)
                whole = re.search(r"schema\.keys\(\)|set\(schema\)|len\(schema\)|schema\s*==", txt) is not None
                single = re.findall(r"schema\.get\(\s*'(\w+)'|schema\[\s*'(\w+)'\s*\]", txt)
                ctx.ob(rule, qn, whole and not single, m.loc(r),
                       "`%s` decides on the whole schema" % txt[:60] if (whole and not single) else
                       "`%s` decides on %s only: any other validation keyword is bypassed" % (txt[:60], [a or b for a, b in single] or "part of the schema"))
    # and the flag is consulted exactly where validation is invoked
    ve = m.funcs.get("MetadataSchema.validate_and_encode_row")
    ok = ve is not None and "self._bypass_validation" in ast.unparse(ve) and "self._validate_row" in ast.unparse(ve)
    ctx.ob(rule, "validate_and_encode_row|guard", ok, m.loc(ve) if ve else m.rel, "validate_and_encode_row calls _validate_row unless _bypass_validation")
    ctx.ob(rule, "instances", n >= 2, m.rel, "%d is_schema_trivial implementations analysed" % n)
    return n


def virtual_root_lists(ctx, py, rule="PY-VIRTUAL-ROOT"):
    ctx.rule(rule, "the sample-list arrays (left_sample / right_sample / next_sample) are maintained for real nodes only: every Tree "
                   "method that walks them for a node supplied by the caller is reached for the virtual root only through the roots "
                   "(Tree.samples maps `u == self.virtual_root` to self.roots before it calls the list walker); otherwise "
                   "samples(virtual_root) is empty while num_samples(virtual_root) counts every sample")
    m = py.mod("trees")
    walker = m.funcs.get("Tree._sample_generator")
    ctx.ob(rule, "walker", walker is not None and "left_sample" in ast.unparse(walker), m.loc(walker) if walker else m.rel,
           "Tree._sample_generator walks left_sample / right_sample")
    n = 0
    for qn, fn in m.funcs.items():
        if not qn.startswith("Tree.") or qn == "Tree._sample_generator":
            continue
        for c in ast.walk(fn):
            if isinstance(c, ast.Call) and ast.unparse(c.func) == "self._sample_generator":
                n += 1
                src = ast.unparse(fn)
                ok = re.search(r"==\s*self\.virtual_root|self\.virtual_root\s*==", src) is not None and "self.roots" in src
                ctx.ob(rule, qn, ok, m.loc(c), "the virtual root is replaced by the roots before the list walker runs" if ok else
                       "%s hands the caller's node to the sample-list walker without mapping the virtual root to the roots" % qn)
    ctx.ob(rule, "instances", n >= 1, m.rel, "%d callers of the sample-list walker" % n)
    return n


def sample_row_index(ctx, py, rule="PY-SAMPLE-INDEX", mod="trees", cls="TreeSequence"):
    """An array with one row per SAMPLE is indexed by sample index, never by node id.  Node-id names are those passed on as
    nodes= / samples= / focal= keyword arguments; the kind is propagated one call down (self.f(x, ids) makes f's parameter a
    node-id name)."""
    ctx.rule(rule, "in TreeSequence methods an array allocated with num_samples rows is not subscripted with a name that holds node ids "
                   "(a name the same function, or its caller, hands on as nodes= / samples= / focal=): sample k is row k, whatever its "
                   "node id is – with samples that are not nodes 0..n-1 the rows land elsewhere or out of bounds")
    m = py.mod(mod)
    meths = {qn.split(".", 1)[1]: fn for qn, fn in m.funcs.items() if qn.startswith(cls + ".") and qn.count(".") == 1}
    kinds = {}
    for nm, fn in meths.items():
        ids = set()
        for x in ast.walk(fn):
            if isinstance(x, ast.Call):
                for kw in x.keywords:
                    if kw.arg in ("nodes", "samples", "focal") and isinstance(kw.value, ast.Name):
                        ids.add(kw.value.id)
        kinds[nm] = ids
    # one level down
    for nm, fn in meths.items():
        for x in ast.walk(fn):
            if isinstance(x, ast.Call) and isinstance(x.func, ast.Attribute) and isinstance(x.func.value, ast.Name) and x.func.value.id == "self" \
                    and x.func.attr in meths:
                callee_fn = meths[x.func.attr]
                params = [p_.arg for p_ in callee_fn.args.args if p_.arg != "self"]
                for i, a_ in enumerate(x.args):
                    if isinstance(a_, ast.Name) and a_.id in kinds[nm] and i < len(params):
                        kinds[x.func.attr] = kinds[x.func.attr] | {params[i]}
    n = 0
    cnt = re.compile(r"\bnum_samples\b")
    for nm, fn in sorted(meths.items()):
        dom = set()
        for x in ast.walk(fn):
            if isinstance(x, ast.Assign) and len(x.targets) == 1 and isinstance(x.targets[0], ast.Name) and isinstance(x.value, ast.Call) \
                    and ast.unparse(x.value.func) in ("np.zeros", "np.ones", "np.empty", "np.full") and x.value.args:
                a0 = x.value.args[0]
                first = a0.elts[0] if isinstance(a0, ast.Tuple) and a0.elts else a0
                if cnt.search(ast.unparse(first)):
                    dom.add(x.targets[0].id)
        for x in ast.walk(fn):
            if isinstance(x, ast.Subscript) and isinstance(x.value, ast.Name) and x.value.id in dom:
                sl = x.slice.elts[0] if isinstance(x.slice, ast.Tuple) and x.slice.elts else x.slice
                if isinstance(sl, ast.Name):
                    n += 1
                    bad = sl.id in kinds[nm]
                    ctx.ob(rule, "%s.%s|%s[%s]" % (cls, nm, x.value.id, sl.id), not bad, m.loc(x),
                           "`%s` is indexed by sample index" % ast.unparse(x)[:40] if not bad else
                           "`%s`: `%s` has one row per sample and `%s` holds node ids" % (ast.unparse(x)[:40], x.value.id, sl.id))
    ctx.ob(rule, "instances", True, m.rel, "%d subscripts of per-sample arrays analysed" % n)
    return n


def open_mode(ctx, py, rule="PY-OPEN-MODE"):
    ctx.rule(rule, "util.convert_file_like_to_open_file opens a path with exactly the mode it was asked for: every open() / os.fdopen() "
                   "in it passes the `mode` parameter itself (a literal or computed mode – \"r+b\" for an existing file – would leave "
                   "the old tail of a longer file behind a shorter dump, so that prefixes of the file load)")
    m = py.mod("util")
    fn = m.funcs.get("convert_file_like_to_open_file")
    if fn is None:
        ctx.need(False, "util.convert_file_like_to_open_file")
    n = 0
    for c in ast.walk(fn):
        if isinstance(c, ast.Call) and ast.unparse(c.func) in ("open", "os.fdopen", "io.open"):
            n += 1
            md = c.args[1] if len(c.args) > 1 else next((k.value for k in c.keywords if k.arg == "mode"), None)
            ok = isinstance(md, ast.Name) and md.id == "mode"
            ctx.ob(rule, "open@%d" % n, ok, m.loc(c), "`%s` uses the requested mode" % ast.unparse(c)[:50] if ok else
                   "`%s` does not pass the caller's mode" % ast.unparse(c)[:60])
    ctx.ob(rule, "instances", n >= 1, m.rel, "%d open calls" % n)
    return n


def sample_membership(fn):
    """[(node, message)]: `u in A` where u runs over range(num_samples) (a sample INDEX) and A is a sample set (node IDs)."""
    out = []
    a = fn.args
    if "sample_sets" not in {p_.arg for p_ in a.args + a.kwonlyargs}:
        return out
    for comp in ast.walk(fn):
        gens = comp.generators if isinstance(comp, (ast.ListComp, ast.GeneratorExp, ast.SetComp)) else None
        loops = [(g.target, g.iter) for g in gens] if gens else ([(comp.target, comp.iter)] if isinstance(comp, ast.For) else [])
        for tgt, it in loops:
            if isinstance(tgt, ast.Name) and isinstance(it, ast.Call) and ast.unparse(it.func) == "range" and "num_samples" in ast.unparse(it):
                for c in ast.walk(comp):
                    if isinstance(c, ast.Compare) and isinstance(c.left, ast.Name) and c.left.id == tgt.id and any(isinstance(o, (ast.In, ast.NotIn)) for o in c.ops):
                        out.append((c, "`%s`: `%s` runs over range(num_samples) – a sample INDEX – but sample sets hold node IDs "
                                    "(iterate self.samples())" % (ast.unparse(c)[:40], tgt.id)))
    # the vectorised spelling: np.isin(np.arange(num_samples), A)
    for c in ast.walk(fn):
        if isinstance(c, ast.Call) and ast.unparse(c.func) in ("np.isin", "np.in1d", "numpy.isin") and c.args \
                and isinstance(c.args[0], ast.Call) and ast.unparse(c.args[0].func) in ("np.arange", "range") and "num_samples" in ast.unparse(c.args[0]):
            out.append((c, "`%s` matches sample INDEXES 0..n-1 against a set of node IDs (use self.samples())" % ast.unparse(c)[:50]))
    return out[:1]


# (function, parameter): narrowing conversions confirmed by reading to be deliberate and not applied to caller-supplied ids
UNSAFE_CAST_OK = {("keep_with_offset", "offset"),      # row LENGTHS of a ragged column, int32 on purpose ("for 32 bit machines": np.repeat counts)
                  }


def unsafe_int_cast(fn):
    """[(node, message)]: a caller-supplied id array narrowed with np.array(p, dtype=np.int32) / p.astype(np.int32): values that
    do not fit wrap around and floats truncate, silently.  util.safe_np_int_cast raises instead."""
    out = []
    params = {p_.arg for p_ in fn.args.posonlyargs + fn.args.args + fn.args.kwonlyargs} - {"self", "cls"}
    narrow = re.compile(r"\b(u?int(8|16|32))\b")
    for x in ast.walk(fn):
        if not isinstance(x, ast.Call):
            continue
        f = ast.unparse(x.func)
        if f in ("np.array", "np.asarray", "np.ascontiguousarray", "numpy.array") and x.args and isinstance(x.args[0], ast.Name) \
                and x.args[0].id in params and any(k.arg == "dtype" and narrow.search(ast.unparse(k.value)) for k in x.keywords):
            out.append((x, "`%s` narrows the caller's `%s` without a range check (use util.safe_np_int_cast): 2**32 + k becomes k, 1.7 becomes 1"
                        % (ast.unparse(x)[:50], x.args[0].id)))
        elif isinstance(x.func, ast.Attribute) and x.func.attr == "astype" and x.args and narrow.search(ast.unparse(x.args[0])) \
                and (_names(x.func.value) & params) and not ({(fn.name, n_) for n_ in _names(x.func.value)} & UNSAFE_CAST_OK):
            out.append((x, "`%s` narrows the caller's `%s` without a range check (use util.safe_np_int_cast)"
                        % (ast.unparse(x)[:50], sorted(_names(x.func.value) & params)[0])))
    return out


def flag_equality(fn):
    """[(node, message)]: a flags word compared with `==` to one flag constant: any other bit set (a user flag) makes it unequal."""
    out = []
    for x in ast.walk(fn):
        if isinstance(x, ast.Compare) and len(x.ops) == 1 and isinstance(x.ops[0], (ast.Eq, ast.NotEq)):
            l, r = ast.unparse(x.left), ast.unparse(x.comparators[0])
            for a_, b_ in ((l, r), (r, l)):
                if re.search(r"flags(\[.*\])?$", a_) and re.search(r"(NODE_IS_SAMPLE|\bNODE_[A-Z_]+|_FLAG\b)", b_) and "&" not in a_:
                    out.append((x, "`%s` compares a flags word for equality with one flag: a node that carries any other bit is "
                                "missed (test `flags & FLAG`)" % ast.unparse(x)[:50]))
    return out[:1]


def sort_last(ctx, py, rule="PY-SORT-LAST"):
    ctx.rule(rule, "load_text repairs the row order once everything has been parsed: its call to <tables>.sort() comes after every "
                   "parse_* call that fills a table of the collection and directly feeds tree_sequence(); rows parsed after the "
                   "sort (migrations, most easily) reach the tree sequence unsorted")
    m = py.mod("trees")
    fn = m.funcs.get("load_text")
    if fn is None:
        ctx.need(False, "trees.load_text")
    sorts = [c for c in ast.walk(fn) if isinstance(c, ast.Call) and isinstance(c.func, ast.Attribute) and c.func.attr == "sort"]
    parses = [c for c in ast.walk(fn) if isinstance(c, ast.Call) and ast.unparse(c.func).startswith("parse_")]
    ok = len(sorts) == 1 and bool(parses) and all(p_.lineno < sorts[0].lineno for p_ in parses)
    late = [p_ for p_ in parses if sorts and p_.lineno > sorts[0].lineno]
    ctx.ob(rule, "load_text|sort-after-parse", ok, m.loc(late[0] if late else (sorts[0] if sorts else fn)),
           "sort() follows all %d parse_* calls" % len(parses) if ok else
           ("`%s` runs after the repair sort" % ast.unparse(late[0].func) if late else "load_text has %d sort() calls" % len(sorts)))
    return 1


_SCALARISERS = ("int", "float", "len", "bool", "str", "bytes", "tuple", "frozenset")


def cache_escape(fn):
    """[(node, message)]: a method stores the result of a call on `self._x` (a lazily filled cache) and returns that very object:
    every caller gets the same mutable array, and an in-place edit by one changes what all later calls return.  Accepted: the
    cached object is frozen (`.flags.writeable = False` / `setflags(write=False)`), immutable by construction (int / float /
    tuple …), or a copy is returned."""
    out = []
    cached = {}
    for x in ast.walk(fn):
        if isinstance(x, ast.Assign) and len(x.targets) == 1 and isinstance(x.targets[0], ast.Attribute) \
                and isinstance(x.targets[0].value, ast.Name) and x.targets[0].value.id == "self" and x.targets[0].attr.startswith("_") \
                and isinstance(x.value, ast.Call) and ast.unparse(x.value.func).split(".")[-1] not in _SCALARISERS:
            # only LAZY caches: the assignment sits under `if self._x is None`
            cached[x.targets[0].attr] = x
    if not cached:
        return out
    src = ast.unparse(fn)
    alias = {}
    for x in ast.walk(fn):
        if isinstance(x, ast.Assign) and len(x.targets) == 1 and isinstance(x.targets[0], ast.Name) and isinstance(x.value, ast.Attribute) \
                and isinstance(x.value.value, ast.Name) and x.value.value.id == "self" and x.value.attr in cached:
            alias[x.targets[0].id] = x.value.attr
    for r in ast.walk(fn):
        if not isinstance(r, ast.Return) or r.value is None:
            continue
        v = r.value
        attr = v.attr if (isinstance(v, ast.Attribute) and isinstance(v.value, ast.Name) and v.value.id == "self") else \
            alias.get(v.id) if isinstance(v, ast.Name) else None
        if attr in cached and re.search(r"if self\.%s is None" % re.escape(attr), src):
            frozen = re.search(r"writeable\s*=\s*False|setflags\(write=False\)", src) is not None
            if not frozen:
                out.append((r, "`self.%s` caches the result of `%s` and is returned itself: callers share one mutable object "
                            "(freeze it or return a copy)" % (attr, ast.unparse(cached[attr].value)[:40])))
    return out[:1]


def return_before_check(fn):
    """[(node, message)]: in one block, `if <test over p>: return …` comes BEFORE `if <test over p>: raise …`: the early return
    answers for inputs that the later argument check would have refused."""
    out = []
    params = {p_.arg for p_ in fn.args.posonlyargs + fn.args.args + fn.args.kwonlyargs} - {"self", "cls"}
    if not params:
        return out
    # names derived from a parameter by a conversion (index = np.asarray(index)) stay that parameter
    for blk in ast.walk(fn):
        body = getattr(blk, "body", None)
        if not isinstance(body, list):
            continue
        for i, s_ in enumerate(body):
            if not (isinstance(s_, ast.If) and not s_.orelse and s_.body and isinstance(s_.body[-1], ast.Return) and s_.body[-1].value is not None):
                continue
            names_i = _names(s_.test) & params
            if not names_i:
                continue
            for t_ in body[i + 1:]:
                if isinstance(t_, ast.If) and t_.body and isinstance(t_.body[0], ast.Raise) and (_names(t_.test) & names_i) \
                        and any(isinstance(c, ast.Call) and ast.unparse(c.func) == "len" for c in ast.walk(t_.test)):
                    out.append((s_, "`if %s: return …` precedes the check `if %s: raise …` of the same argument: inputs the check "
                                "would refuse are answered by the shortcut" % (ast.unparse(s_.test)[:40], ast.unparse(t_.test)[:40])))
                    break
    return out[:1]
