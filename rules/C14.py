"""C14 - subset and union retain exactly the referenced data and invert each other (structural clauses)."""
from __future__ import annotations

from . import scopes, lib_schema, lib_module, lib_py, lib_guards, lib_gate, lib_err, lib_mem, lib_kind, lib_kind4

LEVEL = "other"
EXPLANATION = ("Entry integrity gates on both operands, exact node-list / node-mapping guards, option plumbing with polarity and "
               "consumption, row-forwarding completeness and argument agreement in subset / add_and_remap_node / union, loop-counter "
               "/ column domain agreement (no self column indexed by a counter over other's rows), C-contiguous node arrays, "
               "post-merge sort/deduplicate/compute-parents. Does not decide exact retention or the subset/union inverse law.")
FUNCS = {"tsk_table_collection_subset", "tsk_table_collection_union", "tsk_table_collection_add_and_remap_node", "tsk_check_subset_equality"}


def run(ctx):
    P = ctx.program()
    py = ctx.python()
    ps, ms = scopes.py_scope("C14"), scopes.module_scope("C14")
    su = lambda f: f in FUNCS
    lib_gate.gate(ctx, P, only={"tsk_table_collection_subset", "tsk_table_collection_union", "tsk_check_subset_equality"})
    seen = lib_guards.analyse(ctx, P, funcs=FUNCS)
    lib_guards.presence(ctx, seen, funcs=FUNCS, P=P)
    lib_module.options_plumbing(ctx, P, funcs={"TableCollection_subset", "TableCollection_union", "TableCollection_canonicalise"})
    lib_module.flags_consumed(ctx, P, funcs={"TableCollection_subset", "TableCollection_union", "TableCollection_canonicalise"})
    lib_module.array_flags(ctx, P, only=ms)
    lib_module.parsed_used(ctx, P, only=ms)
    lib_schema.argname(ctx, P, tus=("tables",), funcs=su)
    lib_schema.row_forwarding(ctx, P, tus=("tables",), funcs=su)
    lib_schema.column_domain(ctx, P, funcs=su)
    lib_err.discipline(ctx, P, ["tables"], funcs=FUNCS)
    lib_py.kw_forward(ctx, py, mods=("trees", "tables"), only=ps)
    lib_py.unused_params(ctx, py, mods=("trees", "tables"), only=ps)
    lib_kind.py_lints(ctx, py, mods=("trees", "tables"), only=ps)
    lib_kind4.full_sort(ctx, py)
    lib_py.ll_positional(ctx, py, P, only=ps)
    lib_py.gate_before_return(ctx, py, ["subset", "union"])
    # union post-processing and flag consumption
    from sa.schema import Facts
    from sa.expr import walk, estr
    import re
    rule = "UNION-POST"
    ctx.rule(rule, "tsk_table_collection_union checks the shared portion unless TSK_UNION_NO_CHECK_SHARED, and after merging sorts, "
                   "deduplicates sites, rebuilds the index and recomputes mutation parents; every subset/union flag is tested")
    tu = P.tus["tables"]
    fn = P.need("tsk_table_collection_union", "tables")
    F = Facts(P, fn)
    for cal in ("tsk_table_collection_sort", "tsk_table_collection_deduplicate_sites", "tsk_table_collection_build_index",
                "tsk_table_collection_compute_mutation_parents"):
        ctx.ob(rule, "union|" + cal, bool(F.calls_to(cal)), tu.loc(fn.node), "%s called after the merge" % cal)
    hits = F.calls_to("tsk_check_subset_equality")
    from sa.guards import single_def
    ok = False
    if hits:
        for i, br in F.enclosing_ifs(hits[0][1]):
            c = F.tu.src(i.kids[0])
            if "TSK_UNION_NO_CHECK_SHARED" in c:
                ok = True
            for ident in re.findall(r"[A-Za-z_]\w*", c):
                d = single_def(fn, ident)
                if d is not None and "TSK_UNION_NO_CHECK_SHARED" in F.tu.src(d) and F.tu.src(d).strip().startswith("!"):
                    ok = True
    ctx.ob(rule, "union|check-shared", ok, tu.loc(fn.node), "shared-portion equality checked unless TSK_UNION_NO_CHECK_SHARED")
    body = tu.src(fn.body) + tu.src(P.need("tsk_table_collection_subset", "tables").body)
    for fl in ("TSK_UNION_NO_CHECK_SHARED", "TSK_UNION_NO_ADD_POP", "TSK_SUBSET_NO_CHANGE_POPULATIONS", "TSK_SUBSET_KEEP_UNREFERENCED"):
        ctx.ob(rule, "consumed|" + fl, len(re.findall(r"&\s*%s\b" % fl, body)) >= 1, tu.loc(fn.node), "%s is tested" % fl)
    # the shared-portion comparison ignores exactly what the documentation says it ignores
    fe = P.need("tsk_check_subset_equality", "tables")
    FE = Facts(P, fe)
    eq = FE.calls_to("tsk_table_collection_equals")
    flags = set(re.findall(r"TSK_CMP_\w+", tu.src(eq[0][1]))) if eq else set()
    want = {"TSK_CMP_IGNORE_TS_METADATA", "TSK_CMP_IGNORE_PROVENANCE", "TSK_CMP_IGNORE_REFERENCE_SEQUENCE"}
    ctx.ob(rule, "shared-equality|options", flags == want, tu.loc(eq[0][1]) if eq else tu.loc(fe.node),
           "shared portions are compared ignoring exactly top-level metadata, provenance and the reference sequence (found %s)" % sorted(flags))
    # the two node lists that define the shared portions are filled pairwise: self's from the mapping, other's with the loop id
    esrc = " ".join(tu.src(fe.body).split())
    ok_self = re.search(r"self_nodes\[(\w+)\] = other_node_mapping\[(\w+)\]", esrc)
    ok_other = re.search(r"other_nodes\[(\w+)\] = (\w+);", esrc)
    pair_ok = bool(ok_self and ok_other and ok_self.group(1) == ok_other.group(1) and ok_self.group(2) == ok_other.group(2)
                   and ok_other.group(1) != ok_other.group(2))
    ctx.ob(rule, "shared-equality|node-lists", pair_ok, tu.loc(fe.node),
           "self_nodes[i] = other_node_mapping[k] is paired with other_nodes[i] = k" if pair_ok else
           "the shared node lists are not filled pairwise (%s / %s): other's shared portion is subset on the wrong nodes"
           % (ok_self.group(0) if ok_self else "?", ok_other.group(0) if ok_other else "?"))
    # individuals reachable through SHARED nodes are mapped onto self's individuals before any new node is added
    loops = [x for x in walk(fn.body) if x.k == "ForStmt"]
    adds = FE and [n_ for c_, a_, n_ in F.calls if c_ == "tsk_table_collection_add_and_remap_node"]
    pre = None
    for lp in loops:
        for x in walk(lp.kids[-1]):
            if x.k == "BinaryOperator" and x.op == "=" and estr(x.kids[0]).startswith("individual_map[") \
                    and re.search(r"self->nodes\.individual\[other_node_mapping\[", estr(x.kids[1])):
                pre = (lp, x)
    okp = pre is not None and bool(adds) and pre[0].e <= adds[0].b and not any(y is adds[0] for y in walk(pre[0]))
    ctx.ob(rule, "union|shared-individuals-first", okp, tu.loc(pre[1]) if pre else tu.loc(fn.node),
           "individual_map is filled from the shared nodes in a loop that ends before the first node is added" if okp else
           "the mapping of individuals attached to shared nodes is not completed before nodes are added: an individual that owns a "
           "shared and a new node is duplicated when the new node comes first")
    # an edge of `other` is copied when EITHER end is new to self (new ancestors above shared nodes included)
    adds_e = [n_ for c_, a_, n_ in F.calls if c_ == "tsk_edge_table_add_row"]
    if adds_e:
        conds = [" ".join(tu.src(i.kids[0]).split()) for i, br in F.enclosing_ifs(adds_e[0])]
        flat = " ".join(conds)
        oke = re.search(r"other_node_mapping\[edge\.parent\] == TSK_NULL", flat) is not None and \
            re.search(r"other_node_mapping\[edge\.child\] == TSK_NULL", flat) is not None and "||" in flat
        ctx.ob(rule, "union|edge-condition", oke, tu.loc(adds_e[0]),
               "an edge is added when its parent OR its child is new" if oke else
               "edges are added only under %s: edges whose other end is the new node are dropped" % conds)
    lib_mem.c_lints(ctx, ctx.program(), scopes.lib_scope("C14"))
    from . import lib_kind5
    lib_kind5.validate_before_clear(ctx, ctx.program())
