"""C14 - subset and union retain exactly the referenced data and invert each other (structural clauses)."""
from __future__ import annotations

from . import scopes, lib_schema, lib_module, lib_py, lib_guards, lib_gate, lib_err, lib_mem, lib_kind

LEVEL = "other"
EXPLANATION = ("Entry integrity gates on both operands, exact node-list / node-mapping guards, option plumbing with polarity and "
               "consumption, row-forwarding completeness and argument agreement in subset / add_and_remap_node / union, loop-counter "
               "/ column domain agreement (no self column indexed by a counter over other's rows), C-contiguous node arrays, "
               "post-merge sort/deduplicate/compute-parents. Does not decide exact retention or the subset/union inverse law.")
FUNCS = {"tsk_table_collection_subset", "tsk_table_collection_union", "tsk_table_collection_add_and_remap_node", "tsk_check_subset_equality"}


def run(ctx):
    P = ctx.program()
    py = ctx.python()
    ps, ms = scopes.py_scope("C14"), scopes.module_scope("C14")
    su = lambda f: f in FUNCS
    lib_gate.gate(ctx, P, only={"tsk_table_collection_subset", "tsk_table_collection_union", "tsk_check_subset_equality"})
    seen = lib_guards.analyse(ctx, P, funcs=FUNCS)
    lib_guards.presence(ctx, seen, funcs=FUNCS, P=P)
    lib_module.options_plumbing(ctx, P, funcs={"TableCollection_subset", "TableCollection_union", "TableCollection_canonicalise"})
    lib_module.flags_consumed(ctx, P, funcs={"TableCollection_subset", "TableCollection_union", "TableCollection_canonicalise"})
    lib_module.array_flags(ctx, P, only=ms)
    lib_module.parsed_used(ctx, P, only=ms)
    lib_schema.argname(ctx, P, tus=("tables",), funcs=su)
    lib_schema.row_forwarding(ctx, P, tus=("tables",), funcs=su)
    lib_schema.column_domain(ctx, P, funcs=su)
    lib_err.discipline(ctx, P, ["tables"], funcs=FUNCS)
    lib_py.kw_forward(ctx, py, mods=("trees", "tables"), only=ps)
    lib_py.unused_params(ctx, py, mods=("trees", "tables"), only=ps)
    lib_kind.py_lints(ctx, py, mods=("trees", "tables"), only=ps)
    lib_py.ll_positional(ctx, py, P, only=ps)
    lib_py.gate_before_return(ctx, py, ["subset", "union"])
    # union post-processing and flag consumption
    from sa.schema import Facts
    import re
    rule = "UNION-POST"
    ctx.rule(rule, "tsk_table_collection_union checks the shared portion unless TSK_UNION_NO_CHECK_SHARED, and after merging sorts, "
                   "deduplicates sites, rebuilds the index and recomputes mutation parents; every subset/union flag is tested")
    tu = P.tus["tables"]
    fn = P.need("tsk_table_collection_union", "tables")
    F = Facts(P, fn)
    for cal in ("tsk_table_collection_sort", "tsk_table_collection_deduplicate_sites", "tsk_table_collection_build_index",
                "tsk_table_collection_compute_mutation_parents"):
        ctx.ob(rule, "union|" + cal, bool(F.calls_to(cal)), tu.loc(fn.node), "%s called after the merge" % cal)
    hits = F.calls_to("tsk_check_subset_equality")
    from sa.guards import single_def
    ok = False
    if hits:
        for i, br in F.enclosing_ifs(hits[0][1]):
            c = F.tu.src(i.kids[0])
            if "TSK_UNION_NO_CHECK_SHARED" in c:
                ok = True
            for ident in re.findall(r"[A-Za-z_]\w*", c):
                d = single_def(fn, ident)
                if d is not None and "TSK_UNION_NO_CHECK_SHARED" in F.tu.src(d) and F.tu.src(d).strip().startswith("!"):
                    ok = True
    ctx.ob(rule, "union|check-shared", ok, tu.loc(fn.node), "shared-portion equality checked unless TSK_UNION_NO_CHECK_SHARED")
    body = tu.src(fn.body) + tu.src(P.need("tsk_table_collection_subset", "tables").body)
    for fl in ("TSK_UNION_NO_CHECK_SHARED", "TSK_UNION_NO_ADD_POP", "TSK_SUBSET_NO_CHANGE_POPULATIONS", "TSK_SUBSET_KEEP_UNREFERENCED"):
        ctx.ob(rule, "consumed|" + fl, len(re.findall(r"&\s*%s\b" % fl, body)) >= 1, tu.loc(fn.node), "%s is tested" % fl)
    lib_mem.c_lints(ctx, ctx.program(), scopes.lib_scope("C14"))
