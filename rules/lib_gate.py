"""Rule GATE (C09.6): no Python-reachable path indexes arrays with ids loaded from an UNCHECKED
table collection.  See sa/gate.py for the summaries."""
from __future__ import annotations

from sa.cfront import LIB_TUS
from sa.expr import calls, callee, walk
from sa.gate import GateAnalysis, GATE_FN


def gate(ctx, P, rule="GATE", only=None):
    ctx.rule(rule, "every libtskit function a module method calls on a raw table collection either passes "
                   "tsk_table_collection_check_integrity before any array is indexed by an id loaded from a table column, "
                   "or range-tests that id locally (summaries NEEDS/GATES to a fixpoint over the call graph)")
    G = GateAnalysis(P, LIB_TUS)
    ctx.unit("gate_universe_functions", len(G.universe))
    tu = P.tus["module"]
    n = 0
    for fn in tu.funcs.values():
        for c in calls(fn.body):
            nm = callee(c)
            if nm in G.universe:
                if only is not None and nm not in only:
                    continue
                need = G.NEEDS.get(nm)
                n += 1
                ctx.ob(rule, "%s->%s" % (fn.name, nm), need is None, tu.loc(c),
                       "gated or index-free" if need is None else
                       "reaches an id-indexed access with no integrity gate: " + G.chain(nm))
    # who may pass TSK_NO_CHECK_INTEGRITY: nobody in the library or the module
    rule2 = "GATE-NOSKIP"
    ctx.rule(rule2, "TSK_NO_CHECK_INTEGRITY is never passed by library or module code (only a caller that already "
                    "passed the gate may skip it, and no such caller exists)")
    for key in LIB_TUS + ["module"]:
        t = P.tus[key]
        for f in t.funcs.values():
            for c in calls(f.body):
                for a in c.kids[1:]:
                    if a is not None and "TSK_NO_CHECK_INTEGRITY" in t.src(a):
                        ctx.ob(rule2, "%s|%s" % (f.name, callee(c)), False, t.loc(c),
                               "passes TSK_NO_CHECK_INTEGRITY to %s" % callee(c))
    srt = P.need("tsk_table_sorter_init", "tables")
    t = P.tus["tables"]
    has_cond = any(x.k == "IfStmt" and "TSK_NO_CHECK_INTEGRITY" in t.src(x.kids[0]) for x in walk(srt.body))
    ctx.ob(rule2, "tsk_table_sorter_init|optional-gate", has_cond or G.GATES.get("tsk_table_sorter_init", False),
           t.loc(srt.node), "sorter gate is unconditional or guarded only by TSK_NO_CHECK_INTEGRITY")
    # the gates confirmed by reading must still gate
    rule3 = "GATE-SUMMARY"
    ctx.rule(rule3, "functions confirmed by reading to pass the integrity gate on every non-error path still do")
    for nm in CONFIRMED_GATES:
        if only is not None and nm not in only:
            continue
        ctx.ob(rule3, nm, bool(G.GATES.get(nm)), "c/tskit/tables.c (%s)" % nm,
               "GATES(%s)=%s" % (nm, G.GATES.get(nm)))
    return G


CONFIRMED_GATES = [
    "simplifier_init", "tsk_table_sorter_init", "tsk_table_collection_sort", "tsk_table_collection_canonicalise",
    "tsk_table_collection_subset", "tsk_table_collection_union", "tsk_table_collection_build_index",
    "tsk_table_collection_compute_mutation_parents", "tsk_table_collection_compute_mutation_times",
    "tsk_table_collection_individual_topological_sort", "tsk_table_collection_simplify",
    "tsk_table_collection_link_ancestors", "tsk_ibd_finder_init", "tsk_table_collection_ibd_within",
    "tsk_table_collection_ibd_between", "tsk_table_collection_delete_older", "tsk_check_subset_equality",
]
