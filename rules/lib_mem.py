"""Memory-shape rules over libtskit and kastore."""
from __future__ import annotations

import re

from sa.cfront import LIB_TUS
from sa.expr import strip, walk, callee, estr

EQUIV = [{"tsk_id_t", "int32_t", "int"}, {"tsk_flags_t", "uint32_t", "unsignedint"}, {"tsk_size_t", "uint64_t", "size_t", "unsignedlong"},
         {"char", "int8_t", "uint8_t", "signedchar", "unsignedchar"}, {"double"}, {"tsk_bool_t", "uint8_t", "bool"}]


def _norm(t):
    return re.sub(r"\b(const|restrict|volatile)\b", "", t or "").replace(" ", "")


def _same(a, b):
    a, b = _norm(a), _norm(b)
    if a == b:
        return True
    return any(a in s and b in s for s in EQUIV)


def sizeof_elements(ctx, P, rule="SIZEOF-ELEM", tus=None, funcs=None, floor=150):
    ctx.rule(rule, "in every tsk_memcpy / memset / memmove / memcmp whose length is `count * sizeof(T)`, T is the element type of the "
                   "destination array (so a copy or reset covers exactly `count` elements, never a fraction or a multiple)")
    n = 0
    for key in (tus or LIB_TUS + ["kastore"]):
        tu = P.tus[key]
        for fn in tu.funcs.values():
            if funcs is not None and not funcs(fn.name):
                continue
            k = 0
            for c in walk(fn.body):
                if c.k != "CallExpr":
                    continue
                nm = callee(c)
                if nm not in ("tsk_memcpy", "tsk_memset", "tsk_memmove", "tsk_memcmp", "memcpy", "memset", "memmove"):
                    continue
                a = c.kids[1:]
                szs = [x for x in walk(a[2]) if x.k == "UnaryExprOrTypeTraitExpr" and x.name == "sizeof"]
                if len(szs) != 1:
                    continue
                sz = szs[0]
                szt = sz.val if not sz.kids else ((strip(sz.kids[0]).ty if strip(sz.kids[0]) is not None else None))
                d = strip(a[0])
                if d is None:
                    continue
                dty = d.ty or ""
                if d.k == "UnaryOperator" and d.op == "&":
                    pt = strip(d.kids[0]).ty
                elif dty.endswith("*"):
                    pt = dty[:-1].strip()
                else:
                    continue
                if _norm(pt) == "void":
                    continue
                n += 1
                ok = _same(pt, szt)
                ctx.ob(rule, "%s|%s@%d" % (fn.name, nm, k), ok, tu.loc(c),
                       "%s(%s, …, … * sizeof(%s)) on elements of type %s" % (nm, estr(a[0]), szt, pt))
                k += 1
    ctx.floor(rule, floor if (tus is None and funcs is None) else 1)
    return n
