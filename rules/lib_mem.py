"""Memory-shape rules over libtskit and kastore."""
from __future__ import annotations

import re

from sa.cfront import LIB_TUS
from sa.expr import strip, walk, callee, estr

EQUIV = [{"tsk_id_t", "int32_t", "int"}, {"tsk_flags_t", "uint32_t", "unsignedint"}, {"tsk_size_t", "uint64_t", "size_t", "unsignedlong"},
         {"char", "int8_t", "uint8_t", "signedchar", "unsignedchar"}, {"double"}, {"tsk_bool_t", "uint8_t", "bool"}]


def _norm(t):
    return re.sub(r"\b(const|restrict|volatile)\b", "", t or "").replace(" ", "")


def _same(a, b):
    a, b = _norm(a), _norm(b)
    if a == b:
        return True
    return any(a in s and b in s for s in EQUIV)


def sizeof_elements(ctx, P, rule="SIZEOF-ELEM", tus=None, funcs=None, floor=150):
    ctx.rule(rule, "in every tsk_memcpy / memset / memmove / memcmp whose length is `count * sizeof(T)`, T is the element type of the "
                   "destination array (so a copy or reset covers exactly `count` elements, never a fraction or a multiple)")
    n = 0
    for key in (tus or LIB_TUS + ["kastore"]):
        tu = P.tus[key]
        for fn in tu.funcs.values():
            if funcs is not None and not funcs(fn.name):
                continue
            k = 0
            for c in walk(fn.body):
                if c.k != "CallExpr":
                    continue
                nm = callee(c)
                if nm not in ("tsk_memcpy", "tsk_memset", "tsk_memmove", "tsk_memcmp", "memcpy", "memset", "memmove"):
                    continue
                a = c.kids[1:]
                szs = [x for x in walk(a[2]) if x.k == "UnaryExprOrTypeTraitExpr" and x.name == "sizeof"]
                if len(szs) != 1:
                    continue
                sz = szs[0]
                szt = sz.val if not sz.kids else ((strip(sz.kids[0]).ty if strip(sz.kids[0]) is not None else None))
                d = strip(a[0])
                if d is None:
                    continue
                dty = d.ty or ""
                if d.k == "UnaryOperator" and d.op == "&":
                    pt = strip(d.kids[0]).ty
                elif dty.endswith("*"):
                    pt = dty[:-1].strip()
                else:
                    continue
                if _norm(pt) == "void":
                    continue
                n += 1
                ok = _same(pt, szt)
                ctx.ob(rule, "%s|%s@%d" % (fn.name, nm, k), ok, tu.loc(c),
                       "%s(%s, …, … * sizeof(%s)) on elements of type %s" % (nm, estr(a[0]), szt, pt))
                k += 1
    ctx.floor(rule, floor if (tus is None and funcs is None) else 1)
    return n


def capacity(ctx, P, rule="CAPACITY"):
    """calculate_max_rows / expand_*: the capacity finally stored is never below what the caller is about to write."""
    from sa.cfg import CFG
    from sa.expr import is_assign, calls
    ctx.rule(rule, "the growth policy of the tables never returns a capacity below the rows about to be written: in "
                   "calculate_max_rows every assignment that can lower or cap new_max_rows (the doubling branch, the 2M-row cap, "
                   "the user increment) is followed on every path by `new_max_rows = TSK_MAX(new_max_rows, num_rows + additional_rows)` "
                   "before the value is stored through the out-parameter; the overflow check comes first")
    tu = P.tus["tables"]
    for name in ("calculate_max_rows", "calculate_max_length"):
        fn = P.func(name, "tables")
        if fn is None:
            continue
        cfg = CFG(fn)
        var = None
        store = None
        for n in cfg.nodes:
            if n.kind == "stmt" and n.ast is not None and is_assign(n.ast) and estr(n.ast.kids[0]).startswith("*"):
                store = n
                var = estr(n.ast.kids[1])
        ctx.ob(rule, "%s|store" % name, store is not None, tu.loc(fn.node), "result stored through the out-parameter from `%s`" % var)
        if store is None:
            continue
        need = fn.params[0].name, fn.params[3].name
        maxn = [n for n in cfg.nodes if n.kind == "stmt" and n.ast is not None and is_assign(n.ast) and estr(n.ast.kids[0]) == var
                and "TSK_MAX" in tu.src(n.ast.kids[1]) and need[0] in tu.src(n.ast.kids[1]) and need[1] in tu.src(n.ast.kids[1])]
        ctx.ob(rule, "%s|max" % name, len(maxn) >= 1, tu.loc(fn.node), "%s = TSK_MAX(%s, %s + %s) present" % (var, var, need[0], need[1]))
        others = [n for n in cfg.nodes if n.kind == "stmt" and n.ast is not None and is_assign(n.ast) and estr(n.ast.kids[0]) == var and n not in maxn]
        for o in others:
            rhs = estr(o.ast.kids[1])
            if rhs == fn.params[1].name:
                # keeping the current capacity on the branch where it already suffices
                conds = [c for c in cfg.nodes if c.kind == "cond" and c.ast is not None and need[0] in estr(c.ast) and need[1] in estr(c.ast)]
                ctx.ob(rule, "%s|keep-current" % name, bool(conds), tu.loc(o.ast), "current capacity kept only under `%s + %s <= %s`" % (need[0], need[1], fn.params[1].name))
                continue
            ok = bool(maxn) and not cfg.path_exists(o, store, avoid=set(maxn))
            ctx.ob(rule, "%s|%s" % (name, rhs[:50]), ok, tu.loc(o.ast),
                   "followed by the TSK_MAX with the required size on every path to the store" if ok else
                   "`%s = %s` can reach the store without being raised to %s + %s: the table is reallocated smaller than the rows about to be copied in" % (var, rhs[:60], need[0], need[1]))
        first = [c for c in calls(fn.body) if callee(c) == "check_table_overflow" or callee(c) == "check_offset_overflow"]
        ctx.ob(rule, "%s|overflow-first" % name, bool(first), tu.loc(fn.node), "overflow of num + additional checked")


def block_allocator(ctx, P, rule="BLKALLOC"):
    from sa.cfg import CFG
    from sa.expr import is_assign
    ctx.rule(rule, "tsk_blkalloc_get never hands out overlapping memory: whenever the request does not fit the current chunk, "
                   "`top` is reset to 0 only after `current_chunk` was advanced (on every path, whether a spare chunk exists or a "
                   "new one is allocated); oversize requests are refused; the returned pointer is chunk + top and top grows by size")
    tu = P.tus["core"]
    fn = P.need("tsk_blkalloc_get", "core")
    cfg = CFG(fn)
    reset = [n for n in cfg.nodes if n.kind == "stmt" and n.ast is not None and is_assign(n.ast) and estr(n.ast.kids[0]) == "self->top" and estr(n.ast.kids[1]) == "0"]
    adv = [n for n in cfg.nodes if n.kind == "stmt" and n.ast is not None and any(x.k == "UnaryOperator" and x.op == "++" and estr(x.kids[0]) == "self->current_chunk" for x in walk(n.ast))]
    ok = len(reset) == 1 and len(adv) >= 1
    ctx.ob(rule, "anchors", ok, tu.loc(fn.node), "%d reset(s) of top, %d advance(s) of current_chunk" % (len(reset), len(adv)))
    if ok:
        full = [n for n in cfg.nodes if n.kind == "cond" and n.ast is not None and "self->top" in estr(n.ast) and "chunk_size" in estr(n.ast)]
        okp = bool(full) and not cfg.path_exists(full[0], reset[0], avoid=set(adv))
        ctx.ob(rule, "advance-before-reset", okp, tu.loc(reset[0].ast),
               "every path from the chunk-full test to `top = 0` advances current_chunk" if okp else
               "`top = 0` is reachable without `current_chunk++`: after a reset the allocator rewinds inside the same chunk and "
               "overwrites live records")
    src = tu.src(fn.body)
    ctx.ob(rule, "oversize", "size > self->chunk_size" in src, tu.loc(fn.node), "requests larger than a chunk are refused")
    ret = [n for n in cfg.nodes if n.kind == "stmt" and n.ast is not None and is_assign(n.ast) and estr(n.ast.kids[0]) == "ret"
           and "self->mem_chunks[self->current_chunk]" in estr(n.ast.kids[1]) and "self->top" in estr(n.ast.kids[1])]
    grow = any(x.k == "CompoundAssignOperator" and x.op == "+=" and estr(x.kids[0]) == "self->top" and estr(x.kids[1]) == "size" for x in walk(fn.body))
    ctx.ob(rule, "bump", bool(ret) and grow, tu.loc(fn.node), "returns chunk + top and bumps top by size")
    rs = P.need("tsk_blkalloc_reset", "core")
    s2 = tu.src(rs.body)
    ctx.ob(rule, "reset", "self->top = 0" in s2 and "self->current_chunk = 0" in s2, tu.loc(rs.node), "reset rewinds both top and current_chunk")


def logical_not_in_mask(ctx, P, rule="MASK-NOT", tus=None):
    ctx.rule(rule, "a bit mask is never built with logical not: `x &= !FLAG` / `x & !FLAG` (which clears every bit or tests bit 0) "
                   "does not occur where `~FLAG` is meant")
    n = 0
    bad = 0
    for key in (tus or LIB_TUS + ["module"]):
        tu = P.tus[key]
        for fn in tu.funcs.values():
            k = 0
            for x in walk(fn.body):
                if (x.k == "CompoundAssignOperator" and x.op in ("&=", "|=", "^=")) or (x.k == "BinaryOperator" and x.op in ("&", "|", "^")):
                    n += 1
                    for side in x.kids[:2]:
                        s = strip(side)
                        if s is not None and s.k == "UnaryOperator" and s.op == "!":
                            inner = strip(s.kids[0])
                            txt = tu.src(s)
                            # `!!(options & FLAG)` and `!(a & b)` are boolean tests, not masks: only flag !CONSTANT
                            if inner is not None and (inner.extra == "objmacro" or inner.k == "IntegerLiteral") and re.search(r"![ (]*[A-Z_][A-Z0-9_]+", txt):
                                bad += 1
                                ctx.ob(rule, "%s@%d" % (fn.name, k), False, tu.loc(x), "`%s`: logical not of a flag constant used as a mask" % estr(x)[:80])
                                k += 1
    ctx.ob(rule, "instances", n >= 100, "c/tskit + module", "%d bitwise operations examined, %d with a logical-not mask" % (n, bad))


def c_lints(ctx, P, scope, rule="C-LINT", tus=None):
    """Repository-wide contradiction lints, instantiated on a property's functions."""
    from sa.expr import const_int
    if getattr(ctx, "tier", "quick") == "thorough":
        from . import scopes as _scopes
        scope = _scopes.callee_closure(P, scope, tus=tus)
    ctx.rule(rule, "generic contradiction lints on this property's C functions: no binary operator has textually identical operands "
                   "(`a.x > a.x`, `n - n`: a comparison or difference that was meant to involve the other object), every function "
                   "parameter is read unless it is marked TSK_UNUSED (an unread parameter is an option or argument silently ignored), "
                   "no flag mask is built with logical not")
    n = 0
    for key in (tus or LIB_TUS + ["kastore"]):
        tu = P.tus[key]
        for fn in tu.funcs.values():
            if not scope(key, fn.name):
                continue
            n += 1
            ident = []
            for x in walk(fn.body):
                if x.k == "BinaryOperator" and x.op in ("==", "!=", "<", ">", "<=", ">=", "-", "/", "&&", "||", "&", "|", "^", "%"):
                    if x.mac:
                        continue
                    a, b = estr(x.kids[0]), estr(x.kids[1])
                    if a == b and const_int(x.kids[0]) is None:
                        ident.append(x)
                if (x.k == "CompoundAssignOperator" and x.op in ("&=", "|=")) or (x.k == "BinaryOperator" and x.op in ("&", "|")):
                    for side in x.kids[:2]:
                        s = strip(side)
                        if s is not None and s.k == "UnaryOperator" and s.op == "!":
                            inner = strip(s.kids[0])
                            if inner is not None and (inner.extra == "objmacro" or inner.k == "IntegerLiteral"):
                                ident.append(x)
            used = {y.ref for y in walk(fn.body) if y.k == "DeclRefExpr"}
            unused = [p.name for p in fn.params if p.name and p.name not in used and "UNUSED" not in p.name]
            ok = not ident and not unused
            why = "clean"
            where = tu.loc(fn.node)
            if ident:
                why = "`%s` has identical operands / a logical-not mask" % estr(ident[0])[:80]
                where = tu.loc(ident[0])
            elif unused:
                why = "parameter(s) %s never read and not marked TSK_UNUSED" % unused
            ctx.ob(rule, fn.name, ok, where, why)
    copy_paste(ctx, P, scope, tus=tus)
    dead_stores(ctx, P, scope, tus=tus)
    width_and_flags(ctx, P, scope, tus=[k for k in (tus or LIB_TUS + ["kastore"]) if k != "module"])
    map_two_pass(ctx, P, scope, tus=[k for k in (tus or LIB_TUS) if k != "module"])
    from . import lib_kind
    ltus = [k for k in (tus or LIB_TUS) if k not in ("module", "kastore")]
    lib_kind.minmax_kind(ctx, P, scope, tus=ltus)
    lib_kind.alloc_domain(ctx, P, scope, tus=ltus)
    lib_kind.span_kind(ctx, P, None, scope, tus=ltus)
    lib_kind.shifted_index(ctx, P, scope, tus=ltus)
    lib_kind.length_guard(ctx, P, scope, tus=ltus)
    lib_kind.clear_domain(ctx, P, scope, tus=ltus)
    from . import lib_kind2
    lib_kind2.row_len(ctx, P, scope, tus=ltus)
    lib_kind2.offset_diff(ctx, P, scope, tus=ltus)
    lib_kind2.null_fill(ctx, P, scope, tus=ltus)
    lib_kind2.ragged_range(ctx, P, scope, tus=ltus)
    lib_kind2.min_init(ctx, P, scope, tus=ltus)
    lib_kind2.const_index_guard(ctx, P, scope, tus=ltus)
    lib_kind2.ownership_handoff(ctx, P, scope, tus=ltus)
    lib_kind2.validate_all(ctx, P, scope, tus=ltus)
    lib_kind2.out_unread(ctx, P, scope, tus=ltus)
    lib_kind2.use_count(ctx, P, scope, tus=ltus)
    lib_kind2.alias_guard(ctx, P, scope, tus=ltus)
    lib_kind2.alloc_err(ctx, P, scope, tus=ltus)
    lib_kind2.err_var(ctx, P, scope, tus=ltus)
    lib_kind2.memset_count(ctx, P, scope, tus=ltus)
    lib_kind2.guard_index(ctx, P, scope, tus=ltus)
    lib_kind2.success_shortcuts(ctx, P, scope, tus=[k for k in ltus if k in ('tables', 'trees', 'genotypes', 'stats', 'convert')])
    lib_kind.validate_before_mutate(ctx, P, scope, tus=[k for k in ltus if k in ('tables', 'trees')])
    return n


# (function, map) -> why reading the map at a loaded reference inside the loop that fills it is sound
MAP_ONE_PASS_OK = {
    # none on today's tree: simplifier_output_sites was the one single-pass use and it was a defect (F11, repaired)
}


def _loop_counter(lp):
    inc = lp.kids[3] if len(lp.kids) > 3 else None
    if inc is None:
        return None
    for x in walk(inc):
        if x.k == "UnaryOperator" and x.op in ("++", "--"):
            return estr(x.kids[0])
        if x.k == "CompoundAssignOperator":
            return estr(x.kids[0])
    return None


def map_two_pass(ctx, P, scope, rule="MAP-TWO-PASS", tus=None):
    ctx.rule(rule, "an id map (`M[k] = new id of row k`) is complete before it is consulted at a stored reference: no loop both "
                   "fills M at its own counter (`M[k] = ...`) and reads M at an index loaded from a table row (`M[row.parent]`, "
                   "`M[ind.parents[j]]`): a reference to a LATER row would be translated with a stale entry.  Filling and remapping "
                   "are separate passes.  A remap pass (`A[k] = M[A[k]]`) starts at row 0 or at a position fixed before any scan "
                   "(rows appended by this call), never at a position discovered by an earlier loop")
    n = 0
    for key in (tus or LIB_TUS):
        tu = P.tus[key]
        for fn in tu.funcs.values():
            if not scope(key, fn.name):
                continue
            for lp in walk(fn.body):
                if lp.k != "ForStmt":
                    continue
                k = _loop_counter(lp)
                if not k:
                    continue
                body = lp.kids[-1]
                writes = {}
                for x in walk(body):
                    if x.k == "BinaryOperator" and x.op == "=":
                        l = strip(x.kids[0])
                        if l is not None and l.k == "ArraySubscriptExpr" and estr(l.kids[1]) == k:
                            writes.setdefault(estr(l.kids[0]), x)
                # a remap pass `A[k] = M[...]` must visit every row
                for x in walk(body):
                    if x.k == "BinaryOperator" and x.op == "=":
                        l, r = strip(x.kids[0]), strip(x.kids[1])
                        if l is not None and r is not None and l.k == "ArraySubscriptExpr" and estr(l.kids[1]) == k \
                                and r.k == "ArraySubscriptExpr" and re.search(r"map", estr(r.kids[0])) and not re.search(r"map", estr(l.kids[0])):
                            init = strip(lp.kids[0]) if lp.kids[0] is not None else None
                            start = init.kids[1] if init is not None and init.k == "BinaryOperator" and init.op == "=" else None
                            from sa.expr import const_int as _ci
                            ok0 = start is not None and _ci(start) == 0
                            if start is not None and not ok0:
                                # a start that is fixed before any scan (a parameter, a saved row count) is a documented suffix;
                                # a start discovered by an earlier loop is a "skip the unchanged prefix" shortcut
                                in_loops = set()
                                for q in walk(fn.body):
                                    if q.k in ("ForStmt", "WhileStmt", "DoStmt") and q is not lp:
                                        for y in walk(q.kids[-1] if q.k != "DoStmt" else q.kids[0]):
                                            if y.k == "BinaryOperator" and y.op == "=" and strip(y.kids[0]) is not None and strip(y.kids[0]).k == "DeclRefExpr":
                                                in_loops.add(strip(y.kids[0]).ref)
                                ok0 = not any(y.k == "DeclRefExpr" and y.ref in in_loops for y in walk(start))
                            n += 1
                            ctx.ob(rule, "%s|remap|%s" % (fn.name, estr(l.kids[0])), ok0, tu.loc(lp),
                                   "remap pass `%s` starts at row 0 or at a position fixed before any scan" % estr(x)[:70] if ok0 else
                                   "remap pass `%s` starts at `%s`, not at row 0: references held by the skipped rows keep their old ids"
                                   % (estr(x)[:60], estr(start) if start is not None else "?"))
                # inside `if (v != TSK_NULL)` where v was loaded from a column at the counter, an id map is consulted at v
                for x in walk(body):
                    if x.k != "IfStmt" or len(x.kids) < 2 or x.kids[1] is None:
                        continue
                    c = strip(x.kids[0])
                    if c is None or c.k != "BinaryOperator" or c.op != "!=" or estr(c.kids[1]) not in ("TSK_NULL", "-1"):
                        continue
                    v = strip(c.kids[0])
                    if v is None or v.k != "DeclRefExpr" or v.ref == k:
                        continue
                    loaded_from_k = any(y.k == "BinaryOperator" and y.op == "=" and estr(y.kids[0]) == v.ref and strip(y.kids[1]) is not None
                                        and strip(y.kids[1]).k == "ArraySubscriptExpr" and estr(strip(y.kids[1]).kids[1]) == k for y in walk(body))
                    if not loaded_from_k:
                        continue
                    for y in walk(x.kids[1]):
                        if y.k == "ArraySubscriptExpr" and re.search(r"map", estr(y.kids[0])) and not re.search(r"index_map", estr(y.kids[0])):
                            n += 1
                            okr = estr(y.kids[1]) != k
                            ctx.ob(rule, "%s|ref-lookup|%s[%s]" % (fn.name, estr(y.kids[0]), v.ref), okr, tu.loc(y),
                                   "`%s` inside `if (%s != TSK_NULL)`" % (estr(y), v.ref) if okr else
                                   "`%s` is consulted at the row's own index `%s` inside `if (%s != TSK_NULL)`: the reference `%s` is the one "
                                   "whose fate is being tested" % (estr(y), k, v.ref, v.ref))
                if not writes:
                    continue
                # locals assigned in the loop from a table row (`parent_ind = ind.parents[j]`)
                loaded = set()
                for x in walk(body):
                    if x.k == "BinaryOperator" and x.op == "=":
                        l = strip(x.kids[0])
                        if l is not None and l.k == "DeclRefExpr" and l.ref != k and \
                                any(y.k in ("MemberExpr", "ArraySubscriptExpr") for y in walk(x.kids[1])):
                            loaded.add(l.ref)
                for m, w in sorted(writes.items()):
                    if not re.search(r"map|_id$|ids$", m):
                        continue
                    n += 1
                    bad = None
                    for x in walk(body):
                        if x.k == "ArraySubscriptExpr" and estr(x.kids[0]) == m:
                            idx = strip(x.kids[1])
                            if idx is None or estr(idx) == k:
                                continue
                            if any(y.k in ("MemberExpr", "ArraySubscriptExpr") for y in walk(idx)):
                                bad = x
                                break
                            if idx.k == "DeclRefExpr" and idx.ref in loaded:
                                bad = x
                                break
                    if bad is not None and (fn.name, m) in MAP_ONE_PASS_OK:
                        ctx.ob(rule, "%s|%s" % (fn.name, m), True, tu.loc(bad), "single pass accepted: " + MAP_ONE_PASS_OK[(fn.name, m)])
                    else:
                        ctx.ob(rule, "%s|%s" % (fn.name, m), bad is None, tu.loc(bad if bad is not None else w),
                               "`%s` is filled at `%s` and not consulted at stored references in the same loop" % (m, k) if bad is None else
                               "`%s` is read while the loop over `%s` is still filling `%s[%s]`: a reference to a later row sees a stale entry"
                               % (estr(bad), k, m, k))
    return n


_TOK = re.compile(r"->|\+\+|--|<=|>=|==|!=|&&|\|\||\+=|-=|\*=|/=|[A-Za-z_]\w*|\d+|\"[^\"]*\"|\S")
COPYPASTE_OK = {
    ("tsk_ls_hmm_init", "transitions"): "sizeof(*self->transitions) used for transitions_copy: both are tsk_transition_t arrays",
    ("tsk_viterbi_matrix_traceback", "path"): "sizeof(*path) used for recombination_tree: both are tsk_id_t arrays",
}


def _roles(text):
    toks = _TOK.findall(text)
    out = []
    for i, t in enumerate(toks):
        if re.match(r"[A-Za-z_]", t):
            role = "f:" if i > 0 and toks[i - 1] in ("->", ".") else "v:"
            out.append(role + t)
        else:
            out.append(t)
    return out


def copy_paste(ctx, P, scope, rule="COPY-PASTE", tus=None):
    ctx.rule(rule, "two consecutive statements of identical shape in which a symbol that occurs several times in the first is renamed at "
                   "some of its positions in the second but kept at others (`memcpy(dest->a, self->a, n * sizeof(*self->a))` followed "
                   "by `memcpy(dest->b, self->a, n * sizeof(*self->b))`) are an inconsistent copy-paste edit; fields and variables of "
                   "the same name are distinct symbols")
    n = 0
    for key in (tus or LIB_TUS + ["kastore", "module"]):
        tu = P.tus[key]
        for fn in tu.funcs.values():
            if not scope(key, fn.name):
                continue
            k = 0
            for blk in walk(fn.body):
                if blk.k != "CompoundStmt":
                    continue
                stmts = [s for s in blk.kids if s is not None and s.k in ("BinaryOperator", "CallExpr", "CompoundAssignOperator")]
                for s1, s2 in zip(stmts, stmts[1:]):
                    t1, t2 = _roles(estr(s1)), _roles(estr(s2))
                    if len(t1) != len(t2) or len(t1) < 6:
                        continue
                    if any((a[:2] not in ("f:", "v:")) and a != b for a, b in zip(t1, t2)):
                        continue          # different shape
                    if t1 == t2:
                        continue

                    def call_of(st):
                        for x in walk(st):
                            if x.k == "CallExpr":
                                return callee(x)
                        return None
                    # only parallel statements: the same function applied to two sets of arguments
                    if call_of(s1) is None or call_of(s1) != call_of(s2):
                        continue
                    n += 1
                    pos = {}
                    for i, a in enumerate(t1):
                        if a[:2] in ("f:", "v:"):
                            pos.setdefault(a, []).append(i)
                    bad = None
                    for a, ps in pos.items():
                        if len(ps) < 2:
                            continue
                        images = {t2[i] for i in ps}
                        if len(images) > 1 and a in images:
                            if (fn.name, a[2:]) in COPYPASTE_OK:
                                continue
                            bad = (a[2:], sorted(x[2:] for x in images if x != a))
                    if bad:
                        ctx.ob(rule, "%s@%d|%s" % (fn.name, k, bad[0]), False, tu.loc(s2),
                               "`%s` is renamed to %s at some positions but kept at others: `%s` after `%s`" % (bad[0], bad[1], estr(s2)[:110], estr(s1)[:110]))
                        k += 1
    ctx.ob(rule, "pairs", True, "(scope)", "%d same-shape statement pairs examined" % n)
    return n


def dead_stores(ctx, P, scope, rule="C-DEAD-STORE", tus=None):
    ctx.rule(rule, "no local variable of this property's C functions is only ever written (assigned but never read): a value that is "
                   "computed and then ignored means a later statement uses the wrong variable or a step was dropped")
    n = 0
    for key in (tus or LIB_TUS + ["kastore", "module"]):
        tu = P.tus[key]
        for fn in tu.funcs.values():
            if not scope(key, fn.name):
                continue
            decl = {x.name for x in walk(fn.body) if x.k == "VarDecl"}
            if not decl:
                continue
            par = {}
            for x in walk(fn.body):
                for c in x.kids:
                    if c is not None:
                        par[id(c)] = x
            reads, writes = set(), {}
            for x in walk(fn.body):
                if x.k == "DeclRefExpr" and x.ref in decl:
                    p, q = par.get(id(x)), x
                    while p is not None and p.k == "ParenExpr":
                        q, p = p, par.get(id(p))
                    if p is not None and p.k == "BinaryOperator" and p.op == "=" and p.kids[0] is q:
                        writes.setdefault(x.ref, x)
                    else:
                        reads.add(x.ref)
            dead = sorted(v for v in writes if v not in reads)
            n += 1
            ctx.ob(rule, fn.name, not dead, tu.loc(writes[dead[0]]) if dead else tu.loc(fn.node),
                   "every assigned local is read" if not dead else "local(s) %s assigned but never read" % dead)
    return n


FLAG_EQ_OK = {("kastore_put", "(flags != 0)"), ("kastore_put", "(flags != KAS_BORROWS_ARRAY)"), ("kastore_oput", "(flags != 0)")}


def width_and_flags(ctx, P, scope, rule="C-WIDTH", tus=None):
    ctx.rule(rule, "coordinates, times and sort keys keep double precision and option words are tested bitwise: no struct of the "
                   "library has a `float` member, no expression is cast to float explicitly or implicitly (double argument to truncf / floorf / ..., float destination), and a flags / options word is never compared for "
                   "equality with 0 or with a single flag (other bits such as ownership flags are routinely set) outside the frozen "
                   "argument checks of kastore_put")
    n = 0
    for key in (tus or LIB_TUS + ["kastore"]):
        tu = P.tus[key]
        for sname, fields in tu.structs.items():
            if "@0x" in sname and any(o is fields or o == fields for on, o in tu.structs.items() if "@0x" not in on):
                continue        # the anonymous struct behind a typedef: reported under the typedef's name
            if "@0x" in sname:
                sname = "anon{%s}" % ",".join(f for f, _, _ in fields)[:60]
            for f, ty, d in fields:
                if re.search(r"\bfloat\b", ty or ""):
                    if key == "kastore":
                        continue
                    ctx.ob(rule, "struct|%s.%s" % (sname, f), False, tu.path, "member `%s %s` loses precision (every time / coordinate column is double)" % (ty, f))
        for fn in tu.funcs.values():
            if not scope(key, fn.name):
                continue
            bad = None
            for x in walk(fn.body):
                if x.k == "CStyleCastExpr" and (x.ty or "") == "float":
                    bad = (x, "`%s` is cast to float" % estr(x.kids[-1])[:60])
                if x.k == "ImplicitCastExpr" and x.cast == "FloatingCast" and (x.ty or "") == "float":
                    bad = (x, "`%s` is implicitly narrowed from double to float (a float-variant function such as truncf, or a float "
                              "destination)" % estr(x.kids[-1])[:60])
                if x.k == "BinaryOperator" and x.op in ("==", "!="):
                    l, r = estr(x.kids[0]), estr(x.kids[1])
                    if re.search(r"(^|->|\.)(flags|options)(\[[^\]]*\])?$", l) and r != "NULL" and not re.search(r"\bNULL\b", r) \
                            and "*" not in (strip(x.kids[0]).ty or "") and (fn.name, estr(x)) not in FLAG_EQ_OK:
                        bad = (x, "`%s`: an option word compared for equality instead of tested with &" % estr(x)[:70])
            n += 1
            ctx.ob(rule, fn.name, bad is None, tu.loc(bad[0]) if bad else tu.loc(fn.node), "clean" if bad is None else bad[1])
    return n
