"""Per-property scopes: which Python methods / module functions / library functions belong to which property.

Generic rules (ignored parameter, crossed keyword, array flags, parsed-but-unused, format types, argument names, row
forwarding ...) are instantiated only on the functions that implement the property, so that a defect in one feature is
reported by the checks of the properties it can break and not by every check that happens to share the rule."""
from __future__ import annotations

import re

STAT_PARAMS = {"mode", "span_normalise", "windows", "polarised", "centre", "sample_sets", "indexes", "time_windows", "pair_normalise"}

PY = {
    "C01": lambda mod, q: (mod == "trees" and (q.startswith("Tree.") or q in {
        "TreeSequence.trees", "TreeSequence.first", "TreeSequence.last", "TreeSequence.at", "TreeSequence.at_index",
        "TreeSequence.aslist", "TreeSequence.coiterate", "TreeSequence.edge_diffs", "TreeSequence.breakpoints",
        "TreeSequence.__iter__"})),
    "C02": lambda mod, q: (mod == "trees" and (q.startswith("parse_") or q in {"load_text", "load", "TreeSequence.load_tables"}))
    or (mod == "tables" and q in {"TableCollection.tree_sequence", "TableCollection.fromdict"}),
    "C03": lambda mod, q: (mod == "genotypes") or (mod == "trees" and q in {
        "TreeSequence.variants", "TreeSequence.genotype_matrix", "TreeSequence.haplotypes", "TreeSequence.alignments",
        "TreeSequence._haplotypes_array"}),
    "C04": lambda mod, q: q in {"TreeSequence.simplify", "TableCollection.simplify"},
    "C05": lambda mod, q: (mod in ("trees", "tables", "util") and re.search(
        r"\.(dump|load|equals|assert_equals|copy|asdict|fromdict|__getstate__|__setstate__|dump_tables|load_tables|__eq__)$|^load$|^(dump|load)$", q) is not None),
    "C06": lambda mod, q: mod == "trees" and q in {"Tree.first", "Tree.last", "Tree.next", "Tree.prev", "Tree.seek", "Tree.seek_index",
                                                   "Tree.clear", "Tree.copy", "Tree.__init__", "Tree._make_arrays", "Tree._sample_generator",
                                                   "Tree.samples"},
    "C07": lambda mod, q: mod == "tables" and q in {"TableCollection.sort", "TableCollection.canonicalise", "TableCollection.build_index",
                                                    "TableCollection.drop_index", "TableCollection.deduplicate_sites",
                                                    "TableCollection.compute_mutation_parents", "TableCollection.compute_mutation_times",
                                                    "TableCollection.has_index"},
    "C08": lambda mod, q: mod == "stats" or (mod == "trees" and q.startswith("TreeSequence.")),   # refined by STAT_PARAMS below
    # every public method that takes an id / index / position from the caller
    "C09": lambda mod, q: (mod == "trees" and (q.startswith("Tree.") or q.startswith("TreeSequence."))) or (mod == "tables") or (mod == "genotypes") or (mod == "vcf"),
    "C10": lambda mod, q: (mod in ("trees", "tables") and q in {"load", "TreeSequence.load", "TableCollection.load", "TreeSequence.load_tables"})
    or (mod == "util" and q in {"raise_known_file_format_errors", "convert_file_like_to_open_file"}),
    "C11": lambda mod, q: mod in ("tables", "trees") and q.split(".")[-1] in {
        "keep_intervals", "delete_intervals", "delete_sites", "ltrim", "rtrim", "trim", "split_edges", "decapitate", "delete_older",
        "extend_haplotypes", "_check_trim_conditions"},
    "C12": lambda mod, q: mod == "metadata" or (mod == "tables" and q.split(".")[-1] in {"add_row", "append", "__setitem__", "packset_metadata"})
    or (mod == "trees" and q.endswith("_metadata")),
    "C13": lambda mod, q: mod == "tables" and not q.startswith("TableCollection."),
    "C14": lambda mod, q: q.split(".")[-1] in {"subset", "union"},
    "C16": lambda mod, q: mod in ("vcf", "cli") or q in {"TreeSequence.write_vcf", "TreeSequence.as_vcf"},
    "C17": lambda mod, q: (mod == "text_formats" and q in {"dump_text", "text_metadata"}) or (mod == "trees" and (q.startswith("parse_") or q in {
        "load_text", "TreeSequence.dump_text"})),
    "C18": lambda mod, q: (mod == "text_formats" and q not in {"dump_text", "text_metadata", "parse_fam"}) or (mod == "trees" and q in {
        "Tree.as_newick", "Tree.newick", "Tree._as_newick_fast", "TreeSequence.write_nexus", "TreeSequence.as_nexus", "TreeSequence.to_nexus",
        "TreeSequence.write_fasta", "TreeSequence.as_fasta"}),
    "C19": lambda mod, q: q.split(".")[-1] == "ibd_segments" or q.startswith("IdentitySegment"),
}

MODULE = {
    "C01": lambda f: f.startswith("Tree_") or f.startswith("TreeDiffIterator"),
    "C03": lambda f: f.startswith("Variant_") or f in ("TreeSequence_get_genotype_matrix",),
    "C04": lambda f: f == "TableCollection_simplify",
    "C05": lambda f: re.search(r"_(equals|load|dump|fromdict|asdict)$", f) is not None or f.startswith("LightweightTableCollection")
    or f in ("table_read_column_array", "table_read_offset_array", "write_table_arrays", "parse_table_collection_dict") or f.startswith("parse_") and f.endswith("_table_dict"),
    "C06": lambda f: f in ("Tree_first", "Tree_last", "Tree_next", "Tree_prev", "Tree_seek", "Tree_seek_index", "Tree_clear", "Tree_copy", "Tree_init"),
    "C07": lambda f: f in ("TableCollection_sort", "TableCollection_canonicalise", "TableCollection_build_index", "TableCollection_drop_index",
                           "TableCollection_deduplicate_sites", "TableCollection_compute_mutation_parents", "TableCollection_compute_mutation_times",
                           "TableCollection_sort_individuals"),
    "C08": None,    # computed: functions that parse a statistics mode / windows / sample sets
    "C09": lambda f: True,
    "C10": lambda f: re.search(r"_(load|dump)$", f) is not None,
    "C11": lambda f: f in ("TreeSequence_split_edges", "TreeSequence_extend_haplotypes", "TableCollection_delete_older", "TableCollection_delete_sites"),
    "C13": lambda f: re.search(r"^(Individual|Node|Edge|Migration|Site|Mutation|Population|Provenance)Table_", f) is not None
    or f in ("table_keep_rows", "array_converter", "bool_array_converter", "int32_array_converter", "make_owned_array", "TreeSequence_make_array")
    or f.endswith("_keep_rows_generic") or f.startswith("table_get_") or f.startswith("TreeSequence_get_")
    or re.fullmatch(r"make_(individual|node|edge|migration|site|mutation|population|provenance)(_row|_object)?", f) is not None,
    "C14": lambda f: f in ("TableCollection_subset", "TableCollection_union"),
    "C17": lambda f: f.startswith("make_"),
    "C18": lambda f: f in ("Tree_get_newick",),
    "C19": lambda f: f.startswith("TableCollection_ibd_segments") or f.startswith("IdentitySegment"),
}


def py_scope(prop, py=None):
    base = PY[prop]
    if prop != "C08":
        return base
    # statistics: facade functions that take a statistics parameter
    import ast
    from sa.pyfront import params_of
    names = set()
    if py is not None:
        for mn in ("trees", "stats"):
            m = py.mod(mn)
            for q, fn in m.funcs.items():
                a, k, _ = params_of(fn)
                if set(a + k) & STAT_PARAMS or mn == "stats":
                    names.add((mn, q))
    return lambda mod, q: (mod, q) in names


def module_scope(prop, P=None):
    if prop != "C08":
        return MODULE[prop]
    from sa.expr import calls, callee
    names = set()
    if P is not None:
        tu = P.tus["module"]
        for f in tu.funcs.values():
            cs = {callee(c) for c in calls(f.body)}
            if cs & {"parse_stats_mode", "parse_windows", "parse_sample_sets", "parse_set_indexes", "parse_time_windows", "parse_quantiles",
                     "TreeSequence_allocate_results_array"} or "stat" in f.name or f.name in (
                    "TreeSequence_divergence_matrix", "TreeSequence_ld_matrix", "TreeSequence_genealogical_nearest_neighbours",
                    "TreeSequence_mean_descendants", "TreeSequence_pair_coalescence_counts", "parse_windows", "parse_sample_sets",
                    "parse_set_indexes", "parse_stats_mode"):
                names.add(f.name)
    return lambda f: f in names


_MOVE = re.compile(r"tsk_tree_(first|last|next|prev|seek\w*|clear|copy|init|free|insert_\w+|remove_\w+|update_index_and_interval|position_\w+)$")
LIB = {
    "C01": lambda k, f: (k == "trees" and (f.startswith("tsk_tree_") or f.startswith("tsk_diff_iter") or f in ("tsk_treeseq_init_trees",)))
    or f in ("tsk_table_collection_build_index", "cmp_index_sort"),
    "C02": lambda k, f: f.startswith("tsk_table_collection_check_") or f in ("check_offsets", "tsk_treeseq_init", "tsk_treeseq_load", "tsk_treeseq_loadf")
    or f.startswith("tsk_treeseq_init_"),
    "C03": lambda k, f: k == "genotypes",
    "C04": lambda k, f: f.startswith("simplifier_") or f == "tsk_table_collection_simplify" or f.startswith("tsk_blkalloc"),
    "C05": lambda k, f: k == "kastore" or (k == "tables" and re.search(r"(_equals|_copy|_dump|_load|^read_|^write_|_dumpf|_loadf|_load_|_dump_)", f) is not None),
    "C06": lambda k, f: k == "trees" and _MOVE.match(f) is not None,
    "C07": lambda k, f: k == "tables" and (f.startswith("tsk_table_sorter_") or f.startswith("cmp_") or f in (
        "tsk_table_collection_sort", "tsk_table_collection_canonicalise", "tsk_table_collection_deduplicate_sites",
        "tsk_table_collection_compute_mutation_parents", "tsk_table_collection_compute_mutation_times", "tsk_table_collection_build_index")),
    "C08": lambda k, f: k == "stats" or (k == "trees" and not f.startswith("tsk_tree_") and not f.startswith("tsk_diff_iter")),
    "C09": lambda k, f: True,
    "C10": lambda k, f: k == "kastore" or (k == "tables" and re.search(r"(_load|^read_|_loadf|_load_|check_offsets|check_ragged|takeset)", f) is not None),
    "C11": lambda k, f: f in ("tsk_table_collection_delete_older", "tsk_treeseq_split_edges", "tsk_treeseq_extend_haplotypes",
                              "tsk_treeseq_slide_mutation_nodes_up", "extend_haplotypes_iter") or f.startswith("haplotype_extender"),
    "C13": lambda k, f: k == "tables" and ("_table_" in f and not f.startswith("tsk_table_collection") and not f.startswith("tsk_table_sorter")
                                           or f.startswith("subset_") or f in ("calculate_max_rows", "calculate_max_length", "expand_column",
                                                                               "expand_ragged_column", "check_offsets", "keep_mask_to_id_map")),
    "C14": lambda k, f: f in ("tsk_table_collection_subset", "tsk_table_collection_union", "tsk_table_collection_add_and_remap_node",
                              "tsk_check_subset_equality"),
    "C16": lambda k, f: k == "genotypes",
    "C17": lambda k, f: k == "tables" and (f.startswith("tsk_table_sorter_") or f.startswith("cmp_") or f == "tsk_table_collection_sort"),
    "C18": lambda k, f: k == "convert" or f in ("is_discrete", "tsk_treeseq_init_trees", "tsk_treeseq_init_nodes", "tsk_treeseq_init_migrations",
                                                   "tsk_treeseq_init_mutations", "tsk_treeseq_get_discrete_time", "tsk_treeseq_get_discrete_genome"),
    "C19": lambda k, f: k == "tables" and ("ibd" in f or "identity_segment" in f or f == "pair_to_integer" or f == "integer_to_pair"),
}


def lib_scope(prop):
    return LIB[prop]


def callee_closure(P, scope, tus=None):
    """The functions `scope` selects plus everything they (transitively) call inside libtskit / kastore: the thorough tier lints
    the whole code a property executes, not only the functions that implement it by name."""
    from sa.expr import calls, callee
    from sa.cfront import LIB_TUS
    keys = [k for k in (tus or list(P.tus)) if k in P.tus]
    index = {}
    for k in keys:
        for f in P.tus[k].funcs.values():
            index.setdefault(f.name, (k, f))
    todo = [(k, f) for k in keys for f in P.tus[k].funcs.values() if scope(k, f.name)]
    seen = set()
    while todo:
        k, f = todo.pop()
        if (k, f.name) in seen or f.body is None:
            continue
        seen.add((k, f.name))
        for c in calls(f.body):
            nm = callee(c)
            if nm in index and (index[nm][0], nm) not in seen:
                todo.append(index[nm])
    return lambda k, name: (k, name) in seen
