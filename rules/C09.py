"""C09 - No API input causes out-of-bounds memory access or aborts the interpreter.

Decides structural clauses only (see DESIGN.md section 5, C09)."""
from __future__ import annotations

from sa.guards import CountResolver
from sa.cfront import LIB_TUS
from . import scopes, lib_guards, lib_module, lib_gate, lib_err, lib_file, lib_taint, lib_mem, lib_stats, lib_schema, lib_tree, lib_kind

LEVEL = "other"
EXPLANATION = ("Static analysis of /repo's current C and Python source (clang type-checked AST, Python ast): "
               "range-guard exactness and presence, no-narrowing-before-validation, integrity gate before id-indexed "
               "access on raw tables, error propagation, PyArg format/type agreement. Decides these structural necessary "
               "conditions of memory safety, not the absence of all undefined behaviour.")


def run(ctx):
    P = ctx.program()
    R = CountResolver(P)
    seen = lib_guards.analyse(ctx, P, resolver=R)
    lib_guards.presence(ctx, seen, P=P)
    lib_module.narrowing(ctx, P)
    lib_gate.gate(ctx, P)
    E = lib_err.discipline(ctx, P, LIB_TUS + ["module"])
    lib_err.module_handlers(ctx, P, E)
    lib_module.module_guards(ctx, P)
    lib_module.array_flags(ctx, P)
    lib_module.bytes_length(ctx, P)
    lib_module.parsed_used(ctx, P)
    lib_module.format_types(ctx, P)
    lib_file.offsets_cover(ctx, P)
    T = lib_taint.public_ids(ctx, P)
    lib_mem.sizeof_elements(ctx, P)
    lib_mem.capacity(ctx, P)
    lib_mem.block_allocator(ctx, P)
    lib_mem.logical_not_in_mask(ctx, P)
    lib_module.owned_arrays(ctx, P)          # dangling / writable views of library memory
    lib_tree.tree_copy_clear(ctx, P)         # traversal buffers are sized from the copied tree state
    lib_kind.takeset_atomic(ctx, P)
    from . import lib_kind2
    lib_kind2.guard_nan(ctx, P)
    lib_kind2.guard_nan(ctx, P, tus=("tables",), funcs={"tsk_ibd_finder_init"})
    lib_kind2.guard_seqlen(ctx, P)
    from . import lib_kind3
    lib_kind3.module_owner_refs(ctx, P)
    from . import lib_ref
    lib_ref.release(ctx, P)
    lib_ref.singletons(ctx, P)
    lib_ref.borrowed(ctx, P)
    lib_kind2.alloc_err(ctx, P, lambda k, f: True, tus=["module"])
    lib_kind2.err_var(ctx, P, lambda k, f: True, tus=["module"])
    lib_kind2.memset_count(ctx, P, lambda k, f: True, tus=["module"])
    lib_kind2.keep_rows_atomic(ctx, P)
    lib_kind2.id_array_first_use(ctx, P)
    lib_kind2.alloc_size_bounded(ctx, P)
    lib_kind2.array_conversion_source(ctx, P)
    lib_kind3.error_codes(ctx, P)
    lib_kind.dict_atomic(ctx, P)
    lib_stats.early_exits(ctx, P)
    from sa.schema import load_schemas
    lib_schema.dict_interchange(ctx, P, load_schemas(P))
    lib_taint.length_pairing(ctx, P, T)
    ctx.assumptions += [
        "clang-14's AST reflects the code that setup.py compiles (same include paths, -std=c99)",
        "libc and CPython API functions behave as documented",
    ]
    lib_mem.c_lints(ctx, ctx.program(), scopes.lib_scope("C09"))
    # Python: a public method that indexes a numpy array with the caller's id must test its lower bound (numpy wraps negatives)
    py = ctx.python()
    lib_kind3.py_slips(ctx, py, mods=("trees", "tables", "genotypes", "vcf"), only=scopes.py_scope("C09"))
    from . import lib_py
    lib_py.facade_guard(ctx, py, "tables", "BaseTable.__getitem__", "index", "ll_table.get_row", upper="len(self)")
    lib_schema.update_row(ctx, P, load_schemas(P))
    from . import lib_kind5
    lib_kind5.peer_state(ctx, ctx.program())
    lib_kind5.memset_args(ctx, ctx.program())
    lib_kind5.utf8_size(ctx, ctx.program())
