"""C19 - IBD segments are exactly the maximal shared-path intervals of each sample pair (structural clauses)."""
from __future__ import annotations

from . import scopes, lib_ibd, lib_guards, lib_gate, lib_module, lib_py, lib_err, lib_mem, lib_kind, lib_kind4

LEVEL = "other"
EXPLANATION = ("Exact sample / partition id guards and the integrity gate on the ibd_segments paths, counter pairing so the "
               "aggregates equal the aggregates of the recorded segments, filter relations (strict min_span, max_time), every "
               "ancestry piece recorded as its own segment, 64-bit pair keys, store_pairs / store_segments plumbing, C-contiguous "
               "sample arrays. Does not decide maximality / exactness of the segments.")
FUNCS = {"tsk_ibd_finder_init_samples_from_set", "tsk_ibd_finder_init_between", "tsk_ibd_finder_init_within", "tsk_ibd_finder_init",
         "tsk_identity_segments_get_key", "tsk_ibd_finder_add_sample_ancestry"}


def run(ctx):
    P = ctx.program()
    py = ctx.python()
    ps, ms = scopes.py_scope("C19"), scopes.module_scope("C19")
    seen = lib_guards.analyse(ctx, P, funcs=FUNCS)
    lib_guards.presence(ctx, seen, funcs=FUNCS, P=P)
    lib_gate.gate(ctx, P, only={"tsk_table_collection_ibd_within", "tsk_table_collection_ibd_between", "tsk_ibd_finder_init"})
    lib_ibd.counters(ctx, P)
    lib_ibd.ancestry_append(ctx, P)
    lib_ibd.finder_run(ctx, P)
    lib_ibd.pair_keys(ctx, P)
    lib_ibd.widening(ctx, P, tus=["tables"])
    lib_module.options_plumbing(ctx, P, funcs={"TableCollection_ibd_segments_within", "TableCollection_ibd_segments_between"})
    lib_module.flags_consumed(ctx, P, funcs={"TableCollection_ibd_segments_within", "TableCollection_ibd_segments_between"})
    lib_module.array_flags(ctx, P, only=ms)
    lib_module.parsed_used(ctx, P, only=ms)
    lib_module.narrowing(ctx, P)
    from . import lib_kind2
    lib_kind2.guard_nan(ctx, P, tus=("tables",), funcs={"tsk_ibd_finder_init"})       # min_span / max_time: NaN is refused, not silently given a meaning
    lib_module.format_types(ctx, P, only=ms)
    lib_err.discipline(ctx, P, ["tables"], funcs={f.name for f in P.tus["tables"].funcs.values() if "ibd" in f.name or "identity_segments" in f.name})
    lib_py.kw_forward(ctx, py, mods=("trees", "tables"), only=ps)
    lib_py.unused_params(ctx, py, mods=("trees", "tables"), only=ps)
    lib_kind.py_lints(ctx, py, mods=("trees", "tables"), only=ps)
    lib_kind4.mapping_mixin(ctx, py)
    lib_py.ll_positional(ctx, py, P, only=ps)
    # accessors that need stored pairs / segments raise the dedicated errors
    tu = P.tus["tables"]
    rule = "IBD-NOT-STORED"
    ctx.rule(rule, "accessors that need stored pairs / segments raise TSK_ERR_IBD_PAIRS_NOT_STORED / _SEGMENTS_NOT_STORED first")
    for f, code, flag in (("tsk_identity_segments_get", "TSK_ERR_IBD_PAIRS_NOT_STORED", "store_pairs"),
                          ("tsk_identity_segments_get_keys", "TSK_ERR_IBD_PAIRS_NOT_STORED", "store_pairs"),
                          ("tsk_identity_segments_get_items", "TSK_ERR_IBD_PAIRS_NOT_STORED", "store_pairs")):
        fn = P.func(f, "tables")
        if fn is None:
            continue
        src = tu.src(fn.body)
        ctx.ob(rule, f, code in src and flag in src, tu.loc(fn.node), "%s guarded by %s" % (f, code))
    lib_mem.c_lints(ctx, ctx.program(), scopes.lib_scope("C19"))
    from . import lib_kind5
    lib_kind5.threshold_agree(ctx, ctx.program())
