"""A4 rule families over the eight table types (obligations generated from the structs)."""
from __future__ import annotations

import re

from sa.schema import (load_schemas, Facts, factors, sizeof_ok, KAS_TYPE, SUBSET_FN, SUBSET_RAGGED_FN, PLURAL, TABLES)
from sa.expr import strip, walk, callee, estr, xstr, const_int, upper_idents

SELFREF = {("individual", "parents"): "subset_remap_ragged_id_column", ("mutation", "parent"): "subset_remap_id_column"}


def _fn(P, ctx, name):
    f = P.func(name, "tables")
    ctx.need(f is not None, "function %s" % name)
    return f


def equals(ctx, P, S, rule="SCHEMA-EQUALS"):
    ctx.rule(rule, "tsk_<T>_table_equals compares num_rows and every column of the struct with tsk_memcmp over the right "
                   "length and element size; metadata (and only metadata) under !(options & TSK_CMP_IGNORE_METADATA)")
    for t, sc in S.items():
        fn = _fn(P, ctx, sc.prefix + "equals")
        F = Facts(P, fn)
        where = F.loc(fn.node)
        cmps = {}
        for args, node in F.calls_to("tsk_memcmp"):
            if len(args) == 3:
                cmps[(args[0], args[1])] = (factors(node.kids[3]), node)
        eqs = set()
        for x in walk(fn.body):
            if x.k == "BinaryOperator" and x.op == "==":
                eqs.add((xstr(x.kids[0], F.al), xstr(x.kids[1], F.al)))

        def cond_of(node):
            ifs = F.enclosing_ifs(node)
            return [F.tu.src(i.kids[0]) for i, br in ifs]

        def chk_cmp(col, length_factor, elem, meta):
            key = "%s|%s" % (t, col)
            ent = cmps.get(("self->" + col, "other->" + col))
            if ent is None:
                ctx.ob(rule, key, False, where, "column `%s` of %s is not compared with tsk_memcmp(self->%s, other->%s, …)"
                       % (col, sc.struct, col, col))
                return
            fac, node = ent
            sz = [f for f in fac if f.startswith("sizeof")]
            rest = tuple(f for f in fac if not f.startswith("sizeof"))
            ok = len(sz) == 1 and sizeof_ok(sz[0], elem, "self->" + col) and rest == (length_factor,)
            detail = "memcmp length factors %s (expected %s * sizeof(%s))" % (list(fac), length_factor, elem)
            conds = cond_of(node)
            if meta:
                if not any("TSK_CMP_IGNORE_METADATA" in c for c in conds):
                    ok, detail = False, "metadata column `%s` compared outside the TSK_CMP_IGNORE_METADATA test" % col
            else:
                if any("TSK_CMP_IGNORE_METADATA" in c for c in conds):
                    ok, detail = False, "non-metadata column `%s` is skipped under TSK_CMP_IGNORE_METADATA" % col
            ctx.ob(rule, key, ok, F.loc(node), detail)

        ctx.ob(rule, "%s|num_rows" % t, ("self->num_rows", "other->num_rows") in eqs or ("other->num_rows", "self->num_rows") in eqs,
               where, "num_rows equality")
        for col, elem in sc.fixed:
            chk_cmp(col, "self->num_rows", elem, False)
        for col, elem in sc.ragged:
            meta = col == "metadata"
            chk_cmp(col, "self->%s_length" % col, elem, meta)
            chk_cmp(col + "_offset", "(self->num_rows + 1)", "tsk_size_t", meta)
            # length equality is implied by equal offsets (offset[num_rows] == length); not required separately
        if sc.has_schema:
            chk_cmp("metadata_schema", "self->metadata_schema_length", "char", True)
            ctx.ob(rule, "%s|metadata_schema_length" % t,
                   ("self->metadata_schema_length", "other->metadata_schema_length") in eqs, where, "schema length equality")


def argname(ctx, P, funcs=None, rule="SCHEMA-ARGNAME", tus=("tables", "trees")):
    """Argument / parameter name agreement on calls to table functions."""
    ctx.rule(rule, "in every call to a tsk_<T>_table_* / tsk_table_collection_* function, an argument that is a like-typed "
                   "struct field or parameter named after a *different* parameter of the callee is a swapped/misrouted "
                   "column (argument k must be the field/parameter whose name equals parameter k)")
    n = 0
    for key in tus:
        tu = P.tus[key]
        for fn in tu.funcs.values():
            if funcs is not None and not (fn.name in funcs if not callable(funcs) else funcs(fn.name)):
                continue
            for c in walk(fn.body):
                if c.k != "CallExpr":
                    continue
                nm = callee(c)
                if not nm or not re.match(r"tsk_\w+_table_(add_row|update_row|update_row_rewrite|set_columns|append_columns|"
                                          r"takeset_columns|add_row_internal)$", nm):
                    continue
                cal = P.func(nm, "tables")
                if cal is None:
                    continue
                pnames = [p.name for p in cal.params]
                args = c.kids[1:]
                bad = []
                checked = 0
                for i, a in enumerate(args):
                    if i >= len(pnames):
                        break
                    s = strip(a)
                    if s is None:
                        continue
                    an = None
                    aty = _bare(a.ty or "")
                    if s.k == "MemberExpr":
                        an = s.name
                    elif s.k == "DeclRefExpr":
                        an = s.ref
                    elif s.k == "UnaryOperator" and s.op == "&":
                        continue
                    if an is None:
                        continue
                    # only names that are parameter names of the callee are meaningful
                    if an in pnames and an != "self" and _bare(cal.params[pnames.index(an)].ty or "") == aty:
                        checked += 1
                        if pnames[i] != an:
                            bad.append("argument %d is `%s` but parameter %d of %s is `%s`" % (i, estr(a), i, nm, pnames[i]))
                if checked:
                    n += 1
                    ctx.ob(rule, "%s->%s@%d" % (fn.name, nm, _ordinal(fn, c, nm)), not bad, tu.loc(c), "; ".join(bad) or "%d named arguments in place" % checked)
    return n


def _bare(t):
    return re.sub(r"\b(const|restrict|volatile)\b", "", t).replace(" ", "")


def _ordinal(fn, call, nm):
    k = 0
    for c in walk(fn.body):
        if c.k == "CallExpr" and callee(c) == nm:
            if c is call:
                return k
            k += 1
    return k


ROW_T = {"tsk_edge_t": "edge", "tsk_node_t": "node", "tsk_site_t": "site", "tsk_mutation_t": "mutation",
         "tsk_migration_t": "migration", "tsk_individual_t": "individual", "tsk_population_t": "population",
         "tsk_provenance_t": "provenance"}


def row_forwarding(ctx, P, rule="SCHEMA-ROWFWD", tus=("tables", "trees"), funcs=None):
    """When a row struct is re-emitted through add_row, its metadata (and ragged payloads) travel with it."""
    ctx.rule(rule, "an add_row call that re-emits a row obtained from get_row (>=1 argument is a field of a tsk_<T>_t "
                   "variable of the same table) forwards that row's metadata/metadata_length and every ragged payload "
                   "(location, parents, ancestral_state, derived_state …) unless the call site is a frozen exception")
    n = 0
    for key in tus:
        tu = P.tus[key]
        for fn in tu.funcs.values():
            if funcs is not None and not (fn.name in funcs if not callable(funcs) else funcs(fn.name)):
                continue
            for c in walk(fn.body):
                if c.k != "CallExpr":
                    continue
                nm = callee(c)
                m = re.match(r"tsk_(\w+)_table_add_row$", nm or "")
                if not m:
                    continue
                t = m.group(1)
                cal = P.func(nm, "tables")
                if cal is None:
                    continue
                pnames = [p.name for p in cal.params]
                args = c.kids[1:]
                rowvars = {}
                for a in args:
                    s = strip(a)
                    if s is not None and s.k == "MemberExpr":
                        base = strip(s.kids[0])
                        bty = re.sub(r"\bconst\b|\*", "", (s.kids[0].ty or "")).strip()
                        if ROW_T.get(bty) == t and base is not None:
                            rowvars[estr(base)] = rowvars.get(estr(base), 0) + 1
                if not rowvars:
                    continue
                rv = max(rowvars, key=rowvars.get)
                fields = {f for f, _, _ in P.structs.get("tsk_%s_t" % t, [])}
                must = [p for p in pnames if p in fields and (p.startswith("metadata") or p.endswith("_length")
                                                                or p in ("location", "ancestral_state", "derived_state",
                                                                         "timestamp", "record"))
                        and p not in ("parents", "parents_length")]
                bad = []
                for p in must:
                    i = pnames.index(p)
                    if i >= len(args):
                        continue
                    s = strip(args[i])
                    ok = s is not None and s.k == "MemberExpr" and s.name == p and estr(strip(s.kids[0])) == rv
                    if not ok:
                        bad.append("parameter `%s` receives `%s` instead of %s%s%s" % (p, estr(args[i]), rv, "." if "->" not in rv else ".", p))
                key2 = "%s->%s@%d" % (fn.name, nm, _ordinal(fn, c, nm))
                exc = ROWFWD_EXCEPTIONS.get((fn.name, nm))
                n += 1
                if bad and exc:
                    ctx.ob(rule, key2, True, tu.loc(c), "exception: " + exc)
                else:
                    ctx.ob(rule, key2, not bad, tu.loc(c), "; ".join(bad) or "row %s forwarded with metadata" % rv)
    return n


ROWFWD_EXCEPTIONS = {}


# ---------------------------------------------------------------------------------------------
def add_row(ctx, P, S, rule="SCHEMA-ADDROW"):
    ctx.rule(rule, "tsk_<T>_table_add_row_internal stores every fixed column at [num_rows] from the like-named parameter, "
                   "copies each ragged payload at its current length, writes offset[num_rows+1], bumps the length and num_rows")
    for t, sc in S.items():
        fn = P.func(sc.prefix + "add_row_internal", "tables") or _fn(P, ctx, sc.prefix + "add_row")
        F = Facts(P, fn)
        where = F.loc(fn.node)
        for col, elem in sc.fixed:
            n = F.has_assign("self->%s[self->num_rows]" % col, col)
            ctx.ob(rule, "%s|%s" % (t, col), n is not None, F.loc(n) if n else where,
                   "self->%s[self->num_rows] = %s" % (col, col))
        for col, elem in sc.ragged:
            ln = col + "_length"
            mv = [a for a, n in F.calls_to("tsk_memmove") + F.calls_to("tsk_memcpy")
                  if a[0] in ("(self->%s + self->%s)" % (col, ln), "&self->%s[self->%s]" % (col, ln)) and a[1] == col]
            okmv = False
            for a in mv:
                szf = a[2]
                okmv = okmv or szf == ln or (ln in szf and "sizeof" in szf)
            ctx.ob(rule, "%s|%s|copy" % (t, col), okmv, where, "payload `%s` copied to self->%s + self->%s for %s elements" % (col, col, ln, ln))
            n = F.has_assign("self->%s_offset[(self->num_rows + 1)]" % col, "(self->%s + %s)" % (ln, ln)) or \
                F.has_assign("self->%s_offset[(self->num_rows + 1)]" % col, "self->" + ln)
            ctx.ob(rule, "%s|%s|offset" % (t, col), n is not None, where, "self->%s_offset[num_rows + 1] = self->%s + %s" % (col, ln, ln))
            n = F.has_assign("self->" + ln, ln, "+=")
            ctx.ob(rule, "%s|%s|length" % (t, col), n is not None, where, "self->%s += %s" % (ln, ln))
        inc = [x for x in F.incs if x[0] == "self->num_rows" and x[1] == "++"] or F.has_assign("self->num_rows", "1", "+=")
        ctx.ob(rule, "%s|num_rows++" % t, bool(inc), where, "self->num_rows++")


def get_row(ctx, P, S, rule="SCHEMA-GETROW"):
    ctx.rule(rule, "tsk_<T>_table_get_row_unsafe loads every column of the row struct from the like-named column at [index]; "
                   "ragged length = offset[index+1]-offset[index], pointer = column + offset[index]")
    for t, sc in S.items():
        fn = _fn(P, ctx, sc.prefix + "get_row_unsafe")
        F = Facts(P, fn)
        where = F.loc(fn.node)
        for col, elem in sc.fixed:
            n = F.has_assign("row->" + col, "self->%s[index]" % col)
            ctx.ob(rule, "%s|%s" % (t, col), n is not None, where, "row->%s = self->%s[index]" % (col, col))
        for col, elem in sc.ragged:
            n = F.has_assign("row->%s_length" % col, "(self->%s_offset[(index + 1)] - self->%s_offset[index])" % (col, col))
            ctx.ob(rule, "%s|%s|length" % (t, col), n is not None, where, "row->%s_length = offset[index+1] - offset[index]" % col)
            n = F.has_assign("row->" + col, "(self->%s + self->%s_offset[index])" % (col, col)) or \
                F.has_assign("row->" + col, "&self->%s[self->%s_offset[index]]" % (col, col))
            ctx.ob(rule, "%s|%s|ptr" % (t, col), n is not None, where, "row->%s = self->%s + self->%s_offset[index]" % (col, col, col))
        n = F.has_assign("row->id", "index")
        ctx.ob(rule, "%s|id" % t, n is not None, where, "row->id = index")


def update_row(ctx, P, S, rule="SCHEMA-UPDATEROW"):
    ctx.rule(rule, "tsk_<T>_table_update_row takes the in-place path only when every ragged length of the stored row equals "
                   "the new length, stores every fixed column at [index] and moves every ragged payload to its offset; "
                   "otherwise it calls update_row_rewrite with all parameters in order")
    for t, sc in S.items():
        fn = P.func(sc.prefix + "update_row", "tables")
        if fn is None:
            continue
        F = Facts(P, fn)
        where = F.loc(fn.node)
        # the if statement with the in-place branch
        target = None
        for x in walk(fn.body):
            if x.k == "IfStmt" and len(x.kids) > 2 and x.kids[2] is not None:
                if any(callee(c) == sc.prefix + "update_row_rewrite" for c in walk(x.kids[2]) if c.k == "CallExpr"):
                    target = x
        if target is None:
            ctx.ob(rule, "%s|shape" % t, False, where, "no in-place / rewrite dispatch found")
            continue
        cond = xstr(target.kids[0], F.al)
        for col, elem in sc.ragged:
            want1 = "(current_row.%s_length == %s_length)" % (col, col)
            want2 = "(%s_length == current_row.%s_length)" % (col, col)
            ctx.ob(rule, "%s|cond|%s" % (t, col), want1 in cond or want2 in cond, F.loc(target),
                   "in-place condition must require %s_length unchanged; condition is %s" % (col, cond))
        then = target.kids[1]
        thenF = _SubFacts(F, then)
        for col, elem in sc.fixed:
            ctx.ob(rule, "%s|store|%s" % (t, col), ("self->%s[index]" % col, "=", col) in thenF.assigns, F.loc(then),
                   "self->%s[index] = %s on the in-place path" % (col, col))
        for col, elem in sc.ragged:
            ok = False
            for cal, a in thenF.calls:
                if cal in ("tsk_memmove", "tsk_memcpy") and len(a) == 3 and a[1] == col and \
                        a[0] in ("&self->%s[self->%s_offset[index]]" % (col, col), "(self->%s + self->%s_offset[index])" % (col, col)) \
                        and ("%s_length" % col) in a[2]:
                    ok = True
            ctx.ob(rule, "%s|move|%s" % (t, col), ok, F.loc(then), "payload %s moved to self->%s[offset[index]] for %s_length elements" % (col, col, col))


class _SubFacts:
    def __init__(self, F, node):
        self.assigns = set()
        self.calls = []
        for x in walk(node):
            if x.k == "BinaryOperator" and x.op == "=":
                self.assigns.add((xstr(x.kids[0], F.al), "=", xstr(x.kids[1], F.al)))
            elif x.k == "CompoundAssignOperator":
                self.assigns.add((xstr(x.kids[0], F.al), x.op, xstr(x.kids[1], F.al)))
            elif x.k == "CallExpr":
                self.calls.append((callee(x), [xstr(a, F.al) for a in x.kids[1:]]))


def expand(ctx, P, S, rule="SCHEMA-EXPAND"):
    ctx.rule(rule, "tsk_<T>_table_expand_main_columns grows every fixed column with its element size and every offset column "
                   "to new_max_rows + 1")
    for t, sc in S.items():
        fn = _fn(P, ctx, sc.prefix + "expand_main_columns")
        F = Facts(P, fn)
        where = F.loc(fn.node)
        ex = {a[0]: (a, n) for a, n in F.calls_to("expand_column") if len(a) == 3}
        for col, elem in sc.fixed:
            ent = ex.get("&self->" + col)
            ok = ent is not None and ent[0][1] == "new_max_rows" and sizeof_ok(ent[0][2], elem, "self->" + col)
            ctx.ob(rule, "%s|%s" % (t, col), ok, F.loc(ent[1]) if ent else where,
                   "expand_column(&self->%s, new_max_rows, sizeof(%s)); found %s" % (col, elem, ent[0] if ent else None))
        for col, elem in sc.ragged:
            ent = ex.get("&self->%s_offset" % col)
            ok = ent is not None and ent[0][1] == "(new_max_rows + 1)" and sizeof_ok(ent[0][2], "tsk_size_t", "self->%s_offset" % col)
            ctx.ob(rule, "%s|%s_offset" % (t, col), ok, F.loc(ent[1]) if ent else where,
                   "expand_column(&self->%s_offset, new_max_rows + 1, sizeof(tsk_size_t)); found %s" % (col, ent[0] if ent else None))


def keep_rows(ctx, P, S, rule="SCHEMA-KEEPROWS"):
    ctx.rule(rule, "tsk_<T>_table_keep_rows compacts every column with the subset helper of its element type (self-referencing "
                   "columns through the remap helper, after the dangling-reference check) and stores the new lengths")
    for t, sc in S.items():
        fn = _fn(P, ctx, sc.prefix + "keep_rows")
        F = Facts(P, fn)
        where = F.loc(fn.node)
        for col, elem in sc.fixed:
            want = SELFREF.get((t, col)) or SUBSET_FN.get(elem)
            hits = [a for a, n in F.calls_to(want) if a and a[0] == "self->" + col] if want else []
            ctx.ob(rule, "%s|%s" % (t, col), bool(hits), where, "%s(self->%s, …)" % (want, col))
        for col, elem in sc.ragged:
            want = SELFREF.get((t, col)) or SUBSET_RAGGED_FN.get(elem)
            ok = False
            for l, o, r, n in F.assigns:
                if l == "self->%s_length" % col and o == "=" and r.startswith("%s(self->%s, self->%s_offset" % (want, col, col)):
                    ok = True
            ctx.ob(rule, "%s|%s" % (t, col), ok, where, "self->%s_length = %s(self->%s, self->%s_offset, …)" % (col, want, col, col))
        ctx.ob(rule, "%s|num_rows" % t, any(l == "self->num_rows" and o == "=" for l, o, r, n in F.assigns), where, "num_rows updated")
        if any(k[0] == t for k in SELFREF):
            # dangling reference rejection: a guard raising *_OUT_OF_BOUNDS / KEEP_ROWS_MAP_TO_DELETED
            src = F.tu.src(fn.body)
            ctx.ob(rule, "%s|dangling" % t, "TSK_ERR_KEEP_ROWS_MAP_TO_DELETED" in src, where,
                   "references to deleted rows are rejected (TSK_ERR_KEEP_ROWS_MAP_TO_DELETED)")


def truncate(ctx, P, S, rule="SCHEMA-TRUNCATE"):
    ctx.rule(rule, "tsk_<T>_table_truncate sets num_rows and resets every ragged length from offset[num_rows]")
    for t, sc in S.items():
        fn = _fn(P, ctx, sc.prefix + "truncate")
        F = Facts(P, fn)
        where = F.loc(fn.node)
        subj = [p.name for p in fn.params][1]
        selfn = [p.name for p in fn.params][0]
        ctx.ob(rule, "%s|num_rows" % t, F.has_assign("%s->num_rows" % selfn, subj) is not None, where, "num_rows = %s" % subj)
        for col, elem in sc.ragged:
            n = F.has_assign("%s->%s_length" % (selfn, col), "%s->%s_offset[%s]" % (selfn, col, subj))
            ctx.ob(rule, "%s|%s_length" % (t, col), n is not None, where, "%s_length = %s_offset[%s]" % (col, col, subj))


def _initlist_rows(F, fn, tyname):
    """Rows of a local array of struct `tyname` initialised with an InitListExpr: list of (row texts, row node)."""
    out = []
    for x in walk(fn.body):
        if x.k == "VarDecl" and tyname in (x.ty or "") and x.kids and x.kids[-1] is not None and x.kids[-1].k == "InitListExpr":
            for row in x.kids[-1].kids:
                if row is None or row.k != "InitListExpr":
                    continue
                out.append(([xstr(c, F.al) if c is not None else "" for c in row.kids], row, x.name))
    return out


def _s(txt):
    return txt[1:-1] if len(txt) >= 2 and txt[0] == '"' else txt


def dump_load(ctx, P, S, rule="SCHEMA-DUMPLOAD"):
    ctx.rule(rule, "per table, the kastore descriptor arrays of _dump and _load list every column under the key "
                   "'<table>/<column>' with the column's pointer, the right length and a storage type matching the element "
                   "type; writer key set == reader key set")
    for t, sc in S.items():
        pl = PLURAL[t]
        fd = _fn(P, ctx, sc.prefix + "dump")
        fl = _fn(P, ctx, sc.prefix + "load")
        FD, FL = Facts(P, fd), Facts(P, fl)
        wcols = {_s(r[0]): (r, n) for r, n, v in _initlist_rows(FD, fd, "write_table_col_t") if r and r[0].startswith('"')}
        wrag = {_s(r[0]): (r, n) for r, n, v in _initlist_rows(FD, fd, "write_table_ragged_col_t") if r and r[0].startswith('"')}
        rcols = {_s(r[0]): (r, n) for r, n, v in _initlist_rows(FL, fl, "read_table_col_t") if r and r[0].startswith('"')}
        rrag = {_s(r[0]): (r, n) for r, n, v in _initlist_rows(FL, fl, "read_table_ragged_col_t") if r and r[0].startswith('"')}
        rprop = {_s(r[0]): (r, n) for r, n, v in _initlist_rows(FL, fl, "read_table_property_t") if r and r[0].startswith('"')}
        whereD, whereL = FD.loc(fd.node), FL.loc(fl.node)
        for col, elem in sc.fixed:
            k = "%s/%s" % (pl, col)
            ent = wcols.get(k)
            ok = ent is not None and ent[0][1] == "self->" + col and ent[0][2] == "self->num_rows" and ent[0][3] in KAS_TYPE[elem]
            ctx.ob(rule, "%s|dump|%s" % (t, col), ok, FD.loc(ent[1]) if ent else whereD,
                   "{\"%s\", self->%s, self->num_rows, %s}; found %s" % (k, col, "/".join(KAS_TYPE[elem]), ent[0] if ent else None))
            ent = rcols.get(k)
            ok = ent is not None and ent[0][1] == "&" + col and ent[0][2] in KAS_TYPE[elem]
            ctx.ob(rule, "%s|load|%s" % (t, col), ok, FL.loc(ent[1]) if ent else whereL,
                   "{\"%s\", &%s, %s}; found %s" % (k, col, "/".join(KAS_TYPE[elem]), ent[0] if ent else None))
        for col, elem in sc.ragged:
            k = "%s/%s" % (pl, col)
            ent = wrag.get(k)
            ok = ent is not None and ent[0][1] == "self->" + col and ent[0][2] == "self->%s_length" % col and \
                ent[0][3] in KAS_TYPE[elem] and ent[0][4] == "self->%s_offset" % col and ent[0][5] == "self->num_rows"
            ctx.ob(rule, "%s|dump|%s" % (t, col), ok, FD.loc(ent[1]) if ent else whereD,
                   "ragged {\"%s\", self->%s, self->%s_length, %s, self->%s_offset, self->num_rows}; found %s"
                   % (k, col, col, "/".join(KAS_TYPE[elem]), col, ent[0] if ent else None))
            ent = rrag.get(k)
            ok = ent is not None and ent[0][1] == "&" + col and ent[0][2] == "&%s_length" % col and ent[0][3] in KAS_TYPE[elem] \
                and ent[0][4] == "&%s_offset" % col
            ctx.ob(rule, "%s|load|%s" % (t, col), ok, FL.loc(ent[1]) if ent else whereL,
                   "ragged {\"%s\", &%s, &%s_length, %s, &%s_offset}; found %s" % (k, col, col, "/".join(KAS_TYPE[elem]), col, ent[0] if ent else None))
        if sc.has_schema:
            k = "%s/metadata_schema" % pl
            ent = wcols.get(k)
            ok = ent is not None and ent[0][1] == "self->metadata_schema" and ent[0][2] == "self->metadata_schema_length" and ent[0][3] in KAS_TYPE["char"]
            ctx.ob(rule, "%s|dump|metadata_schema" % t, ok, whereD, "schema written with its own length; found %s" % (ent[0] if ent else None))
            ent = rprop.get(k)
            ok = ent is not None and ent[0][1] == "&metadata_schema" and ent[0][2] == "&metadata_schema_length" and ent[0][3] in KAS_TYPE["char"]
            ctx.ob(rule, "%s|load|metadata_schema" % t, ok, whereL, "schema read as property; found %s" % (ent[0] if ent else None))
            sets = FL.calls_to(sc.prefix + "set_metadata_schema")
            ok = any(a[1:] == ["metadata_schema", "metadata_schema_length"] for a, n in sets)
            ctx.ob(rule, "%s|load|metadata_schema|set" % t, ok, whereL, "set_metadata_schema(self, metadata_schema, metadata_schema_length)")
        wk = set(wcols) | set(wrag)
        rk = set(rcols) | set(rrag) | set(rprop)
        ctx.ob(rule, "%s|keyset" % t, wk == rk, whereD, "writer keys %s == reader keys %s" % (sorted(wk - rk), sorted(rk - wk)))
        # the loaded arrays are handed to takeset_columns under their own names (ARGNAME covers order)
        ts = FL.calls_to(sc.prefix + "takeset_columns")
        ctx.ob(rule, "%s|load|takeset" % t, len(ts) == 1 and ts[0][0][1] == "num_rows", whereL, "takeset_columns(self, num_rows, …) called once")


def append_columns(ctx, P, S, rule="SCHEMA-APPEND"):
    ctx.rule(rule, "tsk_<T>_table_append_columns copies every fixed column parameter to self-><col> + self->num_rows with "
                   "num_rows * sizeof(elem) (or fills the documented default when the optional parameter is NULL); "
                   "takeset_columns assigns every column pointer; set_columns = clear + append")
    for t, sc in S.items():
        fn = _fn(P, ctx, sc.prefix + "append_columns")
        F = Facts(P, fn)
        where = F.loc(fn.node)
        cps = F.calls_to("tsk_memcpy") + F.calls_to("tsk_memmove")
        for col, elem in sc.fixed:
            ok = False
            for a, n in cps:
                if len(a) == 3 and a[0] in ("(self->%s + self->num_rows)" % col, "&self->%s[self->num_rows]" % col) and a[1] == col:
                    fac = factors(n.kids[3])
                    sz = [f for f in fac if f.startswith("sizeof")]
                    rest = tuple(f for f in fac if not f.startswith("sizeof"))
                    ok = len(sz) == 1 and sizeof_ok(sz[0], elem, "self->" + col) and rest == ("num_rows",)
            ctx.ob(rule, "%s|append|%s" % (t, col), ok, where, "memcpy(self->%s + self->num_rows, %s, num_rows * sizeof(%s))" % (col, col, elem))
        for col, elem in sc.ragged:
            ok = any(len(a) == 3 and a[0] in ("(self->%s + self->%s_length)" % (col, col), "&self->%s[self->%s_length]" % (col, col))
                     and a[1] == col for a, n in cps)
            ctx.ob(rule, "%s|append|%s" % (t, col), ok, where, "ragged payload %s appended at self->%s_length" % (col, col))
            ok = any(l.startswith("self->%s_offset[" % col) for l, o, r, n in F.assigns)
            ctx.ob(rule, "%s|append|%s_offset" % (t, col), ok, where, "offsets of %s rebased" % col)
        ok = F.has_assign("self->num_rows", "num_rows", "+=") is not None
        ctx.ob(rule, "%s|append|num_rows" % t, ok, where, "self->num_rows += num_rows")
        # takeset
        ft = P.func(sc.prefix + "takeset_columns", "tables")
        if ft is not None:
            FT = Facts(P, ft)
            opt = {a[2]: a for a, n in FT.calls_to("takeset_optional_id_column") if len(a) == 3}
            rag = {a[3]: a for a, n in FT.calls_to("takeset_ragged_column") if len(a) == 6}
            for col, elem in sc.fixed:
                a = opt.get("&self->" + col)
                ok = FT.has_assign("self->" + col, col) is not None or (a is not None and a[0] == "num_rows" and a[1] == col)
                ctx.ob(rule, "%s|takeset|%s" % (t, col), ok, FT.loc(ft.node),
                       "self->%s = %s (or takeset_optional_id_column(num_rows, %s, &self->%s))" % (col, col, col, col))
            for col, elem in list(sc.ragged):
                a = rag.get("&self->" + col)
                if a is not None:
                    ok = a == ["num_rows", col, col + "_offset", "&self->" + col, "&self->%s_offset" % col, "&self->%s_length" % col]
                    ctx.ob(rule, "%s|takeset|%s" % (t, col), ok, FT.loc(ft.node),
                           "takeset_ragged_column(num_rows, %s, %s_offset, &self->%s, &self->%s_offset, &self->%s_length); found %s" % (col, col, col, col, col, a))
                    continue
                ctx.ob(rule, "%s|takeset|%s" % (t, col), FT.has_assign("self->" + col, col) is not None, FT.loc(ft.node), "self->%s = %s" % (col, col))
                ctx.ob(rule, "%s|takeset|%s_offset" % (t, col), FT.has_assign("self->%s_offset" % col, col + "_offset") is not None,
                       FT.loc(ft.node), "self->%s_offset = %s_offset" % (col, col))
                ctx.ob(rule, "%s|takeset|%s_length" % (t, col),
                       FT.has_assign("self->%s_length" % col, "self->%s_offset[self->num_rows]" % col) is not None or
                       FT.has_assign("self->%s_length" % col, "self->%s_offset[num_rows]" % col) is not None or
                       FT.has_assign("self->%s_length" % col, "%s_offset[num_rows]" % col) is not None,
                       FT.loc(ft.node), "self->%s_length = offset[num_rows]" % col)
            ctx.ob(rule, "%s|takeset|num_rows" % t, FT.has_assign("self->num_rows", "num_rows") is not None, FT.loc(ft.node), "self->num_rows = num_rows")
        fs = _fn(P, ctx, sc.prefix + "set_columns")
        FS = Facts(P, fs)
        ok = bool(FS.calls_to(sc.prefix + "clear")) and bool(FS.calls_to(sc.prefix + "append_columns"))
        ctx.ob(rule, "%s|set=clear+append" % t, ok, FS.loc(fs.node), "set_columns calls clear then append_columns")


def all_families(ctx, P, S=None, funcs=None):
    S = S or load_schemas(P)
    ctx.need(len(S) == 8, "eight table structs in tables.h (found %d)" % len(S))
    equals(ctx, P, S)
    add_row(ctx, P, S)
    get_row(ctx, P, S)
    update_row(ctx, P, S)
    expand(ctx, P, S)
    keep_rows(ctx, P, S)
    truncate(ctx, P, S)
    append_columns(ctx, P, S)
    dump_load(ctx, P, S)
    argname(ctx, P, tus=("tables",), funcs=funcs)
    row_forwarding(ctx, P, tus=("tables",), funcs=funcs)
    return S


# =============================================================================================
# collection level
MEMBER = {"individual": "individuals", "node": "nodes", "edge": "edges", "migration": "migrations", "site": "sites",
          "mutation": "mutations", "population": "populations", "provenance": "provenances"}


def collection(ctx, P, rule="SCHEMA-COLLECTION"):
    ctx.rule(rule, "tsk_table_collection_equals/_copy/_dumpf/_loadf_inited/_clear handle every table member through the "
                   "like-named per-table call on the same member of both operands, plus sequence_length, time_units, metadata, "
                   "metadata_schema, indexes and the reference sequence; comparison options gate exactly the documented parts")
    members = {f: ty for f, ty, _ in P.structs.get("tsk_table_collection_t", [])}
    ctx.need(all(m in members for m in MEMBER.values()), "table members of tsk_table_collection_t")
    # ---- equals
    fn = _fn(P, ctx, "tsk_table_collection_equals")
    F = Facts(P, fn)
    where = F.loc(fn.node)
    for t, mem in MEMBER.items():
        hits = F.calls_to("tsk_%s_table_equals" % t)
        ok = any(a[:2] == ["&self->" + mem, "&other->" + mem] and a[2] == "options" for a, n in hits)
        node = hits[0][1] if hits else None
        conds = [F.tu.src(i.kids[0]) for i, br in F.enclosing_ifs(node)] if node is not None else []
        want = ["TSK_CMP_IGNORE_TABLES"] + (["TSK_CMP_IGNORE_PROVENANCE"] if t == "provenance" else [])
        okc = all(any(w in c for c in conds) for w in want) and len(conds) == len(want)
        ctx.ob(rule, "equals|%s" % mem, ok and okc, F.loc(node) if node is not None else where,
               "tsk_%s_table_equals(&self->%s, &other->%s, options) under %s; found args %s under %s"
               % (t, mem, mem, want, [a for a, n in hits], conds))
    cmps = {(a[0], a[1]): (factors(n.kids[3]), n) for a, n in F.calls_to("tsk_memcmp") if len(a) == 3}
    for f_, lenf, cond in (("time_units", "time_units_length", None), ("metadata", "metadata_length", "TSK_CMP_IGNORE_TS_METADATA"),
                           ("metadata_schema", "metadata_schema_length", "TSK_CMP_IGNORE_TS_METADATA")):
        ent = cmps.get(("self->" + f_, "other->" + f_))
        ok = ent is not None and ("self->" + lenf) in ent[0]
        if ok:
            conds = [F.tu.src(i.kids[0]) for i, br in F.enclosing_ifs(ent[1])]
            ok = (not conds) if cond is None else (len(conds) == 1 and cond in conds[0])
        ctx.ob(rule, "equals|%s" % f_, ok, where, "memcmp(self->%s, other->%s, self->%s …) %s" % (f_, f_, lenf, "unconditionally" if cond is None else "under " + cond))
    src = F.tu.src(fn.body)
    ctx.ob(rule, "equals|sequence_length", "(self->sequence_length == other->sequence_length)" in xstr(fn.body.kids[0].kids[0].kids[-1], F.al)
           if fn.body.kids and fn.body.kids[0].k == "DeclStmt" else "self->sequence_length == other->sequence_length" in src,
           where, "sequence_length compared")
    hits = F.calls_to("tsk_reference_sequence_equals")
    ok = any(a[:2] == ["&self->reference_sequence", "&other->reference_sequence"] for a, n in hits)
    if ok:
        conds = [F.tu.src(i.kids[0]) for i, br in F.enclosing_ifs(hits[0][1])]
        ok = len(conds) == 1 and "TSK_CMP_IGNORE_REFERENCE_SEQUENCE" in conds[0]
    ctx.ob(rule, "equals|reference_sequence", ok, where, "reference sequence compared under TSK_CMP_IGNORE_REFERENCE_SEQUENCE")
    # ---- copy
    fn = _fn(P, ctx, "tsk_table_collection_copy")
    F = Facts(P, fn)
    where = F.loc(fn.node)
    for t, mem in MEMBER.items():
        hits = F.calls_to("tsk_%s_table_copy" % t)
        ok = any(a[:2] == ["&self->" + mem, "&dest->" + mem] for a, n in hits)
        okc = ok and not F.enclosing_ifs(hits[0][1])
        ctx.ob(rule, "copy|%s" % mem, ok and okc, where, "tsk_%s_table_copy(&self->%s, &dest->%s, …) unconditionally" % (t, mem, mem))
    for setter, a1, a2 in (("tsk_table_collection_set_time_units", "self->time_units", "self->time_units_length"),
                           ("tsk_table_collection_set_metadata", "self->metadata", "self->metadata_length"),
                           ("tsk_table_collection_set_metadata_schema", "self->metadata_schema", "self->metadata_schema_length")):
        hits = F.calls_to(setter)
        ok = any(a == ["dest", a1, a2] for a, n in hits) and not F.enclosing_ifs(hits[0][1])
        ctx.ob(rule, "copy|%s" % setter.replace("tsk_table_collection_set_", ""), ok, where, "%s(dest, %s, %s) unconditionally" % (setter, a1, a2))
    ctx.ob(rule, "copy|sequence_length", F.has_assign("dest->sequence_length", "self->sequence_length") is not None, where, "sequence_length copied")
    hits = F.calls_to("tsk_reference_sequence_copy")
    ctx.ob(rule, "copy|reference_sequence", any(a[:2] == ["&self->reference_sequence", "&dest->reference_sequence"] for a, n in hits), where, "reference sequence copied")
    hits = F.calls_to("tsk_table_collection_set_indexes")
    ctx.ob(rule, "copy|indexes", any(a == ["dest", "self->indexes.edge_insertion_order", "self->indexes.edge_removal_order"] for a, n in hits), where,
           "indexes copied (insertion, removal in order)")
    # ---- dumpf / loadf_inited: per-table calls on the like-named member
    for fname, suffix in (("tsk_table_collection_dumpf", "dump"), ("tsk_table_collection_loadf_inited", "load")):
        fn = P.func(fname, "tables")
        if fn is None and suffix == "load":
            fn = P.func("tsk_table_collection_load_tables", "tables")
        ctx.need(fn is not None, fname)
        F = Facts(P, fn)
        # load may delegate the table part to a helper
        allcalls = list(F.calls)
        for c_, a_, n_ in list(F.calls):
            if c_ and c_.startswith("tsk_table_collection_") and c_ not in ("tsk_table_collection_read_format_data",):
                g = P.func(c_, "tables")
                if g is not None and suffix == "load" and "load" in c_:
                    allcalls += Facts(P, g).calls
        for t, mem in MEMBER.items():
            ok = any(c_ == "tsk_%s_table_%s" % (t, suffix) and a_ and a_[0] == "&self->" + mem for c_, a_, n_ in allcalls)
            ctx.ob(rule, "%s|%s" % (suffix, mem), ok, F.loc(fn.node), "tsk_%s_table_%s(&self->%s, store, …)" % (t, suffix, mem))
    # format columns written
    fn = _fn(P, ctx, "tsk_table_collection_dumpf")
    F = Facts(P, fn)
    rows = {_s(r[0]): r for r, n, v in _initlist_rows(F, fn, "write_table_col_t") if r and r[0].startswith('"')}
    for k, ptr, ln in (("time_units", "self->time_units", "self->time_units_length"), ("metadata", "self->metadata", "self->metadata_length"),
                       ("metadata_schema", "self->metadata_schema", "self->metadata_schema_length"), ("sequence_length", "&self->sequence_length", "1")):
        r = rows.get(k)
        ctx.ob(rule, "dump|%s" % k, r is not None and r[1] == ptr and r[2] == ln, F.loc(fn.node), "{\"%s\", %s, %s}; found %s" % (k, ptr, ln, r))
    for k in ("format/name", "format/version", "uuid"):
        ctx.ob(rule, "dump|%s" % k, k in rows, F.loc(fn.node), "%s written" % k)


def read_format(ctx, P, rule="SCHEMA-READFORMAT"):
    ctx.rule(rule, "tsk_table_collection_read_format_data applies every top-level item it reads: the setter for an optional item "
                   "is guarded only by the item's presence test (kastore_containss on the same key), never by its value or length; "
                   "the key read, the variable and the setter agree")
    fn = _fn(P, ctx, "tsk_table_collection_read_format_data")
    F = Facts(P, fn)
    where = F.loc(fn.node)
    for key, setter in (("time_units", "tsk_table_collection_set_time_units"), ("metadata", "tsk_table_collection_takeset_metadata"),
                        ("metadata_schema", "tsk_table_collection_set_metadata_schema")):
        hits = F.calls_to(setter)
        if not hits:
            ctx.ob(rule, key + "|setter", False, where, "%s is never called: `%s` read from the file is dropped" % (setter, key))
            continue
        a, node = hits[0]
        ok = a[0] == "self" and a[1] == key and a[2] == key + "_length"
        ctx.ob(rule, key + "|args", ok, F.loc(node), "%s(self, %s, %s_length); found %s" % (setter, key, key, a))
        conds = [xstr(i.kids[0], F.al) for i, br in F.enclosing_ifs(node)]
        okc = all(c in ("(ret == 1)", "(1 == ret)") for c in conds) and len(conds) <= 1
        ctx.ob(rule, key + "|guard", okc, F.loc(node), "guarded only by presence (ret == 1); found %s" % conds)
        gets = [aa for c_, aa, n_ in F.calls if c_ and c_.startswith("kastore_gets") and aa and aa[1] == '"%s"' % key]
        okg = any(aa[2] == "&" + key and aa[3] in ("&%s_length" % key,) for aa in gets)
        ctx.ob(rule, key + "|gets", okg, where, "kastore_gets(\"%s\", &%s, &%s_length); found %s" % (key, key, key, gets))
        cont = [aa for aa, n_ in F.calls_to("kastore_containss") if aa[1] == '"%s"' % key]
        ctx.ob(rule, key + "|contains", bool(cont), where, "presence of \"%s\" tested" % key)
    n = F.has_assign("self->sequence_length", "L[0]")
    ctx.ob(rule, "sequence_length|assign", n is not None, where, "self->sequence_length = L[0]")
    hits = F.calls_to("tsk_table_collection_set_file_uuid")
    ctx.ob(rule, "uuid|setter", any(a == ["self", "uuid"] for a, n_ in hits), where, "file uuid applied")


# =============================================================================================
DOMAIN_OK = {
    ("simplifier_init_nodes", "self->tables->nodes.flags"): "under TSK_SIMPLIFY_NO_FILTER_NODES the output node table is a row-for-row copy of the input",
    ("tsk_treeseq_split_edges", "tables->mutations.node"): "`tables` is the freshly made copy of self->tables (same rows)",
}
_TBL = r"(individuals|nodes|edges|migrations|sites|mutations|populations|provenances)"


def column_domain(ctx, P, rule="COLUMN-DOMAIN", tus=None, floor=55, funcs=None):
    """A loop counter ranging over the rows of table T of collection X indexes only columns of X.T directly."""
    from sa.cfront import LIB_TUS
    from sa.expr import local_aliases
    ctx.rule(rule, "a loop counter bounded by <X>.<table>.num_rows directly subscripts only columns of that same table of that "
                   "same collection; reaching another table or another collection's rows goes through an id column or a mapping "
                   "array (e.g. self->nodes.individual[other_node_mapping[k]], never self->nodes.individual[k] in a loop over other's nodes)")
    n = 0
    for key in (tus or LIB_TUS):
        tu = P.tus[key]
        for fn in tu.funcs.values():
            if funcs is not None and not funcs(fn.name):
                continue
            al = None
            for lp in walk(fn.body):
                if lp.k != "ForStmt":
                    continue
                kids = lp.kids + [None] * (5 - len(lp.kids))
                cond, body = strip(kids[2]), kids[4]
                if cond is None or cond.k != "BinaryOperator" or cond.op != "<":
                    continue
                al = al or local_aliases(fn)
                var = estr(cond.kids[0])
                bound = xstr(cond.kids[1], al)
                m = re.fullmatch(r"(.*?)[\.>]?%s\.num_rows" % _TBL, bound)
                if not m:
                    continue
                owner, tbl = m.group(1).rstrip("-"), m.group(2)
                for x in walk(body):
                    if x.k == "ArraySubscriptExpr" and estr(x.kids[1]) == var:
                        base = xstr(x.kids[0], al)
                        mb = re.fullmatch(r"(.*?)[\.>]?%s\.(\w+)" % _TBL, base)
                        if not mb:
                            continue
                        o2, t2, col = mb.group(1).rstrip("-"), mb.group(2), mb.group(3)
                        ok = (t2 == tbl and o2 == owner)
                        why = "%s[%s] inside a loop over %s" % (base, var, bound)
                        if not ok and (fn.name, base) in DOMAIN_OK:
                            ok, why = True, "exception: " + DOMAIN_OK[(fn.name, base)]
                        elif not ok:
                            why += ": `%s` counts rows of %s.%s, not of %s.%s" % (var, owner or "?", tbl, o2 or "?", t2)
                        n += 1
                        ctx.ob(rule, "%s|%s[%s]|%s" % (fn.name, base, var, bound), ok, tu.loc(x), why)
    ctx.floor(rule, floor if (tus is None and funcs is None) else 1)
    return n


# =============================================================================================
# numpy's fixed-width names are macros for the platform enum constants (NPY_FLOAT64 -> NPY_DOUBLE ...): accept both spellings
NPY_TYPE = {"double": ("NPY_FLOAT64", "NPY_DOUBLE"), "tsk_id_t": ("NPY_INT32", "NPY_INT"), "tsk_flags_t": ("NPY_UINT32", "NPY_UINT"),
            "char": ("NPY_INT8", "NPY_BYTE")}


def dict_interchange(ctx, P, S, rule="SCHEMA-DICT"):
    ctx.rule(rule, "the dictionary interchange (asdict / fromdict / pickle) handles every column of every table: write_table_arrays "
                   "lists it under its own name with its pointer, row count / ragged length and the numpy dtype of its element type; "
                   "parse_<table>_table_dict looks the same key up, converts it with the same dtype and hands it to append_columns in "
                   "the like-named slot; writer key set == reader key set")
    tu = P.tus["module"]
    wf = P.need("write_table_arrays", "module")
    FW = Facts(P, wf)
    wcols = {}
    wrag = {}
    for r, n, v in _initlist_rows(FW, wf, "tsklwt_table_col_t"):
        if r and r[0].startswith('"'):
            wcols[(v.replace("_cols", ""), _s(r[0]))] = (r, n)
    for r, n, v in _initlist_rows(FW, wf, "tsklwt_ragged_col_t"):
        if r and r[0].startswith('"'):
            wrag[(v.replace("_ragged_cols", ""), _s(r[0]))] = (r, n)
    for t, sc in S.items():
        pl = PLURAL[t]
        rf = P.need("parse_%s_table_dict" % t, "module")
        FR = Facts(P, rf)
        keys_read = {}
        for a, n in FR.calls_to("get_dict_value") + FR.calls_to("get_dict_value_string") + FR.calls_to("get_dict_value_bytes"):
            if len(a) >= 2 and a[1].startswith('"'):
                keys_read[_s(a[1])] = a
        conv = {}
        checks = []
        for l, o, r, n in FR.assigns:
            mm = re.match(r"table_read_column_array\((\w+)_input, (\w+), &(\w+), (\w+)\)", r)
            if mm:
                conv[mm.group(1)] = (mm.group(2), mm.group(3))
                checks.append((mm.group(1), mm.group(3), mm.group(4), n))
            mo = re.match(r"table_read_offset_array\((\w+)_input, &(\w+), (\w+), (\w+)\)", r)
            if mo:
                conv[mo.group(1)] = ("offset", mo.group(3))
        app = FR.calls_to("tsk_%s_table_append_columns" % t)
        cal = P.func("tsk_%s_table_append_columns" % t, "tables")
        pnames = [p.name for p in cal.params] if cal else []
        whereW, whereR = FW.loc(wf.node), FR.loc(rf.node)
        for col, elem in sc.fixed:
            ent = wcols.get((t, col))
            ok = ent is not None and ent[0][1] == "tables->%s.%s" % (pl, col) and ent[0][2] == "tables->%s.num_rows" % pl and ent[0][3] in NPY_TYPE[elem]
            ctx.ob(rule, "%s|write|%s" % (t, col), ok, FW.loc(ent[1]) if ent else whereW,
                   "{\"%s\", tables->%s.%s, tables->%s.num_rows, %s}; found %s" % (col, pl, col, pl, NPY_TYPE[elem][0], ent[0] if ent else None))
            ok = col in keys_read and conv.get(col, (None,))[0] in NPY_TYPE[elem] and conv.get(col, (None, None))[1] == "num_rows"
            ctx.ob(rule, "%s|read|%s" % (t, col), ok, whereR, "key \"%s\" converted as %s with length num_rows; found %s" % (col, NPY_TYPE[elem][0], conv.get(col)))
        for col, elem in sc.ragged:
            ent = wrag.get((t, col))
            ok = ent is not None and ent[0][1] == "tables->%s.%s" % (pl, col) and ent[0][2] == "tables->%s.%s_offset" % (pl, col) \
                and ent[0][3] == "tables->%s.num_rows" % pl and ent[0][4] == "tables->%s.%s_length" % (pl, col) and ent[0][5] in NPY_TYPE[elem]
            ctx.ob(rule, "%s|write|%s" % (t, col), ok, FW.loc(ent[1]) if ent else whereW,
                   "ragged {\"%s\", data, offset, num_rows, %s_length, %s}; found %s" % (col, col, NPY_TYPE[elem][0], ent[0] if ent else None))
            ok = col in keys_read and (col + "_offset") in keys_read and conv.get(col, (None,))[0] in NPY_TYPE[elem] \
                and conv.get(col, (None, None))[1] == col + "_length" and conv.get(col + "_offset", (None, None)) == ("offset", col + "_length")
            ctx.ob(rule, "%s|read|%s" % (t, col), ok, whereR, "keys \"%s\"/\"%s_offset\" converted (%s, offsets checked against %s_length); found %s / %s"
                   % (col, col, NPY_TYPE[elem][0], col, conv.get(col), conv.get(col + "_offset")))
        # every length is established once (first conversion, check off) and every later array is compared with it
        for lenvar in sorted({c[1] for c in checks}):
            seq = sorted([c for c in checks if c[1] == lenvar], key=lambda c: c[3].b)
            flags = [c[2] for c in seq]
            okc = flags[:1] in (["false"], ["0"]) and all(f in ("true", "1") for f in flags[1:])
            ctx.ob(rule, "%s|read|length-check|%s" % (t, lenvar), okc, FR.loc(seq[0][3]),
                   "`%s` set by %s, compared for %s" % (lenvar, seq[0][0], [c[0] for c in seq[1:]]) if okc else
                   "length checks for `%s`: %s: an array of another length is accepted and %s rows are then copied from shorter buffers"
                   % (lenvar, [(c[0], c[2]) for c in seq], lenvar))
        # append_columns slots: argument text mentions the like-named column
        if app and pnames:
            a = app[0][0]
            bad = []
            for i, pn in enumerate(pnames):
                if pn in ("self", "num_rows") or i >= len(a):
                    continue
                if not re.search(r"\b%s_(array|data)\b" % re.escape(pn), a[i]):
                    bad.append("slot %d (`%s`) receives `%s`" % (i, pn, a[i]))
            ctx.ob(rule, "%s|read|append-slots" % t, not bad and a[1] == "num_rows", FR.loc(app[0][1]), "; ".join(bad) or "every converted column goes to its own slot")
        else:
            ctx.ob(rule, "%s|read|append-slots" % t, False, whereR, "append_columns call not found")
        wk = {c for (tt, c) in wcols if tt == t} | {c for (tt, c) in wrag if tt == t} | {c + "_offset" for (tt, c) in wrag if tt == t}
        rk = set(keys_read) - {"metadata_schema"}
        ctx.ob(rule, "%s|keyset" % t, wk == rk, whereR, "writer-only keys %s, reader-only keys %s" % (sorted(wk - rk), sorted(rk - wk)))
        if sc.has_schema:
            ctx.ob(rule, "%s|read|metadata_schema" % t, "metadata_schema" in keys_read and bool(FR.calls_to("tsk_%s_table_set_metadata_schema" % t)), whereR,
                   "metadata_schema read and applied")
            sm = FR.calls_to("tsk_%s_table_set_metadata_schema" % t)
            if sm:
                conds = [" ".join(tu.src(i.kids[0]).split()) for i, br in FR.enclosing_ifs(sm[0][1])]
                okc = len(conds) == 1 and "Py_None" in conds[0] and "length" not in conds[0]
                ctx.ob(rule, "%s|read|metadata_schema|guard" % t, okc, tu.loc(sm[0][1]),
                       "the schema is applied whenever the key is present (%s)" % conds if okc else
                       "the schema is applied only under %s: an explicitly supplied empty schema string (the null schema) is treated as absent "
                       "and the table keeps its previous schema" % conds)
    # the edge indexes: written exactly when the collection has an index (an index over zero edges is still an index)
    sel = [x for x in walk(wf.body) if x.k == "ConditionalOperator" and "indexes_cols" in estr(x.kids[1]) + estr(x.kids[2])]
    ctx.need(bool(sel), "write_table_arrays: the `? indexes_cols : no_indexes_cols` selection")
    cond = " ".join(tu.src(sel[0].kids[0]).split())
    ok = re.fullmatch(r"tsk_table_collection_has_index\(\s*\w+\s*,\s*0\s*\)", cond) is not None and "no_indexes_cols" in estr(sel[0].kids[2])
    ctx.ob(rule, "indexes|written-iff-has-index", ok, tu.loc(sel[0]),
           "index columns are written under `%s`%s" % (cond, "" if ok else ": a collection that has an index (possibly over zero edges) loses it through asdict / pickle / copy"))


CLS = {"individual": "IndividualTable", "node": "NodeTable", "edge": "EdgeTable", "migration": "MigrationTable", "site": "SiteTable",
       "mutation": "MutationTable", "population": "PopulationTable", "provenance": "ProvenanceTable"}
NPY_OFFSET = ("NPY_UINT64", "NPY_ULONG", "NPY_ULONGLONG")


# same width and kind: bytes are handed out as signed or unsigned 8-bit (metadata is opaque bytes)
GETTER_NPY = dict(NPY_TYPE, char=("NPY_INT8", "NPY_BYTE", "NPY_UINT8", "NPY_UBYTE"))
SIZEOF_EQ = {"double": ("sizeof(double)",), "tsk_id_t": ("sizeof(tsk_id_t)", "sizeof(int32_t)"), "tsk_flags_t": ("sizeof(tsk_flags_t)", "sizeof(uint32_t)"),
             "char": ("sizeof(char)", "sizeof(int8_t)", "sizeof(uint8_t)")}


def getters(ctx, P, S, rule="SCHEMA-GETTER"):
    ctx.rule(rule, "every column getter of the module hands out the like-named column with the matching (length, dtype, pointer) "
                   "triple: <Table>_get_<col> copies num_rows elements of sizeof(elem) (offsets: num_rows + 1 through "
                   "table_get_offset_array, ragged data: <col>_length), TreeSequence_get_<table>s_<col> views "
                   "tables-><table>s.<col> with <table>s.num_rows / <col>_length / num_rows + 1 elements and the dtype of the element type")
    tu = P.tus["module"]
    n = 0
    for t, sc in S.items():
        pl, cls = PLURAL[t], CLS[t]
        cols = [(c, e, "num_rows") for c, e in sc.fixed] + [(c, e, c + "_length") for c, e in sc.ragged] + \
               [(c + "_offset", "tsk_size_t", "num_rows+1") for c, e in sc.ragged]
        for col, elem, ln in cols:
            # ---- table getter
            fn = tu.funcs.get("%s_get_%s" % (cls, col))
            if fn is not None:
                F = Facts(P, fn)
                n += 1
                if col.endswith("_offset"):
                    hits = F.calls_to("table_get_offset_array")
                    ok = any(a == ["self->table->num_rows", "self->table->" + col] for a, x in hits)
                    ctx.ob(rule, "%s_get_%s" % (cls, col), ok, F.loc(fn.node), "table_get_offset_array(self->table->num_rows, self->table->%s); found %s" % (col, [a for a, x in hits]))
                else:
                    hits = F.calls_to("table_get_column_array")
                    want_len = "self->table->" + ln
                    ok = False
                    for a, x in hits:
                        if len(a) == 4 and a[0] == want_len and a[1] == "self->table->" + col and a[2] in GETTER_NPY[elem] \
                                and (a[3] in SIZEOF_EQ[elem] or a[3] == "sizeof(*self->table->%s)" % col):
                            ok = True
                    ctx.ob(rule, "%s_get_%s" % (cls, col), ok, F.loc(fn.node),
                           "table_get_column_array(%s, self->table->%s, %s, sizeof(%s)); found %s" % (want_len, col, NPY_TYPE[elem][0], elem, [a for a, x in hits]))
            # ---- tree sequence getter
            fn = tu.funcs.get("TreeSequence_get_%s_%s" % (pl, col))
            if fn is not None:
                F = Facts(P, fn)
                hits = F.calls_to("TreeSequence_make_array")
                n += 1
                base = "self->tree_sequence->tables->%s" % pl
                if ln == "num_rows+1":
                    want_len = ("(%s.num_rows + 1)" % base,)
                    want_ty = NPY_OFFSET
                else:
                    want_len = ("%s.%s" % (base, ln),)
                    want_ty = GETTER_NPY[elem]
                ok = any(len(a) == 4 and a[1] in want_len and a[2] in want_ty and a[3] == "%s.%s" % (base, col) for a, x in hits)
                ctx.ob(rule, "TreeSequence_get_%s_%s" % (pl, col), ok, F.loc(fn.node),
                       "make_array(self, %s, %s, %s.%s); found %s" % (want_len[0], want_ty[0], base, col, [a for a, x in hits]))
    ctx.ob(rule, "instances", n >= 60, "python/_tskitmodule.c", "%d getters analysed" % n)
    # the getset tables route each python name to the like-named getter
    from sa import modinfo
    meths, getsets = modinfo.method_tables(tu)
    for tname, rows in getsets.items():
        cls = tname.replace("_getsetters", "")
        for pyname, g, s_ in rows:
            if g is None:
                continue
            ok = g.endswith("_get_" + pyname)
            if cls in ("TreeSequence",) or cls in CLS.values():
                ctx.ob(rule, "getset|%s.%s" % (cls, pyname), ok, "python/_tskitmodule.c (%s)" % tname, "attribute `%s` -> %s" % (pyname, g))


def subset_helpers(ctx, P, rule="SCHEMA-SUBSET"):
    ctx.rule(rule, "the column compaction helpers used by keep_rows (subset_*_column) visit every row once (`j < num_rows`), keep a row "
                   "iff keep[j], and the remap variants translate every non-NULL reference through id_map - the only conditions "
                   "inside the loop are the keep test and `!= TSK_NULL` on the value being remapped (no shortcut may skip the "
                   "lookup: references can point forwards)")
    tu = P.tus["tables"]
    names = [n for n in tu.funcs if re.fullmatch(r"subset_\w+_column", n)]
    ctx.need(len(names) >= 6, "subset_*_column helpers (found %d)" % len(names))
    for name in sorted(names):
        fn = tu.funcs[name]
        F = Facts(P, fn)
        loops = [x for x in walk(fn.body) if x.k == "ForStmt"]
        outer = loops[0] if loops else None
        ok = outer is not None and estr(outer.kids[2]) == "(j < num_rows)" and estr(outer.kids[0]) == "(j = 0)"
        ctx.ob(rule, "%s|loop" % name, ok, tu.loc(fn.node), "single pass j = 0 .. num_rows")
        conds = [estr(x.kids[0]) for x in walk(fn.body) if x.k == "IfStmt"]
        remap = "remap" in name
        allowed = {"keep[j]"}
        nullc = [c for c in conds if re.fullmatch(r"\((\w+) != TSK_NULL\)", c)]
        other = [c for c in conds if c not in allowed and c not in nullc]
        ok = "keep[j]" in conds and not other and (len(nullc) == 1 if remap else not nullc)
        ctx.ob(rule, "%s|conditions" % name, ok, tu.loc(fn.node), "conditions inside the loop: %s" % conds if ok else
               "conditions %s: only keep[j]%s may guard the compaction" % (conds, " and one `value != TSK_NULL`" if remap else ""))
        if remap:
            look = [(l, r, n) for l, o, r, n in F.assigns if re.fullmatch(r"id_map\[\w+\]", r)]
            okl = len(look) == 1
            if okl:
                l, r, n = look[0]
                v = re.fullmatch(r"id_map\[(\w+)\]", r).group(1)
                enc = [estr(i.kids[0]) for i, br in F.enclosing_ifs(n)]
                okl = l == v and enc[:1] == ["(%s != TSK_NULL)" % v] and set(enc[1:]) <= {"keep[j]"}
            ctx.ob(rule, "%s|lookup" % name, okl, tu.loc(fn.node), "value = id_map[value] under exactly `value != TSK_NULL`; found %s" % [(l, r) for l, r, n in look])
