"""Module-level ownership: objects of _tskitmodule.c that keep a pointer to another Python object hold a reference to it."""
from __future__ import annotations

import os
import re

from sa.expr import strip, walk, estr, callee, callname, calls, is_assign

PYOBJ = re.compile(r"^(PyObject|TreeSequence|TableCollection|Tree|Variant|IdentitySegments|\w+Table) \*$")


def module_owner_refs(ctx, P, rule="MODULE-OWNER"):
    ctx.rule(rule, "an extension object that stores a pointer to another Python object (`self->tree_sequence = tree_sequence`, "
                   "`self->tables = tables`, `self->owner = owner`) takes a reference in the same function (Py_INCREF of that "
                   "member or of the value stored) and its type's dealloc releases it (Py_XDECREF / Py_DECREF of the member): "
                   "otherwise the tree sequence can be garbage collected while a Tree, Variant or table view still reads its memory")
    tu = P.tus["module"]
    n = 0
    deallocs = {f.name: f for f in tu.funcs.values() if f.name.endswith("_dealloc")}
    for fn in tu.funcs.values():
        if fn.body is None:
            continue
        for x in walk(fn.body):
            if not is_assign(x):
                continue
            l, r = strip(x.kids[0]), strip(x.kids[1])
            if l is None or r is None or l.k != "MemberExpr" or not l.arrow:
                continue
            holder = estr(l.kids[0])
            if not PYOBJ.match((l.ty or "").strip()) or r.k != "DeclRefExpr" or r.refkind not in (None, "ParmVarDecl", "VarDecl"):
                continue
            if estr(r) in ("NULL",):
                continue
            member = l.name
            # a reference is taken in this function
            inc = [c for c in walk(fn.body) if c.k == "CallExpr" and (callname(c) or "") in ("Py_INCREF", "Py_XINCREF", "_Py_INCREF", "Py_NewRef", "_Py_NewRef")]
            took = any(re.search(r"->%s\b|\b%s\b" % (re.escape(member), re.escape(estr(r))), " ".join(tu.src(c).split())) for c in inc) \
                or re.search(r"Py_X?INCREF\(\s*(\(PyObject \*\)\s*)?(\w+->%s|%s)\s*\)" % (re.escape(member), re.escape(estr(r))), tu.src(fn.body)) is not None
            hty = (strip(l.kids[0]).ty or "").replace("*", "").strip()
            cls = hty if (hty + "_dealloc") in deallocs else fn.name.split("_")[0]
            d = deallocs.get(cls + "_dealloc")
            rel = d is not None and re.search(r"Py_X?DECREF\(\s*self->%s\s*\)|Py_CLEAR\(\s*self->%s\s*\)" % (re.escape(member), re.escape(member)), tu.src(d.body)) is not None
            n += 1
            ctx.ob(rule, "%s|%s" % (fn.name, member), bool(took and rel), tu.loc(x),
                   "%s->%s = %s: reference taken here and released in %s_dealloc" % (holder, member, estr(r), cls) if (took and rel) else
                   "%s->%s = %s %s" % (holder, member, estr(r), "without Py_INCREF: the referenced object can be freed while this one still uses it" if not took
                                         else "but %s_dealloc never releases it" % cls))
    ctx.floor(rule, 5)
    return n


def error_codes(ctx, P, rule="ERR-CODES"):
    """Exhaustiveness: every error code has a message and a value of its own."""
    import os
    from sa import cfront
    ctx.rule(rule, "every TSK_ERR_* code defined in core.h has its own `case` in tsk_strerror_internal and every KAS_ERR_* code in "
                   "kastore.h has one in kas_strerror; no two codes share a value (a shared value makes one failure read as "
                   "another; a missing case makes the library report an unknown error for a rejected input)")
    n = 0
    for hdr, src, prefix in (("c/tskit/core.h", "c/tskit/core.c", "TSK_ERR_"), ("c/subprojects/kastore/kastore.h", "c/subprojects/kastore/kastore.c", "KAS_ERR_")):
        h = open(os.path.join(cfront.REPO, hdr), errors="replace").read()
        c = open(os.path.join(cfront.REPO, src), errors="replace").read()
        defs = re.findall(r"^#define\s+(%s\w+)\s+\(?\s*(-?\d+)\s*\)?" % prefix, h, re.M)
        cases = set(re.findall(r"case\s+(%s\w+)\s*:" % prefix, c))
        if len(defs) < 10:
            from sa.report import AnalysisError
            raise AnalysisError("anchor-missing: %s* definitions in %s" % (prefix, hdr))
        vals = {}
        for d, v in defs:
            vals.setdefault(v, []).append(d)
        for d, v in defs:
            n += 1
            dup = [o for o in vals[v] if o != d]
            ok = d in cases and not dup
            ctx.ob(rule, d, ok, hdr, "%s = %s has a message" % (d, v) if ok else
                   ("%s has no case in the strerror switch of %s" % (d, src) if d not in cases else "%s shares the value %s with %s" % (d, v, dup)))
    return n


TABLES8 = {"individual": "individuals", "node": "nodes", "edge": "edges", "migration": "migrations", "site": "sites",
           "mutation": "mutations", "population": "populations", "provenance": "provenances"}


def collection_every_table(ctx, P, rule="COLLECTION-TABLES"):
    from sa.schema import Facts
    ctx.rule(rule, "the collection-level bookkeeping touches every one of the eight tables with its own member: "
                   "tsk_table_collection_init / _free call tsk_<t>_table_init / _free(&self-><t>s), _record_num_rows stores "
                   "self-><t>s.num_rows in position-><t>s, _truncate calls tsk_<t>_table_truncate(&tables-><t>s, position-><t>s): "
                   "member and bookmark field carry the same table name in every row")
    tu = P.tus["tables"]
    n = 0
    for fname, op in (("tsk_table_collection_init", "init"), ("tsk_table_collection_free", "free"), ("tsk_table_collection_truncate", "truncate")):
        fn = P.need(fname, "tables")
        F = Facts(P, fn)
        own = fn.params[0].name
        for t, mem in TABLES8.items():
            hits = F.calls_to("tsk_%s_table_%s" % (t, op))
            ok = len(hits) == 1 and hits[0][0][0] == "&%s->%s" % (own, mem)
            if ok and op == "truncate":
                ok = len(hits[0][0]) > 1 and hits[0][0][1] == "%s->%s" % (fn.params[1].name, mem)
            n += 1
            ctx.ob(rule, "%s|%s" % (fname, t), ok, tu.loc(hits[0][1]) if hits else tu.loc(fn.node),
                   "tsk_%s_table_%s(%s)" % (t, op, ", ".join(hits[0][0]) if hits else "missing"))
    fn = P.need("tsk_table_collection_record_num_rows", "tables")
    F = Facts(P, fn)
    for t, mem in TABLES8.items():
        want = ("%s->%s" % (fn.params[1].name, mem), "%s->%s.num_rows" % (fn.params[0].name, mem))
        ok = any(l == want[0] and r == want[1] for l, o, r, nn in F.assigns)
        n += 1
        ctx.ob(rule, "tsk_table_collection_record_num_rows|%s" % t, ok, tu.loc(fn.node), "%s = %s" % want)
    return n


# ---------------------------------------------------------------------------------------------------------------------------
# Python-specific slips (written before the Python-focused fifth seeding round)
import ast  # noqa: E402

# (function, parameter): `param or default` confirmed by reading to be right for every falsy value
OR_DEFAULT_OK = {("unicode_table", "header"),     # an empty header list and None both mean "use the first row"
                 }
# (function, name): in-place writes confirmed by reading to be the function's documented effect
INPLACE_OK = {("add_class", "attrs_dict"),        # drawing helper that exists to update the dict it is given
              }
# functions whose iteration over a set was confirmed by reading to feed an order-insensitive consumer
SET_ORDER_OK = {"genetic_relatedness",            # the union of all samples is ONE sample set for segregating_sites: order-free
                }
# attribute names that are numpy arrays sharing the owner's storage (TreeSequence <table>_<column>, Tree *_array, samples ...)
_ARRAY_ATTR = re.compile(r"^(edges|nodes|sites|mutations|migrations|individuals|populations|provenances|indexes)_|_array$|^samples$")
_CONSUMERS = {"list", "tuple", "sum", "max", "min", "sorted", "set", "dict", "any", "all", "np.fromiter", "np.array", "len"}
_GEN_CALLS = {"iter", "map", "zip", "filter", "reversed", "enumerate", "trees", "variants", "edge_diffs", "haplotypes", "alignments"}


def _loadnames(n):
    return {x.id for x in ast.walk(n) if isinstance(x, ast.Name) and isinstance(x.ctx, ast.Load)}


def _falsy_literal(e):
    """`x or 0`, `x or ""`, `x or []`, `x or ()`: every falsy value maps to an equal (empty) value, so nothing is lost."""
    if isinstance(e, ast.Constant):
        return not e.value
    return isinstance(e, (ast.List, ast.Tuple, ast.Dict)) and not (e.elts if not isinstance(e, ast.Dict) else e.keys)


def _value_evidence(fn, name):
    """The function treats `name` as a number, a string of data or an array (so 0 / 0.0 / "" / an empty array are VALUES of it):
    it is compared with an order operator, used in arithmetic, used as an index, or handed to len / int / float / np.* ."""
    for x in ast.walk(fn):
        if isinstance(x, ast.Compare) and any(isinstance(o, (ast.Lt, ast.LtE, ast.Gt, ast.GtE)) for o in x.ops) \
                and any(isinstance(n, ast.Name) and n.id == name for n in [x.left] + x.comparators):
            return True
        if isinstance(x, ast.BinOp) and any(isinstance(n, ast.Name) and n.id == name for n in (x.left, x.right)):
            return True
        if isinstance(x, ast.Subscript) and isinstance(x.slice, ast.Name) and x.slice.id == name:
            return True
        if isinstance(x, ast.Call) and (ast.unparse(x.func) in ("len", "int", "float", "range") or ast.unparse(x.func).startswith(("np.", "numpy.", "util.safe_np_int_cast"))) \
                and any(isinstance(a, ast.Name) and a.id == name for a in x.args):
            return True
    return bool(re.search(r"(left|right|start|end|stop|position|time|index|offset|length|span|samples|windows|nodes|num_|_id$|^id$|ploidy|precision)", name))


# functions with value returns that can also fall off their end, each confirmed by reading to be unreachable in practice
IMPLICIT_NONE_OK = {"load_tree_sequence",              # cli: the handler calls sys_exit(), which does not return
                    "_process_schema_node",            # the meta-schema admits only the types the elif chain enumerates
                    "impute_unknown_mutations_time",   # `method` was checked against allowed_methods == ["min"] just above
                    }
_NORETURN_CACHE = {}


def _falls(stmts, noreturn):
    """Can control reach the end of this statement list?  (syntax-directed; loops are assumed to terminate)"""
    for s_ in stmts:
        if not _falls1(s_, noreturn):
            return False
    return True


def _falls1(s_, noreturn):
    if isinstance(s_, (ast.Return, ast.Raise, ast.Continue, ast.Break)):
        return False
    if isinstance(s_, ast.Expr) and isinstance(s_.value, ast.Call) and ast.unparse(s_.value.func).split(".")[-1] in noreturn:
        return False
    if isinstance(s_, ast.If):
        return _falls(s_.body, noreturn) or _falls(s_.orelse, noreturn)
    if isinstance(s_, (ast.With, ast.AsyncWith)):
        return _falls(s_.body, noreturn)
    if isinstance(s_, ast.While):
        return not (isinstance(s_.test, ast.Constant) and s_.test.value is True and not any(isinstance(x, ast.Break) for x in ast.walk(s_)))
    if isinstance(s_, ast.Try):
        if s_.finalbody and not _falls(s_.finalbody, noreturn):
            return False
        body = _falls(s_.body, noreturn) and (_falls(s_.orelse, noreturn) if s_.orelse else True)
        return body or any(_falls(h.body, noreturn) for h in s_.handlers)
    return True


def _noreturn(m):
    """Bare names of the package's functions that never return normally (every path raises), from every module next to `m`."""
    d = os.path.dirname(m.path)
    if d not in _NORETURN_CACHE:
        names, returning = set(), set()
        for f in sorted(os.listdir(d)):
            if not f.endswith(".py"):
                continue
            try:
                t = ast.parse(open(os.path.join(d, f)).read())
            except (SyntaxError, OSError):
                continue
            for g in ast.walk(t):
                if isinstance(g, ast.FunctionDef):
                    never = not _falls(g.body, {"exit"}) and not any(isinstance(x, (ast.Return, ast.Yield, ast.YieldFrom)) for x in ast.walk(g)) \
                        and not any(ast.unparse(dc).endswith("abstractmethod") for dc in g.decorator_list) and not g.name.startswith("__")
                    (names if never else returning).add(g.name)
        _NORETURN_CACHE[d] = (names - returning) | {"exit"}
    return _NORETURN_CACHE[d]


def py_function_lints(m, qn, fn):
    """[(kind, node, message)] for one function: late-binding closures, mutable defaults, swallowed exceptions, one-shot
    iterators consumed twice, `param or default` on a parameter whose falsy values are meaningful."""
    out = []
    # 1. closure created in a loop that reads the loop variable when it is CALLED (late binding)
    for lp in ast.walk(fn):
        if isinstance(lp, ast.For):
            tg = {x.id for x in ast.walk(lp.target) if isinstance(x, ast.Name)}
            for s in lp.body:
                for x in ast.walk(s):
                    if isinstance(x, (ast.Lambda, ast.FunctionDef)):
                        ps = {p.arg for p in x.args.args + x.args.kwonlyargs}
                        body = x.body if isinstance(x, ast.Lambda) else ast.Module(body=x.body, type_ignores=[])
                        cap = (_loadnames(body) & tg) - ps
                        # harmless when the closure is consumed in the same iteration (key= of sorted / max / min)
                        if cap:
                            out.append(("late-binding", x, "a closure created in the loop over %s reads `%s` when it is called, i.e. the "
                                        "value of the LAST iteration" % (sorted(tg), sorted(cap)[0])))
    # 2. mutable default argument
    for d in fn.args.defaults + [d for d in fn.args.kw_defaults if d is not None]:
        if isinstance(d, (ast.List, ast.Dict, ast.Set)) or (isinstance(d, ast.Call) and ast.unparse(d.func) in ("list", "dict", "set")):
            out.append(("mutable-default", d, "mutable default argument `%s` is shared between calls" % ast.unparse(d)))
    # 3. an exception swallowed wholesale
    for h in ast.walk(fn):
        if isinstance(h, ast.ExceptHandler) and (h.type is None or ast.unparse(h.type) in ("Exception", "BaseException")) \
                and all(isinstance(s, (ast.Pass, ast.Continue)) for s in h.body):
            out.append(("swallowed-exception", h, "`except %s: pass` hides every failure of the guarded block" % (ast.unparse(h.type) if h.type else "")))
    # 4. a one-shot iterator consumed by two loops / consumers.  Flow-aware in the simple way the idiom needs: only consumers
    #    textually after the defining statement and not after the next rebinding of the name count (a consumer inside the
    #    defining statement reads the PREVIOUS value), and two consumers in opposite arms of one `if` are alternatives.
    par = {}
    for x in ast.walk(fn):
        for c in ast.iter_child_nodes(x):
            par[c] = x
    def _stmt(n):
        while n in par and not isinstance(n, ast.stmt):
            n = par[n]
        return n
    def _arms(n):
        out_ = {}
        while n in par:
            p_ = par[n]
            if isinstance(p_, ast.If):
                out_[p_] = "body" if any(n is s_ for s_ in p_.body) else "orelse" if any(n is s_ for s_ in p_.orelse) else "test"
            n = p_
        return out_
    rebinds = {}
    for s in ast.walk(fn):
        tg_ = []
        if isinstance(s, ast.Assign):
            tg_ = s.targets
        elif isinstance(s, (ast.AugAssign, ast.AnnAssign, ast.For)):
            tg_ = [s.target]
        for t_ in tg_:
            for n_ in ast.walk(t_):
                if isinstance(n_, ast.Name) and isinstance(n_.ctx, ast.Store):
                    rebinds.setdefault(n_.id, []).append(s)
    for s in ast.walk(fn):
        if not (isinstance(s, ast.Assign) and len(s.targets) == 1 and isinstance(s.targets[0], ast.Name)):
            continue
        v = s.value
        if not (isinstance(v, ast.GeneratorExp) or (isinstance(v, ast.Call) and ast.unparse(v.func).split(".")[-1] in _GEN_CALLS)):
            continue
        g = s.targets[0].id
        later = [r.end_lineno for r in rebinds.get(g, []) if r.lineno > s.lineno]
        hi = min(later) if later else 10 ** 9
        consumed = []
        for x in ast.walk(fn):
            c = None
            if isinstance(x, (ast.For, ast.comprehension)) and isinstance(x.iter, ast.Name) and x.iter.id == g:
                c = x.iter
            if isinstance(x, ast.Call) and ast.unparse(x.func) in _CONSUMERS and any(isinstance(a_, ast.Name) and a_.id == g for a_ in x.args):
                c = x
            if isinstance(x, ast.Starred) and isinstance(x.value, ast.Name) and x.value.id == g:
                c = x
            if c is not None and s.end_lineno < _stmt(c).lineno <= hi:
                consumed.append(c)
        excl = False
        if len(consumed) == 2:
            a0, a1 = _arms(consumed[0]), _arms(consumed[1])
            excl = any(k in a1 and {a0[k], a1[k]} == {"body", "orelse"} for k in a0)
        if len(consumed) > 1 and not excl:
            out.append(("iterator-reuse", s, "`%s` is a one-shot iterator (%s) but is consumed %d times: the second consumer sees nothing"
                        % (g, ast.unparse(v)[:40], len(consumed))))
    # 5. `param or default` on a parameter that defaults to None: 0 / 0.0 / "" / an empty array are then treated as missing
    a = fn.args
    pos = a.posonlyargs + a.args
    dflt = {p_.arg: d for p_, d in zip(pos[len(pos) - len(a.defaults):], a.defaults)}
    dflt.update({p_.arg: d for p_, d in zip(a.kwonlyargs, a.kw_defaults) if d is not None})
    params = {p_.arg for p_ in pos + a.kwonlyargs}
    for x in ast.walk(fn):
        if isinstance(x, ast.BoolOp) and isinstance(x.op, ast.Or) and isinstance(x.values[0], ast.Name) and x.values[0].id in dflt \
                and isinstance(dflt[x.values[0].id], ast.Constant) and dflt[x.values[0].id].value is None \
                and (qn.split(".")[-1], x.values[0].id) not in OR_DEFAULT_OK and not _falsy_literal(x.values[1]) \
                and _value_evidence(fn, x.values[0].id):
            out.append(("or-default", x, "`%s` treats every falsy value of the parameter `%s` (0, 0.0, \"\", an empty array) as missing; "
                        "only None means missing" % (ast.unparse(x)[:50], x.values[0].id)))
    # 6. a loop variable that the loop body never reads (the body then works on some OTHER variable, usually the outer one)
    for lp in ast.walk(fn):
        if isinstance(lp, ast.For):
            tg = {n.id for n in ast.walk(lp.target) if isinstance(n, ast.Name)}
            used = {n.id for s in lp.body + lp.orelse for n in ast.walk(s) if isinstance(n, ast.Name)}
            outer = set()
            q_ = lp
            while q_ in par:
                q_ = par[q_]
                if isinstance(q_, ast.For):
                    outer |= {n.id for n in ast.walk(q_.target) if isinstance(n, ast.Name)}
            is_range = isinstance(lp.iter, ast.Call) and ast.unparse(lp.iter.func) == "range"
            for v in sorted(tg - used):
                # `for _ in range(n)` style repetition is legitimate; the slip is a body that reads the ENCLOSING loop's variable instead
                if not v.startswith("_") and not is_range and (used & outer):
                    out.append(("unused-loop-variable", lp, "the loop over `%s` never reads its variable `%s`" % (ast.unparse(lp.iter)[:40], v)))
    # 7. np.where(cond) / np.nonzero(cond) is a TUPLE of arrays: its len() is the number of dimensions and iterating it yields arrays
    def _is_where(c):
        return isinstance(c, ast.Call) and ast.unparse(c.func) in ("np.where", "np.nonzero", "numpy.where", "numpy.nonzero") and len(c.args) == 1
    tuples = {s.targets[0].id for s in ast.walk(fn) if isinstance(s, ast.Assign) and len(s.targets) == 1
              and isinstance(s.targets[0], ast.Name) and _is_where(s.value)}
    def _tuple_expr(e):
        return _is_where(e) or (isinstance(e, ast.Name) and e.id in tuples)
    for x in ast.walk(fn):
        bad = None
        if isinstance(x, ast.Call) and ast.unparse(x.func) in ("len", "bool", "list", "enumerate", "np.max", "np.min", "max", "min") and x.args and _tuple_expr(x.args[0]):
            bad = x
        if isinstance(x, (ast.For, ast.comprehension)) and _tuple_expr(x.iter):
            bad = x.iter
        if isinstance(x, ast.Attribute) and x.attr in ("size", "shape") and _tuple_expr(x.value):
            bad = x
        if bad is not None:
            out.append(("where-tuple", bad, "`%s` uses the TUPLE returned by np.where / np.nonzero as if it were the index array (take [0])" % ast.unparse(bad)[:50]))
    # 8. in-place mutation of an array the function does not own: a local bound only by attribute reads (a view of the
    #    owner's storage) or a parameter never rebound, written through a subscript or an augmented assignment
    binds = {}
    for x in ast.walk(fn):
        if isinstance(x, ast.Assign):
            for t_ in x.targets:
                for n_ in ([t_] if isinstance(t_, ast.Name) else [e for e in getattr(t_, "elts", []) if isinstance(e, ast.Name)]):
                    binds.setdefault(n_.id, []).append(x.value if isinstance(t_, ast.Name) else None)
        elif isinstance(x, (ast.For, ast.comprehension)):
            for n_ in ast.walk(x.target):
                if isinstance(n_, ast.Name):
                    binds.setdefault(n_.id, []).append(None)
        elif isinstance(x, (ast.AugAssign, ast.AnnAssign)) and isinstance(x.target, ast.Name) and isinstance(x, ast.AnnAssign):
            binds.setdefault(x.target.id, []).append(x.value)
        elif isinstance(x, ast.withitem) and x.optional_vars is not None:
            for n_ in ast.walk(x.optional_vars):
                if isinstance(n_, ast.Name):
                    binds.setdefault(n_.id, []).append(None)
    subscripted = {x.value.id for x in ast.walk(fn) if isinstance(x, ast.Subscript) and isinstance(x.value, ast.Name)}
    def _view(name):
        vs = binds.get(name)
        if vs:
            return all(isinstance(v, ast.Attribute) and not ast.unparse(v).startswith("np.") for v in vs)
        return False
    for x in ast.walk(fn):
        tgts = x.targets if isinstance(x, ast.Assign) else [x.target] if isinstance(x, ast.AugAssign) else []
        for t_ in tgts:
            if isinstance(t_, ast.Subscript) and isinstance(t_.value, ast.Name):
                nm = t_.value.id
                # the parameter clause is limited to PUBLIC functions: a private helper that fills a buffer it is given is an idiom
                if _view(nm) or (nm in params and nm not in binds and nm not in ("self", "cls") and not qn.split(".")[-1].startswith("_")
                                 and not re.search(r"^(out|output|buffer|result|dest|memo|cache|kwargs)", nm)
                                 and (qn.split(".")[-1], nm) not in INPLACE_OK):
                    out.append(("inplace-foreign", x, "`%s` writes into `%s`, which is %s; the owner's data changes under it" % (
                        ast.unparse(x)[:50], nm, "the caller's argument (never copied)" if nm in params else
                        "bound only to `%s` (a view, not a copy)" % ast.unparse(binds[nm][0]))))
            elif isinstance(x, ast.AugAssign) and isinstance(t_, ast.Name) and _view(t_.id) and (qn, t_.id) not in INPLACE_OK \
                    and (_ARRAY_ATTR.search(ast.unparse(binds[t_.id][0]).split(".")[-1]) or t_.id in subscripted):
                out.append(("inplace-foreign", x, "`%s` updates in place an array bound only to `%s` (a view, not a copy)" % (
                    ast.unparse(x)[:50], ast.unparse(binds[t_.id][0]))))
    # 9. the Tree yielded by trees() is ONE object updated in place: keeping references gives a list of identical trees
    def _trees_call(e):
        return isinstance(e, ast.Call) and isinstance(e.func, ast.Attribute) and e.func.attr == "trees"
    for x in ast.walk(fn):
        if isinstance(x, ast.Call) and ast.unparse(x.func) in ("list", "tuple", "sorted") and x.args and _trees_call(x.args[0]):
            out.append(("tree-reuse", x, "`%s` keeps references to the single Tree object that trees() updates in place" % ast.unparse(x)[:50]))
        if isinstance(x, (ast.ListComp, ast.SetComp)) and len(x.generators) == 1 and _trees_call(x.generators[0].iter) \
                and isinstance(x.elt, ast.Name) and isinstance(x.generators[0].target, ast.Name) and x.elt.id == x.generators[0].target.id:
            out.append(("tree-reuse", x, "`%s` keeps references to the single Tree object that trees() updates in place" % ast.unparse(x)[:50]))
    # 12. a function that returns values on some paths must not fall off its end on another (the caller then gets None where it
    #     expects a tree sequence / table / array); typical after a handler or a branch loses its `raise`
    noret = _noreturn(m)
    for g in [fn] + [x for x in ast.walk(fn) if isinstance(x, ast.FunctionDef) and x is not fn]:
        inner = set()
        for h in ast.walk(g):
            if h is not g and isinstance(h, (ast.FunctionDef, ast.Lambda)):
                inner |= {id(y) for y in ast.walk(h)}
        own = [x for x in ast.walk(g) if id(x) not in inner]
        valued = [x for x in own if isinstance(x, ast.Return) and x.value is not None and not (isinstance(x.value, ast.Constant) and x.value.value is None)]
        if valued and not any(isinstance(x, (ast.Yield, ast.YieldFrom)) for x in own) and g.name not in IMPLICIT_NONE_OK and _falls(g.body, noret):
            out.append(("implicit-none", g, "`%s` returns a value on some paths but can also fall off its end and return None" % g.name))
    # 11. np.argmax / np.argmin of a boolean mask is 0 when NO element is set: using it as an index needs an any() guard
    def _masky(e):
        return isinstance(e, ast.Compare) or (isinstance(e, ast.UnaryOp) and isinstance(e.op, ast.Invert)) \
            or (isinstance(e, ast.Name) and re.search(r"mask|keep|is_|has_", e.id)) \
            or (isinstance(e, ast.Attribute) and re.search(r"mask|keep|is_|has_", e.attr)) \
            or (isinstance(e, ast.BinOp) and isinstance(e.op, (ast.BitAnd, ast.BitOr)) and (_masky(e.left) or _masky(e.right)))
    for x in ast.walk(fn):
        if isinstance(x, ast.Call) and ast.unparse(x.func) in ("np.argmax", "np.argmin", "numpy.argmax", "numpy.argmin") and x.args and _masky(x.args[0]):
            arg = ast.unparse(x.args[0])
            guarded = any(isinstance(y, ast.Call) and ((ast.unparse(y.func) in ("np.any", "np.all", "np.sum", "np.count_nonzero") and y.args
                                                        and ast.unparse(y.args[0]) == arg)
                                                       or (isinstance(y.func, ast.Attribute) and y.func.attr in ("any", "all", "sum")
                                                           and ast.unparse(y.func.value).strip("()") == arg.strip("()")))
                          for y in ast.walk(fn))
            if not guarded:
                out.append(("argmax-mask", x, "`%s` is 0 when no element of the mask is set, which is indistinguishable from \"the first "
                            "element\"; no any() test of the same mask is in the function" % ast.unparse(x)[:50]))
    # 10. iteration order of a set is arbitrary: a SEQUENCE (list, tuple, array, joined string, yielded stream, appended list)
    #     must not be built by iterating one.  Order-free consumers (sum, any, all, set, membership) are fine.
    def _set_expr(e):
        return isinstance(e, (ast.Set, ast.SetComp)) or (isinstance(e, ast.Call) and ast.unparse(e.func) in ("set", "frozenset"))
    set_names = set()
    for nm_, vs_ in binds.items():
        # a local that is a set at SOME definition and is then listed before any other definition intervenes: decided per use below
        if any(v_ is not None and _set_expr(v_) for v_ in vs_):
            set_names.add(nm_)
    def _last_def_is_set(name, at):
        last = None
        for s_ in ast.walk(fn):
            if isinstance(s_, ast.Assign) and s_.lineno < at.lineno and any(isinstance(t_, ast.Name) and t_.id == name for t_ in s_.targets):
                a0, a1 = _arms(s_), _arms(at)
                if any(k_ in a1 and {a0[k_], a1[k_]} == {"body", "orelse"} for k_ in a0):
                    continue        # a definition in the opposite arm of an `if` never reaches this use
                if last is None or s_.lineno > last.lineno:
                    last = s_
        return last is not None and _set_expr(last.value)
    def _is_set(e):
        return _set_expr(e) or (isinstance(e, ast.Name) and e.id in set_names and _last_def_is_set(e.id, e))
    if qn.split(".")[-1] not in SET_ORDER_OK:
        for x in ast.walk(fn):
            if isinstance(x, ast.Call) and ast.unparse(x.func) in ("list", "tuple", "np.array", "np.fromiter", "enumerate") and x.args and _is_set(x.args[0]):
                out.append(("set-order", x, "`%s` turns a set into a sequence: the order is arbitrary" % ast.unparse(x)[:50]))
            elif isinstance(x, ast.ListComp) and any(_is_set(g.iter) for g in x.generators):
                out.append(("set-order", x, "`%s` builds a list by iterating a set: the order is arbitrary" % ast.unparse(x)[:50]))
            elif isinstance(x, ast.GeneratorExp) and any(_is_set(g.iter) for g in x.generators) and isinstance(par.get(x), ast.Call) \
                    and ast.unparse(par[x].func).split(".")[-1] in ("list", "tuple", "join", "array", "fromiter"):
                out.append(("set-order", x, "`%s` builds a sequence by iterating a set: the order is arbitrary" % ast.unparse(par[x])[:50]))
            elif isinstance(x, ast.For) and _is_set(x.iter) and any(
                    isinstance(y, (ast.Yield, ast.YieldFrom)) or (isinstance(y, ast.Call) and isinstance(y.func, ast.Attribute)
                                                                   and y.func.attr in ("append", "extend", "write", "add_row"))
                    for s_ in x.body for y in ast.walk(s_)):
                out.append(("set-order", x, "the loop over `%s` emits items in the set's arbitrary order" % ast.unparse(x.iter)[:40]))
    from . import lib_kind4
    out += lib_kind4.function_lints(m, qn, fn)
    return out


def py_slips(ctx, py, mods, only=None, rule="PY-SLIPS"):
    ctx.rule(rule, "Python-specific slips in this property's functions: no closure created inside a loop reads the loop variable "
                   "late, no mutable default argument, no `except Exception: pass`, no one-shot iterator (generator expression, "
                   "map / zip / filter / reversed, ts.trees(), ts.variants() …) consumed by two loops or consumers, no `param or default` on a "
                   "None-defaulted parameter, no loop variable the body never reads, no np.where / np.nonzero tuple used as the index array, "
                   "no in-place write into the caller's argument or into a local bound only to an attribute (a view), no list of the "
                   "single Tree object that trees() re-uses, no sequence built by iterating a set (directly or through a local), no "
                   "np.argmax / np.argmin of a boolean mask used without an any() test of that mask, no function that returns a value on "
                   "some paths and falls off its end on another (a handler or branch that lost its raise), no defaulted parameter "
                   "re-assigned without a test that the caller left it at its default, no numpy array of a public function indexed by "
                   "a parameter whose lower bound is never tested, no multi-statement `try` with an `except: pass`, no zip() of a "
                   "whole-table column with a per-item sequence or another table, no shortcut `return True` / un-lengthed zip in an "
                   "equality method, no `<expr> or None`, no per-node array cut at a sample count, no fold whose step drops the running value")
    n = 0
    for mn in mods:
        m = py.mod(mn)
        for qn, fn in m.funcs.items():
            if only is not None and not only(mn, qn):
                continue
            found = py_function_lints(m, qn, fn)
            n += 1
            ctx.ob(rule, "%s.%s" % (mn, qn), not found, m.loc(found[0][1]) if found else m.loc(fn),
                   "clean" if not found else "%s: %s" % (found[0][0], found[0][2]))
    return n


def shared_instance_escape(ctx, py, rule="PY-SHARED-ESCAPE", mod="metadata", cls="MetadataSchema", factory="parse_metadata_schema"):
    """Instances of `cls` are shared between every table and tree sequence that uses the same schema text (the factory is
    lru_cache'd), so an accessor that hands out a reference into the instance's own dict - directly or through a SHALLOW
    copy - lets one user's edit rewrite the validation rules of all the others."""
    ctx.rule(rule, "%s instances are shared through the lru_cache on %s: no method returns the instance's own schema dict, or a "
                   "shallow copy of it (copy.copy / dict(...) / .copy()); the only accepted form is copy.deepcopy" % (cls, factory))
    m = py.mod(mod)
    fac = m.funcs.get(factory)
    cached = fac is not None and any("lru_cache" in ast.unparse(d) or "cache" == ast.unparse(d).split(".")[-1] for d in fac.decorator_list)
    ctx.ob(rule, "%s|cached" % factory, fac is not None, m.loc(fac) if fac else m.rel,
           "%s is %s" % (factory, "memoised: instances are shared" if cached else "not memoised (instances are still shared by tables that copy the reference)"))
    init = m.funcs.get("%s.__init__" % cls)
    if init is None:
        ctx.need(rule, "%s.__init__" % cls, False, m.rel)
        return 0
    params = {a.arg for a in init.args.args} - {"self"}
    # attributes that hold a dict: assigned from a constructor parameter or from a call that receives one
    dict_attrs = set()
    for x in ast.walk(init):
        if isinstance(x, ast.Assign):
            for t in x.targets:
                if isinstance(t, ast.Attribute) and isinstance(t.value, ast.Name) and t.value.id == "self":
                    names = {n.id for n in ast.walk(x.value) if isinstance(n, ast.Name)}
                    fn_ = ast.unparse(x.value.func) if isinstance(x.value, ast.Call) else ""
                    if (names & params) and not re.search(r"canonical_json|is_schema_trivial|Validator|^codec_cls$|str|repr|bool|len", fn_):
                        dict_attrs.add(t.attr)
    ctx.ob(rule, "%s|dict-attributes" % cls, len(dict_attrs) >= 2, m.loc(init), "attributes holding the caller's / the modified schema dict: %s" % sorted(dict_attrs))
    n = 0
    for qn, fn in m.funcs.items():
        if not qn.startswith(cls + ".") or qn.endswith(".__init__"):
            continue
        local = {}
        for a_ in ast.walk(fn):
            if isinstance(a_, ast.Assign) and len(a_.targets) == 1 and isinstance(a_.targets[0], ast.Name):
                local.setdefault(a_.targets[0].id, []).append(a_.value)

        def resolve(e):
            # a local with a single definition stands for that definition
            while isinstance(e, ast.Name) and len(local.get(e.id, [])) == 1:
                e = local[e.id][0]
            return e
        for r in ast.walk(fn):
            if not isinstance(r, ast.Return) or r.value is None:
                continue
            v = resolve(r.value)
            if isinstance(v, ast.Call) and ast.unparse(v.func) == "copy.deepcopy" and v.args:
                inner = resolve(v.args[0])
                if isinstance(inner, ast.Attribute) and inner.attr in dict_attrs:
                    n += 1
                    ctx.ob(rule, "%s|returns-%s" % (qn, inner.attr), True, m.loc(r), "returns a deep copy of self.%s" % inner.attr)
                continue
            shallow = None
            while True:
                if isinstance(v, ast.Call) and ast.unparse(v.func) in ("copy.copy", "dict", "collections.OrderedDict", "OrderedDict") and v.args:
                    shallow = ast.unparse(v.func); v = resolve(v.args[0])
                elif isinstance(v, ast.Call) and isinstance(v.func, ast.Attribute) and v.func.attr == "copy" and not v.args:
                    shallow = ".copy()"; v = resolve(v.func.value)
                else:
                    break
            if isinstance(v, ast.Attribute) and isinstance(v.value, ast.Name) and v.value.id == "self" and v.attr in dict_attrs:
                n += 1
                ctx.ob(rule, "%s|returns-%s" % (qn, v.attr), False, m.loc(r),
                       "returns %s: a caller that edits %s rewrites the shared instance" % (
                           "self.%s itself" % v.attr if not shallow else "a shallow copy (%s) of self.%s" % (shallow, v.attr),
                           "it" if not shallow else "a nested entry (properties, required …)"))
    ctx.ob(rule, "instances", n >= 1, m.rel, "%d accessor returns of the schema dict analysed" % n)
    # the codec instance hangs off the shared schema: a decoder that fills in defaults must not hand out the default objects
    for qn, fn in m.funcs.items():
        if qn.endswith(".decode") and "self.defaults" in ast.unparse(fn):
            src = ast.unparse(fn)
            ok = "deepcopy" in src
            ctx.ob(rule, "%s|defaults" % qn, ok, m.loc(fn), "defaults that are filled in are deep-copied" if ok else
                   "%s fills self.defaults into the decoded object without copying them: a caller that edits a defaulted list / dict "
                   "edits the default of every later decode" % qn)
    return n
