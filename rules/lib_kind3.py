"""Module-level ownership: objects of _tskitmodule.c that keep a pointer to another Python object hold a reference to it."""
from __future__ import annotations

import re

from sa.expr import strip, walk, estr, callee, callname, calls, is_assign

PYOBJ = re.compile(r"^(PyObject|TreeSequence|TableCollection|Tree|Variant|IdentitySegments|\w+Table) \*$")


def module_owner_refs(ctx, P, rule="MODULE-OWNER"):
    ctx.rule(rule, "an extension object that stores a pointer to another Python object (`self->tree_sequence = tree_sequence`, "
                   "`self->tables = tables`, `self->owner = owner`) takes a reference in the same function (Py_INCREF of that "
                   "member or of the value stored) and its type's dealloc releases it (Py_XDECREF / Py_DECREF of the member): "
                   "otherwise the tree sequence can be garbage collected while a Tree, Variant or table view still reads its memory")
    tu = P.tus["module"]
    n = 0
    deallocs = {f.name: f for f in tu.funcs.values() if f.name.endswith("_dealloc")}
    for fn in tu.funcs.values():
        if fn.body is None:
            continue
        for x in walk(fn.body):
            if not is_assign(x):
                continue
            l, r = strip(x.kids[0]), strip(x.kids[1])
            if l is None or r is None or l.k != "MemberExpr" or not l.arrow:
                continue
            holder = estr(l.kids[0])
            if not PYOBJ.match((l.ty or "").strip()) or r.k != "DeclRefExpr" or r.refkind not in (None, "ParmVarDecl", "VarDecl"):
                continue
            if estr(r) in ("NULL",):
                continue
            member = l.name
            # a reference is taken in this function
            inc = [c for c in walk(fn.body) if c.k == "CallExpr" and (callname(c) or "") in ("Py_INCREF", "Py_XINCREF", "_Py_INCREF", "Py_NewRef", "_Py_NewRef")]
            took = any(re.search(r"->%s\b|\b%s\b" % (re.escape(member), re.escape(estr(r))), " ".join(tu.src(c).split())) for c in inc) \
                or re.search(r"Py_X?INCREF\(\s*(\(PyObject \*\)\s*)?(\w+->%s|%s)\s*\)" % (re.escape(member), re.escape(estr(r))), tu.src(fn.body)) is not None
            hty = (strip(l.kids[0]).ty or "").replace("*", "").strip()
            cls = hty if (hty + "_dealloc") in deallocs else fn.name.split("_")[0]
            d = deallocs.get(cls + "_dealloc")
            rel = d is not None and re.search(r"Py_X?DECREF\(\s*self->%s\s*\)|Py_CLEAR\(\s*self->%s\s*\)" % (re.escape(member), re.escape(member)), tu.src(d.body)) is not None
            n += 1
            ctx.ob(rule, "%s|%s" % (fn.name, member), bool(took and rel), tu.loc(x),
                   "%s->%s = %s: reference taken here and released in %s_dealloc" % (holder, member, estr(r), cls) if (took and rel) else
                   "%s->%s = %s %s" % (holder, member, estr(r), "without Py_INCREF: the referenced object can be freed while this one still uses it" if not took
                                         else "but %s_dealloc never releases it" % cls))
    ctx.floor(rule, 5)
    return n


def error_codes(ctx, P, rule="ERR-CODES"):
    """Exhaustiveness: every error code has a message and a value of its own."""
    import os
    from sa import cfront
    ctx.rule(rule, "every TSK_ERR_* code defined in core.h has its own `case` in tsk_strerror_internal and every KAS_ERR_* code in "
                   "kastore.h has one in kas_strerror; no two codes share a value (a shared value makes one failure read as "
                   "another; a missing case makes the library report an unknown error for a rejected input)")
    n = 0
    for hdr, src, prefix in (("c/tskit/core.h", "c/tskit/core.c", "TSK_ERR_"), ("c/subprojects/kastore/kastore.h", "c/subprojects/kastore/kastore.c", "KAS_ERR_")):
        h = open(os.path.join(cfront.REPO, hdr), errors="replace").read()
        c = open(os.path.join(cfront.REPO, src), errors="replace").read()
        defs = re.findall(r"^#define\s+(%s\w+)\s+\(?\s*(-?\d+)\s*\)?" % prefix, h, re.M)
        cases = set(re.findall(r"case\s+(%s\w+)\s*:" % prefix, c))
        if len(defs) < 10:
            from sa.report import AnalysisError
            raise AnalysisError("anchor-missing: %s* definitions in %s" % (prefix, hdr))
        vals = {}
        for d, v in defs:
            vals.setdefault(v, []).append(d)
        for d, v in defs:
            n += 1
            dup = [o for o in vals[v] if o != d]
            ok = d in cases and not dup
            ctx.ob(rule, d, ok, hdr, "%s = %s has a message" % (d, v) if ok else
                   ("%s has no case in the strerror switch of %s" % (d, src) if d not in cases else "%s shares the value %s with %s" % (d, v, dup)))
    return n


TABLES8 = {"individual": "individuals", "node": "nodes", "edge": "edges", "migration": "migrations", "site": "sites",
           "mutation": "mutations", "population": "populations", "provenance": "provenances"}


def collection_every_table(ctx, P, rule="COLLECTION-TABLES"):
    from sa.schema import Facts
    ctx.rule(rule, "the collection-level bookkeeping touches every one of the eight tables with its own member: "
                   "tsk_table_collection_init / _free call tsk_<t>_table_init / _free(&self-><t>s), _record_num_rows stores "
                   "self-><t>s.num_rows in position-><t>s, _truncate calls tsk_<t>_table_truncate(&tables-><t>s, position-><t>s): "
                   "member and bookmark field carry the same table name in every row")
    tu = P.tus["tables"]
    n = 0
    for fname, op in (("tsk_table_collection_init", "init"), ("tsk_table_collection_free", "free"), ("tsk_table_collection_truncate", "truncate")):
        fn = P.need(fname, "tables")
        F = Facts(P, fn)
        own = fn.params[0].name
        for t, mem in TABLES8.items():
            hits = F.calls_to("tsk_%s_table_%s" % (t, op))
            ok = len(hits) == 1 and hits[0][0][0] == "&%s->%s" % (own, mem)
            if ok and op == "truncate":
                ok = len(hits[0][0]) > 1 and hits[0][0][1] == "%s->%s" % (fn.params[1].name, mem)
            n += 1
            ctx.ob(rule, "%s|%s" % (fname, t), ok, tu.loc(hits[0][1]) if hits else tu.loc(fn.node),
                   "tsk_%s_table_%s(%s)" % (t, op, ", ".join(hits[0][0]) if hits else "missing"))
    fn = P.need("tsk_table_collection_record_num_rows", "tables")
    F = Facts(P, fn)
    for t, mem in TABLES8.items():
        want = ("%s->%s" % (fn.params[1].name, mem), "%s->%s.num_rows" % (fn.params[0].name, mem))
        ok = any(l == want[0] and r == want[1] for l, o, r, nn in F.assigns)
        n += 1
        ctx.ob(rule, "tsk_table_collection_record_num_rows|%s" % t, ok, tu.loc(fn.node), "%s = %s" % want)
    return n


# ---------------------------------------------------------------------------------------------------------------------------
# Python-specific slips (written before the Python-focused fifth seeding round)
import ast  # noqa: E402

_CONSUMERS = {"list", "tuple", "sum", "max", "min", "sorted", "set", "dict", "any", "all", "np.fromiter", "np.array", "len"}
_GEN_CALLS = {"iter", "map", "zip", "filter", "reversed", "enumerate", "trees", "variants", "edge_diffs", "haplotypes", "alignments"}


def _loadnames(n):
    return {x.id for x in ast.walk(n) if isinstance(x, ast.Name) and isinstance(x.ctx, ast.Load)}


def py_function_lints(m, qn, fn):
    """[(kind, node, message)] for one function: late-binding closures, mutable defaults, swallowed exceptions, one-shot
    iterators consumed twice, `param or default` on a parameter whose falsy values are meaningful."""
    out = []
    # 1. closure created in a loop that reads the loop variable when it is CALLED (late binding)
    for lp in ast.walk(fn):
        if isinstance(lp, ast.For):
            tg = {x.id for x in ast.walk(lp.target) if isinstance(x, ast.Name)}
            for s in lp.body:
                for x in ast.walk(s):
                    if isinstance(x, (ast.Lambda, ast.FunctionDef)):
                        ps = {p.arg for p in x.args.args + x.args.kwonlyargs}
                        body = x.body if isinstance(x, ast.Lambda) else ast.Module(body=x.body, type_ignores=[])
                        cap = (_loadnames(body) & tg) - ps
                        # harmless when the closure is consumed in the same iteration (key= of sorted / max / min)
                        if cap:
                            out.append(("late-binding", x, "a closure created in the loop over %s reads `%s` when it is called, i.e. the "
                                        "value of the LAST iteration" % (sorted(tg), sorted(cap)[0])))
    # 2. mutable default argument
    for d in fn.args.defaults + [d for d in fn.args.kw_defaults if d is not None]:
        if isinstance(d, (ast.List, ast.Dict, ast.Set)) or (isinstance(d, ast.Call) and ast.unparse(d.func) in ("list", "dict", "set")):
            out.append(("mutable-default", d, "mutable default argument `%s` is shared between calls" % ast.unparse(d)))
    # 3. an exception swallowed wholesale
    for h in ast.walk(fn):
        if isinstance(h, ast.ExceptHandler) and (h.type is None or ast.unparse(h.type) in ("Exception", "BaseException")) \
                and all(isinstance(s, (ast.Pass, ast.Continue)) for s in h.body):
            out.append(("swallowed-exception", h, "`except %s: pass` hides every failure of the guarded block" % (ast.unparse(h.type) if h.type else "")))
    # 4. a one-shot iterator consumed by two loops / consumers
    gens = {}
    for s in ast.walk(fn):
        if isinstance(s, ast.Assign) and len(s.targets) == 1 and isinstance(s.targets[0], ast.Name):
            v = s.value
            if isinstance(v, ast.GeneratorExp) or (isinstance(v, ast.Call) and ast.unparse(v.func).split(".")[-1] in _GEN_CALLS):
                gens.setdefault(s.targets[0].id, []).append(s)
    for g, defs in gens.items():
        if len(defs) > 1:
            continue
        consumed = []
        for x in ast.walk(fn):
            if isinstance(x, (ast.For, ast.comprehension)) and isinstance(x.iter, ast.Name) and x.iter.id == g:
                consumed.append(x)
            if isinstance(x, ast.Call) and ast.unparse(x.func) in _CONSUMERS and any(isinstance(a, ast.Name) and a.id == g for a in x.args):
                consumed.append(x)
            if isinstance(x, ast.Starred) and isinstance(x.value, ast.Name) and x.value.id == g:
                consumed.append(x)
        if len(consumed) > 1:
            out.append(("iterator-reuse", defs[0], "`%s` is a one-shot iterator (%s) but is consumed %d times: the second consumer sees nothing"
                        % (g, ast.unparse(defs[0].value)[:40], len(consumed))))
    return out


def py_slips(ctx, py, mods, only=None, rule="PY-SLIPS"):
    ctx.rule(rule, "Python-specific slips in this property's functions: no closure created inside a loop reads the loop variable "
                   "late, no mutable default argument, no `except Exception: pass`, no one-shot iterator (generator expression, "
                   "map / zip / filter / reversed, ts.trees(), ts.variants() …) consumed by two loops or consumers")
    n = 0
    for mn in mods:
        m = py.mod(mn)
        for qn, fn in m.funcs.items():
            if only is not None and not only(mn, qn):
                continue
            found = py_function_lints(m, qn, fn)
            n += 1
            ctx.ob(rule, "%s.%s" % (mn, qn), not found, m.loc(found[0][1]) if found else m.loc(fn),
                   "clean" if not found else "%s: %s" % (found[0][0], found[0][2]))
    return n
