"""Module-level ownership: objects of _tskitmodule.c that keep a pointer to another Python object hold a reference to it."""
from __future__ import annotations

import re

from sa.expr import strip, walk, estr, callee, callname, calls, is_assign

PYOBJ = re.compile(r"^(PyObject|TreeSequence|TableCollection|Tree|Variant|IdentitySegments|\w+Table) \*$")


def module_owner_refs(ctx, P, rule="MODULE-OWNER"):
    ctx.rule(rule, "an extension object that stores a pointer to another Python object (`self->tree_sequence = tree_sequence`, "
                   "`self->tables = tables`, `self->owner = owner`) takes a reference in the same function (Py_INCREF of that "
                   "member or of the value stored) and its type's dealloc releases it (Py_XDECREF / Py_DECREF of the member): "
                   "otherwise the tree sequence can be garbage collected while a Tree, Variant or table view still reads its memory")
    tu = P.tus["module"]
    n = 0
    deallocs = {f.name: f for f in tu.funcs.values() if f.name.endswith("_dealloc")}
    for fn in tu.funcs.values():
        if fn.body is None:
            continue
        for x in walk(fn.body):
            if not is_assign(x):
                continue
            l, r = strip(x.kids[0]), strip(x.kids[1])
            if l is None or r is None or l.k != "MemberExpr" or not l.arrow:
                continue
            holder = estr(l.kids[0])
            if not PYOBJ.match((l.ty or "").strip()) or r.k != "DeclRefExpr" or r.refkind not in (None, "ParmVarDecl", "VarDecl"):
                continue
            if estr(r) in ("NULL",):
                continue
            member = l.name
            # a reference is taken in this function
            inc = [c for c in walk(fn.body) if c.k == "CallExpr" and (callname(c) or "") in ("Py_INCREF", "Py_XINCREF", "_Py_INCREF", "Py_NewRef", "_Py_NewRef")]
            took = any(re.search(r"->%s\b|\b%s\b" % (re.escape(member), re.escape(estr(r))), " ".join(tu.src(c).split())) for c in inc) \
                or re.search(r"Py_X?INCREF\(\s*(\(PyObject \*\)\s*)?(\w+->%s|%s)\s*\)" % (re.escape(member), re.escape(estr(r))), tu.src(fn.body)) is not None
            hty = (strip(l.kids[0]).ty or "").replace("*", "").strip()
            cls = hty if (hty + "_dealloc") in deallocs else fn.name.split("_")[0]
            d = deallocs.get(cls + "_dealloc")
            rel = d is not None and re.search(r"Py_X?DECREF\(\s*self->%s\s*\)|Py_CLEAR\(\s*self->%s\s*\)" % (re.escape(member), re.escape(member)), tu.src(d.body)) is not None
            n += 1
            ctx.ob(rule, "%s|%s" % (fn.name, member), bool(took and rel), tu.loc(x),
                   "%s->%s = %s: reference taken here and released in %s_dealloc" % (holder, member, estr(r), cls) if (took and rel) else
                   "%s->%s = %s %s" % (holder, member, estr(r), "without Py_INCREF: the referenced object can be freed while this one still uses it" if not took
                                         else "but %s_dealloc never releases it" % cls))
    ctx.floor(rule, 5)
    return n


def error_codes(ctx, P, rule="ERR-CODES"):
    """Exhaustiveness: every error code has a message and a value of its own."""
    import os
    from sa import cfront
    ctx.rule(rule, "every TSK_ERR_* code defined in core.h has its own `case` in tsk_strerror_internal and every KAS_ERR_* code in "
                   "kastore.h has one in kas_strerror; no two codes share a value (a shared value makes one failure read as "
                   "another; a missing case makes the library report an unknown error for a rejected input)")
    n = 0
    for hdr, src, prefix in (("c/tskit/core.h", "c/tskit/core.c", "TSK_ERR_"), ("c/subprojects/kastore/kastore.h", "c/subprojects/kastore/kastore.c", "KAS_ERR_")):
        h = open(os.path.join(cfront.REPO, hdr), errors="replace").read()
        c = open(os.path.join(cfront.REPO, src), errors="replace").read()
        defs = re.findall(r"^#define\s+(%s\w+)\s+\(?\s*(-?\d+)\s*\)?" % prefix, h, re.M)
        cases = set(re.findall(r"case\s+(%s\w+)\s*:" % prefix, c))
        if len(defs) < 10:
            from sa.report import AnalysisError
            raise AnalysisError("anchor-missing: %s* definitions in %s" % (prefix, hdr))
        vals = {}
        for d, v in defs:
            vals.setdefault(v, []).append(d)
        for d, v in defs:
            n += 1
            dup = [o for o in vals[v] if o != d]
            ok = d in cases and not dup
            ctx.ob(rule, d, ok, hdr, "%s = %s has a message" % (d, v) if ok else
                   ("%s has no case in the strerror switch of %s" % (d, src) if d not in cases else "%s shares the value %s with %s" % (d, v, dup)))
    return n


TABLES8 = {"individual": "individuals", "node": "nodes", "edge": "edges", "migration": "migrations", "site": "sites",
           "mutation": "mutations", "population": "populations", "provenance": "provenances"}


def collection_every_table(ctx, P, rule="COLLECTION-TABLES"):
    from sa.schema import Facts
    ctx.rule(rule, "the collection-level bookkeeping touches every one of the eight tables with its own member: "
                   "tsk_table_collection_init / _free call tsk_<t>_table_init / _free(&self-><t>s), _record_num_rows stores "
                   "self-><t>s.num_rows in position-><t>s, _truncate calls tsk_<t>_table_truncate(&tables-><t>s, position-><t>s): "
                   "member and bookmark field carry the same table name in every row")
    tu = P.tus["tables"]
    n = 0
    for fname, op in (("tsk_table_collection_init", "init"), ("tsk_table_collection_free", "free"), ("tsk_table_collection_truncate", "truncate")):
        fn = P.need(fname, "tables")
        F = Facts(P, fn)
        own = fn.params[0].name
        for t, mem in TABLES8.items():
            hits = F.calls_to("tsk_%s_table_%s" % (t, op))
            ok = len(hits) == 1 and hits[0][0][0] == "&%s->%s" % (own, mem)
            if ok and op == "truncate":
                ok = len(hits[0][0]) > 1 and hits[0][0][1] == "%s->%s" % (fn.params[1].name, mem)
            n += 1
            ctx.ob(rule, "%s|%s" % (fname, t), ok, tu.loc(hits[0][1]) if hits else tu.loc(fn.node),
                   "tsk_%s_table_%s(%s)" % (t, op, ", ".join(hits[0][0]) if hits else "missing"))
    fn = P.need("tsk_table_collection_record_num_rows", "tables")
    F = Facts(P, fn)
    for t, mem in TABLES8.items():
        want = ("%s->%s" % (fn.params[1].name, mem), "%s->%s.num_rows" % (fn.params[0].name, mem))
        ok = any(l == want[0] and r == want[1] for l, o, r, nn in F.assigns)
        n += 1
        ctx.ob(rule, "tsk_table_collection_record_num_rows|%s" % t, ok, tu.loc(fn.node), "%s = %s" % want)
    return n
