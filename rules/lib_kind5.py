"""Round-8 rules: conventions shared by two sites (producer / consumer agreement).

C:       THRESHOLD-AGREE (every test of one filter threshold has the same strictness), SORT-BOOKMARK (a sort may skip only a
         whole, untouched table), VARIANT-SAMPLES-PAIR (the sample list a variant decodes is the list its consumer indexes by),
         LWT-OMIT-DEFAULT (a dict key the writer omits when empty must default to empty on the reading side).
Python:  PY-SLIPS clauses aggregate-length, specified-path, subtree-root (called from lib_kind4.function_lints).
"""
from __future__ import annotations

import ast
import re

from sa.expr import walk, estr, callee, calls, strip

REL = {"<": ">", "<=": ">=", ">": "<", ">=": "<="}


def _norm(s):
    return " ".join(s.split())


# ------------------------------------------------------------------------------------------------------------------------
# THRESHOLD-AGREE

def threshold_agree(ctx, P, rule="THRESHOLD-AGREE", tu_name="tables", prefix="tsk_ibd_finder_", skip=("tsk_ibd_finder_init",),
                    thresholds=(("self->max_time", ">", 1), ("self->min_span", ">", 2))):
    """Each filter threshold of the IBD finder is tested at several sites (seeding, sweep, queue pre-filter, final filter).  The
    sites must agree on which side of the threshold is *excluded*: with the threshold on the right, every relational test is
    `x > T` (excluded / kept, by context) or its exact complement `x <= T`; a `>=` or `<` at one site makes the value x == T
    excluded by one site and expected by another."""
    ctx.rule(rule, "every relational test against one filter threshold of the IBD finder (max_time: seeding, sweep break; min_span: "
                   "queue pre-filter, final filter) has the same strictness once the threshold is put on the right: `x > T` or its "
                   "complement `x <= T`, never `x >= T` / `x < T` (two sites would disagree on x == T: a requested node at exactly "
                   "max_time that is the ancestor of another would be dropped by one and awaited by the other)")
    tu = P.tus[tu_name]
    seen = {t: 0 for t, _, _ in thresholds}
    for fn in tu.funcs.values():
        if fn.body is None or not fn.name.startswith(prefix) or fn.name in skip:
            continue
        k = 0
        for x in walk(fn.body):
            if x.k != "BinaryOperator" or x.op not in REL or len(x.kids) != 2:
                continue
            l, r = _norm(estr(x.kids[0])), _norm(estr(x.kids[1]))
            for t, want, _ in thresholds:
                tl, tr = t in re.sub(r"[()]", " ", l).split(), t in re.sub(r"[()]", " ", r).split()
                if tl == tr:
                    continue
                op = x.op if tr else REL[x.op]
                seen[t] += 1
                ok = op in (want, {">": "<=", "<": ">="}[want])
                ctx.ob(rule, "%s|%s@%d" % (fn.name, t.split("->")[-1], k), ok, tu.loc(x),
                       "`%s` agrees with the other tests of %s (x %s T / x %s T)" % (_norm(tu.src(x))[:60], t, want, {">": "<=", "<": ">="}[want]) if ok else
                       "`%s` tests %s with `%s` where every other site uses `%s` / `%s`: the two sites disagree when the value equals the threshold"
                       % (_norm(tu.src(x))[:60], t, op, want, {">": "<=", "<": ">="}[want]))
                k += 1
    for t, _, floor in thresholds:
        ctx.ob(rule, "instances|%s" % t.split("->")[-1], seen[t] >= floor, "c/tskit/%s.c" % tu_name, "%d relational tests against %s (at least %d)" % (seen[t], t, floor))


# ------------------------------------------------------------------------------------------------------------------------
# SORT-BOOKMARK

# a start that is neither 0 nor num_rows, confirmed by reading: (function, table) -> (field it is read from, function that computes it,
# the comparison on the SORT KEY that makes it valid).  simplify appends root edges whose parent is at least as old as the youngest
# input root; every edge before the first one with parent time >= that bound sorts before all of them.
KEY_SCANS = {("simplifier_sort_edges", "edges"): ("edge_sort_offset", "simplifier_set_edge_sort_offset", "node_time[edges.parent[offset]] >= youngest_root_time")}
_TABLE_FIELDS = ("individuals", "nodes", "edges", "migrations", "sites", "mutations", "populations", "provenances")


def sort_bookmark(ctx, P, rule="SORT-BOOKMARK", tus=("trees", "tables")):
    """A local tsk_bookmark_t handed to tsk_table_collection_sort says "rows before this are already in place".  Inside the
    library that is only ever known for a table the function did not touch at all, i.e. the start is the table's own num_rows
    (skip everything) or 0.  Any other value (a loop index, "the first row I changed") is an ordering argument about rows appended
    later, and new rows can sort before unchanged ones."""
    ctx.rule(rule, "a local tsk_bookmark_t passed to tsk_table_collection_sort / tsk_table_sorter_run has every field either 0 or "
                   "`<tables>.<same table>.num_rows` (the whole, untouched table is skipped); a start computed from a row index claims "
                   "that appended rows cannot sort before the unchanged prefix, which is false for split / re-timed rows")
    n = 0
    for tn in tus:
        tu = P.tus[tn]
        for fn in tu.funcs.values():
            if fn.body is None:
                continue
            locs = {d.name for d in walk(fn.body) if d.k == "VarDecl" and d.name and (d.ty or "").replace("const ", "").strip() == "tsk_bookmark_t"}
            if not locs:
                continue
            passed = set()
            for c in calls(fn.body):
                if callee(c) in ("tsk_table_collection_sort", "tsk_table_sorter_run"):
                    for a in c.kids[1:]:
                        m = re.fullmatch(r"&\s*(\w+)", _norm(tu.src(a)))
                        if m and m.group(1) in locs:
                            passed.add(m.group(1))
            if not passed:
                continue
            k = 0
            for x in walk(fn.body):
                if x.k == "BinaryOperator" and x.op == "=" and len(x.kids) == 2:
                    m = re.fullmatch(r"(\w+)\.(\w+)", _norm(tu.src(x.kids[0])))
                    if not m or m.group(1) not in passed or m.group(2) not in _TABLE_FIELDS:
                        continue
                    rhs = re.sub(r"\(\s*tsk_size_t\s*\)\s*", "", _norm(tu.src(x.kids[1])))
                    rhs = rhs.strip("() ")
                    ok = rhs == "0" or re.fullmatch(r"[\w>.\-]*?(->|\.)%s\.num_rows" % m.group(2), rhs) is not None
                    n += 1
                    ctx.ob(rule, "%s|%s.%s@%d" % (fn.name, m.group(1), m.group(2), k), ok, tu.loc(x),
                           "`%s` skips the whole %s table" % (_norm(tu.src(x))[:70], m.group(2)) if ok else
                           "`%s`: the sort start of %s is not the table's own num_rows: rows appended later can sort before the skipped prefix"
                           % (_norm(tu.src(x))[:70], m.group(2)))
                    k += 1
                if x.k == "VarDecl" and x.name in passed and x.kids:
                    # initialiser list: { 0, 0, self->edges.num_rows, ... }
                    src = _norm(tu.src(x))
                    m = re.search(r"=\s*\{(.*)\}", src)
                    if m:
                        for i, e in enumerate(p.strip() for p in m.group(1).split(",")):
                            dm = re.fullmatch(r"\.(\w+)\s*=\s*(.*)", e)
                            if dm:
                                f, e = dm.group(1), dm.group(2).strip()
                            elif i < len(_TABLE_FIELDS):
                                f = _TABLE_FIELDS[i]
                            else:
                                continue
                            if e in ("0", "") or f not in _TABLE_FIELDS:
                                continue
                            ok = re.fullmatch(r"(\(\s*tsk_size_t\s*\)\s*)?[\w>.\-]*?(->|\.)%s\.num_rows" % f, e) is not None
                            why = "initialiser `%s` skips the whole %s table" % (e, f) if ok else "initialiser `%s` in the %s slot is not that table's num_rows" % (e, f)
                            if not ok and (fn.name, f) in KEY_SCANS:
                                field, setter, key = KEY_SCANS[(fn.name, f)]
                                sf = P.func(setter, tn)
                                ssrc = _norm(tu.src(sf.body)) if sf is not None and sf.body is not None else ""
                                ok = field in e and key in ssrc
                                why = ("initialiser `%s`: frozen key-scan start (%s stops at the first row whose sort key `%s` reaches the smallest key "
                                       "of the rows appended afterwards; confirmed by reading)" % (e, setter, key)) if ok else \
                                      "initialiser `%s`: the key scan `%s` is no longer in %s" % (e, key, setter)
                            n += 1
                            ctx.ob(rule, "%s|%s.%s@init" % (fn.name, x.name, f), ok, tu.loc(x), why)
    ctx.ob(rule, "instances", n >= 5, "c/tskit", "%d bookmark fields handed to a sort" % n)


# ------------------------------------------------------------------------------------------------------------------------
# VARIANT-SAMPLES-PAIR

def variant_samples_pair(ctx, P, rule="VARIANT-SAMPLES-PAIR", tus=("trees", "genotypes", "haplotype_matching", "stats")):
    """tsk_variant_init(v, ts, samples, num_samples, …): genotype j of the decoded variant belongs to samples[j] (or to
    ts->samples[j] when samples is NULL).  A caller that maps genotype indexes back through its own `samples` array must hand the
    same array to the variant: the pointer and the count come from the same source, and the pointer is not a local that is
    conditionally switched to NULL."""
    ctx.rule(rule, "at every tsk_variant_init / tsk_vargen_init call of the library the (samples, num_samples) pair is either "
                   "(NULL, 0) or two values taken unchanged from the caller's own parameters / fields; the samples pointer is never "
                   "a local re-assigned under a condition (genotype order would then differ from the order of the array the "
                   "caller indexes its results by)")
    n = 0
    for tn in tus:
        tu = P.tus.get(tn)
        if tu is None:
            continue
        for fn in tu.funcs.values():
            if fn.body is None or fn.name in ("tsk_variant_init",):
                continue
            params = {p.name for p in walk(fn.node) if p.k == "ParmVarDecl" and p.name}
            k = 0
            for c in calls(fn.body):
                if callee(c) not in ("tsk_variant_init", "tsk_vargen_init") or len(c.kids) < 5:
                    continue
                s, cnt = _norm(tu.src(c.kids[3])), _norm(tu.src(c.kids[4]))
                n += 1
                if s == "NULL":
                    ok, why = cnt == "0", "(NULL, %s)" % cnt
                else:
                    base = re.match(r"[A-Za-z_]\w*", s)
                    name = base.group(0) if base else s
                    assigns = [x for x in walk(fn.body) if x.k == "BinaryOperator" and x.op == "=" and _norm(tu.src(x.kids[0])) == name]
                    is_local = name not in params
                    ok = not (is_local and assigns) and not (name in params and assigns)
                    why = "samples argument `%s`%s" % (s, " is re-assigned in the function (%d assignment(s)): its order need not be the order of the caller's array"
                                                       % len(assigns) if not ok else " is passed through unchanged")
                ctx.ob(rule, "%s@%d" % (fn.name, k), ok, tu.loc(c), why)
                k += 1
    ctx.ob(rule, "instances", n >= 2, "c/tskit", "%d variant initialisations in the library" % n)


# ------------------------------------------------------------------------------------------------------------------------
# LWT-OMIT-DEFAULT

def lwt_omit_default(ctx, P, rule="LWT-OMIT-DEFAULT"):
    """write_top_level_data (tskit_lwt_interface.h) leaves optional keys out of the dict when they are empty; the reader then
    keeps whatever tsk_table_collection_init established.  That is lossless only for fields whose initial value is empty."""
    ctx.rule(rule, "a top-level dict key that the lwt writer emits only under `<field>_length > 0` belongs to a field that "
                   "tsk_table_collection_init leaves empty: a field with a non-empty initial value (time_units = \"unknown\") must "
                   "always be written, or an empty value comes back as the default")
    mt = P.tus["module"]
    wf = P.need("write_top_level_data", "module")
    tt = P.tus["tables"]
    init = P.need("tsk_table_collection_init", "tables")
    init_src = _norm(tt.src(init.body))
    nonempty = set(re.findall(r"tsk_table_collection_set_(\w+)\s*\(", init_src))
    keys = {}
    for x in walk(wf.body):
        if x.k != "IfStmt":
            continue
        cond = _norm(mt.src(x.kids[0]))
        m = re.fullmatch(r"\(?\s*tables->(\w+)_length > 0\s*\)?", cond)
        if not m:
            continue
        for c in calls(x):
            if callee(c) == "write_string_to_dict" or (callee(c) or "").startswith("write_"):
                km = re.search(r'"(\w+)"', _norm(mt.src(c)))
                if km:
                    keys[km.group(1)] = (m.group(1), x)
    always = set()
    for c in calls(wf.body):
        km = re.search(r'"(\w+)"', _norm(mt.src(c)))
        if km and (callee(c) or "").startswith("write_") and km.group(1) not in keys:
            always.add(km.group(1))
    for key, (field, node) in sorted(keys.items()):
        ok = field not in nonempty
        ctx.ob(rule, "omitted|%s" % key, ok, mt.loc(node),
               "`%s` is omitted when empty and tsk_table_collection_init leaves %s empty" % (key, field) if ok else
               "`%s` is omitted when empty, but tsk_table_collection_init sets %s to a non-empty default: an empty value does not survive asdict / fromdict / copy / pickle" % (key, field))
    for f in sorted(nonempty):
        ctx.ob(rule, "always|%s" % f, f in always, mt.loc(wf.node), "field %s (non-empty initial value) is written unconditionally" % f
               if f in always else "field %s has a non-empty initial value and is not written unconditionally" % f)
    ctx.ob(rule, "instances", len(keys) >= 2 and len(nonempty) >= 1, mt.loc(wf.node), "%d optional keys, %d fields with a non-empty initial value" % (len(keys), len(nonempty)))


# ------------------------------------------------------------------------------------------------------------------------
# Python clauses (PY-SLIPS)

def aggregate_length(fn):
    """[(node, message)]: `len(sep.join(xs)) != n` / `sum(len(x) for x in xs) != n` used to decide a per-element property (every
    element has length 1): an empty element and a two-character element cancel out."""
    out = []
    for x in ast.walk(fn):
        if not (isinstance(x, ast.Compare) and len(x.ops) == 1 and isinstance(x.ops[0], (ast.Eq, ast.NotEq))):
            continue
        for side in (x.left, x.comparators[0]):
            agg = None
            if isinstance(side, ast.Call) and isinstance(side.func, ast.Name) and side.func.id == "len" and side.args:
                a = side.args[0]
                if isinstance(a, ast.Name):
                    ds = [s for s in ast.walk(fn) if isinstance(s, ast.Assign) and len(s.targets) == 1 and isinstance(s.targets[0], ast.Name) and s.targets[0].id == a.id]
                    if len(ds) == 1:
                        a = ds[0].value
                if isinstance(a, ast.Call) and isinstance(a.func, ast.Attribute) and a.func.attr == "join" and isinstance(a.func.value, ast.Constant) and a.func.value.value in ("", b""):
                    agg = a
            if isinstance(side, ast.Call) and isinstance(side.func, ast.Name) and side.func.id == "sum" and side.args and isinstance(side.args[0], (ast.GeneratorExp, ast.ListComp)) \
                    and isinstance(side.args[0].elt, ast.Call) and isinstance(side.args[0].elt.func, ast.Name) and side.args[0].elt.func.id == "len":
                agg = side
            if agg is None:
                continue
            other = x.comparators[0] if side is x.left else x.left
            o = ast.unparse(other)
            if re.search(r"\bnum_\w+|\blen\(", o) or isinstance(other, ast.Name):
                out.append((x, "`%s` compares a total length with a count to decide that every element has length one: an empty element and a "
                            "longer one cancel out" % ast.unparse(x)[:70]))
                break
    return out


def specified_path(fn):
    """[(node, message)]: `V = P is not None` (P a parameter) and an `if V and <more>:` whose else branch calls a method of self
    without handing it P: on the path V and not <more> the caller's P is silently dropped."""
    out = []
    params = {a.arg for a in fn.args.args + fn.args.kwonlyargs} - {"self"}
    flags = {}
    for s in ast.walk(fn):
        if isinstance(s, ast.Assign) and len(s.targets) == 1 and isinstance(s.targets[0], ast.Name) and isinstance(s.value, ast.Compare) \
                and len(s.value.ops) == 1 and isinstance(s.value.ops[0], ast.IsNot) and isinstance(s.value.left, ast.Name) and s.value.left.id in params \
                and isinstance(s.value.comparators[0], ast.Constant) and s.value.comparators[0].value is None:
            flags[s.targets[0].id] = s.value.left.id
    if not flags:
        return out
    for x in ast.walk(fn):
        if not (isinstance(x, ast.If) and isinstance(x.test, ast.BoolOp) and isinstance(x.test.op, ast.And) and x.orelse):
            continue
        vs = [v.id for v in x.test.values if isinstance(v, ast.Name) and v.id in flags]
        if not vs:
            continue
        p = flags[vs[0]]
        for st in x.orelse:
            for c in ast.walk(st):
                if isinstance(c, ast.Call) and isinstance(c.func, ast.Attribute) and ast.unparse(c.func.value).startswith("self"):
                    names = {n.id for a in list(c.args) + [k.value for k in c.keywords] for n in ast.walk(a) if isinstance(n, ast.Name)}
                    if p not in names and len(c.args) + len(c.keywords) >= 2:
                        out.append((c, "`%s(…)` runs in the else branch of `if %s:` where `%s` may still be given, and does not receive it: "
                                    "the caller's %s is ignored on that path" % (ast.unparse(c.func), ast.unparse(x.test)[:50], p, p)))
                        return out
    return out


def subtree_root(fn):
    """[(node, message)]: a function with a `root` parameter that walks `tree.nodes(root, …)` (or recurses from root) and decides
    "this node has a branch above it" with `tree.parent(u) != NULL`: the chosen root of a subtree has a parent in the tree, so it
    is given the branch (length, edge, …) that lies outside the subtree.  The test must be against `root`."""
    out = []
    params = {a.arg for a in fn.args.args + fn.args.kwonlyargs}
    if "root" not in params:
        return out
    walks = [c for c in ast.walk(fn) if isinstance(c, ast.Call) and isinstance(c.func, ast.Attribute) and c.func.attr in ("nodes", "postorder", "preorder")
             and c.args and isinstance(c.args[0], ast.Name) and c.args[0].id == "root"]
    if not walks:
        return out
    pvars = set()
    for s in ast.walk(fn):
        if isinstance(s, ast.Assign) and len(s.targets) == 1 and isinstance(s.targets[0], ast.Name) and isinstance(s.value, ast.Call) \
                and isinstance(s.value.func, ast.Attribute) and s.value.func.attr == "parent":
            pvars.add(s.targets[0].id)
    mentions_root = any(isinstance(c, ast.Compare) and any(isinstance(n, ast.Name) and n.id == "root" for n in ast.walk(c)) for c in ast.walk(fn))
    for c in ast.walk(fn):
        if isinstance(c, ast.Compare) and len(c.ops) == 1 and isinstance(c.ops[0], (ast.Eq, ast.NotEq)):
            sides = [c.left, c.comparators[0]]
            isnull = any(ast.unparse(s_).split(".")[-1] == "NULL" or ast.unparse(s_) == "-1" for s_ in sides)
            ispar = any((isinstance(s_, ast.Name) and s_.id in pvars) or (isinstance(s_, ast.Call) and isinstance(s_.func, ast.Attribute) and s_.func.attr == "parent") for s_ in sides)
            if isnull and ispar and not mentions_root:
                out.append((c, "`%s` decides whether a node of the subtree under `root` has a branch above it: the chosen root has a parent "
                            "whenever it is not a tree root, so it gets a branch from outside the subtree (compare the node with `root`)" % ast.unparse(c)[:60]))
                break
    return out


# ------------------------------------------------------------------------------------------------------------------------
# VALIDATE-BEFORE-CLEAR / SIMPLIFY-REDUCE-EVERY-EDGE

# (function, translation unit, first statement that destroys caller-visible state, error codes that reject the caller's arguments)
CLEARERS = (
    ("simplifier_init", "tables", "simplifier_init_tables", r"TSK_ERR_(NODE_OUT_OF_BOUNDS|DUPLICATE_SAMPLE|BAD_PARAM_VALUE|\w+_OUT_OF_BOUNDS|SIMPLIFY_MIGRATIONS_NOT_SUPPORTED)",
     ("TSK_ERR_NODE_OUT_OF_BOUNDS", "TSK_ERR_DUPLICATE_SAMPLE", "TSK_ERR_SIMPLIFY_MIGRATIONS_NOT_SUPPORTED")),
    ("tsk_table_collection_subset", "tables", "tsk_table_collection_clear", r"TSK_ERR_(NODE_OUT_OF_BOUNDS|MIGRATIONS_NOT_SUPPORTED|BAD_PARAM_VALUE)",
     ("TSK_ERR_NODE_OUT_OF_BOUNDS", "TSK_ERR_MIGRATIONS_NOT_SUPPORTED")),
)


def validate_before_clear(ctx, P, rule="VALIDATE-BEFORE-CLEAR", table=CLEARERS):
    """An operation that works in place and starts by emptying the caller's tables raises every error that depends only on its
    arguments BEFORE that point: a rejected call must leave the tables as they were (the caller catches the error and retries)."""
    ctx.rule(rule, "in an in-place operation every argument-validation error exit (tsk_trace_error of an out-of-bounds / duplicate / "
                   "bad-parameter code) precedes the first call that truncates the caller's tables; and the integrity check precedes it "
                   "too: a rejected simplify leaves the table collection untouched")
    for fname, tn, clearer, codes, required in table:
        tu = P.tus[tn]
        fn = P.need(fname, tn)
        src = tu.src(fn.body)
        pos = src.find(clearer + "(")
        errs = [m for m in re.finditer(codes, src)]
        late = [m for m in errs if pos != -1 and m.start() > pos]
        gate = src.find("tsk_table_collection_check_integrity(")
        before = src[:pos] if pos != -1 else ""
        # a validation moved into a helper of the same translation unit that is called before the clearer counts (one level)
        for hn in set(re.findall(r"\b([a-z]\w+)\s*\(", before)):
            hf = P.func(hn, tn)
            if hf is not None and hf.body is not None and hn != fname and not hn.startswith("tsk_trace"):
                before += "\n" + tu.src(hf.body)
        missing = [c for c in required if pos == -1 or c not in before]
        ok = pos != -1 and not late and not missing and (gate == -1 or gate < pos)
        ctx.ob(rule, "%s|%s" % (fname, clearer), bool(ok), tu.loc(fn.node),
               "%d argument errors (%s) and the integrity check all precede %s" % (len(errs), ", ".join(c[8:] for c in required), clearer) if ok else
               ("%s is raised after %s has emptied the caller's tables: a rejected call destroys its input" % (late[0].group(0), clearer) if late else
                "%s is not refused before %s empties the caller's tables (it is refused later, or not at all): a rejected call destroys its input"
                % (", ".join(missing), clearer) if missing else "%s / argument errors not found in %s" % (clearer, fname)))


def simplify_reduce_every_edge(ctx, P, rule="SIMPLIFY-REDUCE-EVERY-EDGE"):
    """reduce_to_site_topology: every output edge's coordinates go through simplifier_map_reduced_coordinates.  Edges are recorded
    from two places (merge_ancestors and insert_input_roots); the mapping therefore sits inside simplifier_record_edge, or before
    the call in EVERY caller."""
    ctx.rule(rule, "every path into simplifier_record_edge applies simplifier_map_reduced_coordinates: the call is in record_edge itself "
                   "(under TSK_SIMPLIFY_REDUCE_TO_SITE_TOPOLOGY), or in each of its callers before the call - a caller that passes raw "
                   "segment coordinates (the input-root edges) would put breakpoints between sites")
    tu = P.tus["tables"]
    rec = P.need("simplifier_record_edge", "tables")
    inside = bool(calls(rec.body, "simplifier_map_reduced_coordinates"))
    callers = [f for f in tu.funcs.values() if f.body is not None and f.name != "simplifier_record_edge" and calls(f.body, "simplifier_record_edge")]
    ctx.ob(rule, "callers", len(callers) >= 2, tu.loc(rec.node), "simplifier_record_edge is called from %s" % sorted(f.name for f in callers))
    for f in callers:
        own = bool(calls(f.body, "simplifier_map_reduced_coordinates"))
        ok = inside or own
        ctx.ob(rule, "caller|%s" % f.name, ok, tu.loc(f.node),
               "coordinates are mapped %s" % ("inside simplifier_record_edge" if inside else "in %s before recording" % f.name) if ok else
               "%s records edges with unmapped coordinates: simplifier_record_edge no longer maps them and this caller does not either" % f.name)


# ------------------------------------------------------------------------------------------------------------------------
# PEER-STATE

def peer_state(ctx, P, rule="PEER-STATE"):
    """A module object created with __new__ and never initialised has NULL payload pointers.  Every method tests its own `self`
    with <Type>_check_state; an object of a module type received as an ARGUMENT needs the same test before it is dereferenced."""
    ctx.rule(rule, "every local of a module object type (`TableCollection *other`, `TreeSequence *tree_sequence`, `Tree *other`, "
                   "`<X>Table *other` …) that a module function dereferences is first passed to <Type>_check_state: an argument "
                   "built with Type.__new__(Type) has NULL payload pointers and `other->tables->…` is a NULL dereference (SIGSEGV)")
    tu = P.tus["module"]
    types = {f.name[:-len("_check_state")] for f in tu.funcs.values() if f.name.endswith("_check_state") and f.body is not None}
    n = 0
    for fn in tu.funcs.values():
        if fn.body is None:
            continue
        src = None
        for d in walk(fn.body):
            if d.k != "VarDecl" or not d.name:
                continue
            ty = (d.ty or "").replace("const ", "").strip()
            m = re.fullmatch(r"(\w+) \*", ty)
            if not m or m.group(1) not in types:
                continue
            if src is None:
                src = _norm(tu.src(fn.body))
            if not re.search(r"\b%s->\w+" % re.escape(d.name), src):
                continue
            # a local that this function allocates itself (tp_alloc / PyObject_CallObject on the type and then initialises) is not an argument
            own = re.search(r"\b%s = (\(%s \*\) )?(PyObject_Call\w*|\w+->tp_alloc|PyObject_New|_PyObject_New)\b" % (re.escape(d.name), m.group(1)), src) is not None
            if own:
                continue
            n += 1
            ok = re.search(r"\b%s_check_\w+\(%s\)" % (m.group(1), re.escape(d.name)), src) is not None
            if not ok:
                # `self->x = var; … Type_check_state(self->x)`: the stored alias is tested
                for al in re.findall(r"(self->\w+) = %s;" % re.escape(d.name), src):
                    if re.search(r"\b%s_check_\w+\(%s\)" % (m.group(1), re.escape(al)), src):
                        ok = True
            ctx.ob(rule, "%s|%s" % (fn.name, d.name), ok, tu.loc(d),
                   "`%s` is tested with %s_check_state before it is dereferenced" % (d.name, m.group(1)) if ok else
                   "`%s %s` is dereferenced (`%s->…`) without %s_check_state(%s): an uninitialised argument object crashes the interpreter"
                   % (ty, d.name, d.name, m.group(1), d.name))
    ctx.ob(rule, "instances", n >= 15, "python/_tskitmodule.c", "%d argument objects of module types" % n)


# ------------------------------------------------------------------------------------------------------------------------
# PY-NAN-COORD

def _float_locals(fn):
    out = set()
    for s in ast.walk(fn):
        if isinstance(s, ast.Assign) and len(s.targets) == 1 and isinstance(s.targets[0], ast.Name) and isinstance(s.value, ast.Call):
            f = ast.unparse(s.value.func)
            kws = {k.arg: ast.unparse(k.value) for k in s.value.keywords}
            if f in ("np.array", "np.asarray", "np.ascontiguousarray", "numpy.array") and kws.get("dtype", "") in ("np.float64", "float", "np.double", "numpy.float64"):
                out.add(s.targets[0].id)
    return out


def py_nan_coord(ctx, py, mods=("util", "tables", "trees", "intervals", "stats"), rule="PY-NAN-COORD"):
    """Python-side validators of float coordinates (intervals, windows, time windows) reject bad values with ordered comparisons
    (`left < start`, `right <= left`).  Every ordered comparison with NaN is False, so a NaN passes all of them; a validator of
    this shape also needs an explicit finiteness test (np.isfinite / np.isnan) - the Python twin of GUARD-NAN."""
    ctx.rule(rule, "a Python function that converts an argument to a float64 array and rejects values by ordered comparisons that "
                   "raise ValueError (two or more such tests over the elements) also tests finiteness (np.isfinite / np.isnan / "
                   "math.isfinite): NaN fails no ordered comparison and would be accepted as a coordinate")
    n = 0
    for mn in mods:
        m = py.modules.get(mn)
        if m is None:
            continue
        for qn, fn in m.funcs.items():
            fl = _float_locals(fn)
            if not fl:
                continue
            # element names: `for a, b in X` / `for a in X`
            elems = set()
            for lp in ast.walk(fn):
                if isinstance(lp, ast.For) and isinstance(lp.iter, ast.Name) and lp.iter.id in fl:
                    elems |= {t.id for t in ast.walk(lp.target) if isinstance(t, ast.Name)}
            subjects = fl | elems
            tests = 0
            for i in ast.walk(fn):
                if isinstance(i, ast.If) and any(isinstance(b, ast.Raise) for b in i.body):
                    for c in ast.walk(i.test):
                        if isinstance(c, ast.Compare) and any(isinstance(o, (ast.Lt, ast.LtE, ast.Gt, ast.GtE)) for o in c.ops) \
                                and any(isinstance(x, ast.Name) and x.id in subjects for x in ast.walk(c)):
                            tests += 1
            if tests < 2:
                continue
            n += 1
            fin = any(isinstance(c, ast.Call) and ast.unparse(c.func).split(".")[-1] in ("isfinite", "isnan", "isinf") for c in ast.walk(fn))
            ctx.ob(rule, "%s.%s" % (mn, qn), fin, m.loc(fn),
                   "%d ordered range tests and an explicit finiteness test" % tests if fin else
                   "%s.%s rejects coordinates with %d ordered comparisons and never tests finiteness: NaN passes every one of them" % (mn, qn, tests))
    ctx.ob(rule, "instances", n >= 1, "python/tskit", "%d float-coordinate validators of this shape" % n)


# ------------------------------------------------------------------------------------------------------------------------
# TREE-RESET-UNCONDITIONAL

def tree_reset_unconditional(ctx, P, rule="TREE-RESET-UNCONDITIONAL"):
    """tsk_tree_first / tsk_tree_last are absolute moves: whatever state the tree is in, they end on the first / last tree.  They
    are built as clear + one relative step, so the clear must run on every call: "nothing to clear" tests on the tree's contents
    (num_edges == 0 holds on an edgeless tree in the middle of the sequence too) leave the position cursor where it was and the
    step becomes relative to it."""
    ctx.rule(rule, "tsk_tree_first and tsk_tree_last call tsk_tree_clear unconditionally (a top-level statement of the function, "
                   "under no if / loop) before their single tsk_tree_next / tsk_tree_prev step: the result of an absolute move does not "
                   "depend on where the tree was (an edgeless tree has num_edges == 0 but a position)")
    tu = P.tus["trees"]
    for fname, step in (("tsk_tree_first", "tsk_tree_next"), ("tsk_tree_last", "tsk_tree_prev")):
        fn = P.need(fname, "trees")
        top = [k for k in fn.body.kids if k is not None]
        pos_clear = [i for i, st in enumerate(top) if (st.k not in ("IfStmt", "ForStmt", "WhileStmt", "DoStmt", "SwitchStmt") and calls(st, "tsk_tree_clear"))
                     or (st.k == "IfStmt" and st.kids and calls(st.kids[0], "tsk_tree_clear"))]
        pos_step = [i for i, st in enumerate(top) if calls(st, step)]
        cond = [st for st in top if st.k in ("IfStmt", "ForStmt", "WhileStmt", "DoStmt", "SwitchStmt") and any(
            calls(k, "tsk_tree_clear") for k in st.kids[1:] if k is not None)]
        ok = bool(pos_clear) and bool(pos_step) and pos_clear[0] < pos_step[0] and not cond
        ctx.ob(rule, fname, ok, tu.loc(cond[0]) if cond else tu.loc(fn.node),
               "tsk_tree_clear runs on every call, before %s" % step if ok else
               ("tsk_tree_clear runs only under `%s`: from a positioned tree on which that is false the move is relative, not absolute"
                % _norm(tu.src(cond[0].kids[0]))[:60] if cond else "tsk_tree_clear / %s not found in the expected order" % step))


# ------------------------------------------------------------------------------------------------------------------------
# MEMSET-ARGS

def memset_args(ctx, P, rule="MEMSET-ARGS", tus=("core", "tables", "trees", "genotypes", "haplotype_matching", "stats", "convert")):
    """memset(dest, value, size): a call whose third argument is the literal 0 sets nothing (the arguments are swapped:
    `tsk_memset(&x, sizeof(x), 0)`), and one whose second argument is a sizeof expression fills with a truncated size."""
    ctx.rule(rule, "every tsk_memset / memset call of the library has (dest, fill byte, byte count) in that order: the count is not "
                   "the literal 0 and the fill value is not a sizeof expression (`tsk_memset(&other->tree, sizeof(other->tree), 0)` "
                   "clears nothing and leaves the copied pointers in place)")
    n = 0
    for tn in tus:
        tu = P.tus.get(tn)
        if tu is None:
            continue
        for fn in tu.funcs.values():
            if fn.body is None:
                continue
            k = 0
            for c in calls(fn.body):
                if callee(c) not in ("tsk_memset", "memset") or len(c.kids) < 4:
                    continue
                val, cnt = _norm(tu.src(c.kids[2])), _norm(tu.src(c.kids[3]))
                n += 1
                bad = cnt == "0" or "sizeof" in val
                if bad:
                    ctx.ob(rule, "%s@%d" % (fn.name, k), False, tu.loc(c), "`%s`: value `%s`, count `%s` - the arguments are swapped, nothing is set"
                           % (_norm(tu.src(c))[:70], val, cnt))
                k += 1
    ctx.ob(rule, "instances", n >= 100, "c/tskit", "%d memset calls, each with a non-zero count expression and a fill value that is not a size" % n)


# ------------------------------------------------------------------------------------------------------------------------
# APPEND-ATOMIC

def append_atomic(ctx, P, rule="APPEND-ATOMIC"):
    """tsk_<T>_table_append_columns with several ragged columns: a bad offset array in a LATER column must be found before an
    EARLIER column's payload has been appended and its length advanced, or the failed call leaves ghost data that the next
    add_row inherits (num_rows unchanged, <col>_length advanced)."""
    ctx.rule(rule, "in every tsk_<T>_table_append_columns / set_columns-style appender every check_offsets call precedes the first "
                   "statement that advances a ragged column's length (`self-><col>_length += …`): a failed append leaves the table "
                   "as it was (a later column's bad offsets are found before an earlier column is extended)")
    tu = P.tus["tables"]
    n = 0
    for fn in tu.funcs.values():
        if fn.body is None or not re.fullmatch(r"tsk_\w+_table_append_columns", fn.name):
            continue
        src = tu.src(fn.body)
        checks = [m.start() for m in re.finditer(r"\bcheck_offsets\s*\(", src)]
        adv = [m.start() for m in re.finditer(r"self->\w+_length\s*\+=", src)]
        if len(checks) < 2:
            continue                    # one ragged column: nothing can be half appended by an offsets failure
        n += 1
        late = [c for c in checks if adv and c > adv[0]]
        ctx.ob(rule, fn.name, not late, tu.loc(fn.node),
               "all %d offset validations precede the first length advance" % len(checks) if not late else
               "%d of %d check_offsets calls come after `%s`: a bad offset array in a later column is found after an earlier column has been extended"
               % (len(late), len(checks), _norm(src[adv[0]:adv[0] + 40]).split(";")[0]))
    ctx.ob(rule, "instances", n >= 4, "c/tskit/tables.c", "%d appenders with two or more ragged columns" % n)


# ------------------------------------------------------------------------------------------------------------------------
# PY-SCHEMA-RAW

def schema_raw(ctx, py, rule="PY-SCHEMA-RAW", mod="tables"):
    """copy(), pickling and fromdict(asdict()) of a table go through asdict().  equals() compares the stored schema TEXT, so the
    dict must carry that text: `repr(self.metadata_schema)` is the re-canonicalised form of the parsed schema and differs from
    the stored bytes for any schema written by another tool (`{"codec":"json" }`)."""
    ctx.rule(rule, "every asdict() of tskit.tables puts the STORED metadata-schema text (read from the low-level object: "
                   "`ll_table.metadata_schema`, `_ll_reference_sequence.metadata_schema`, `_ll_tables…`) under the key "
                   "\"metadata_schema\", never `repr()` / `str()` of the parsed MetadataSchema: a copy or pickle must equal its source "
                   "byte for byte")
    m = py.mod(mod)
    n = 0
    for qn, fn in m.funcs.items():
        if qn.split(".")[-1] != "asdict":
            continue
        vals = []
        for x in ast.walk(fn):
            if isinstance(x, ast.Assign) and len(x.targets) == 1 and isinstance(x.targets[0], ast.Subscript) \
                    and isinstance(x.targets[0].slice, ast.Constant) and x.targets[0].slice.value == "metadata_schema":
                vals.append(x.value)
            if isinstance(x, ast.Dict):
                for k, v in zip(x.keys, x.values):
                    if isinstance(k, ast.Constant) and k.value == "metadata_schema":
                        vals.append(v)
        for i, v in enumerate(vals):
            n += 1
            txt = ast.unparse(v)
            recanon = isinstance(v, ast.Call) and isinstance(v.func, ast.Name) and v.func.id in ("repr", "str")
            raw = re.search(r"\b_?ll_\w+", txt) is not None
            ok = raw and not recanon
            ctx.ob(rule, "%s@%d" % (qn, i), ok, m.loc(v), "`%s` is the stored text" % txt[:60] if ok else
                   "`%s` re-canonicalises the schema: the copy / pickle / dict round trip of a table whose stored schema text is not canonical is unequal to its source" % txt[:60])
    ctx.ob(rule, "instances", n >= 2, m.rel, "%d metadata_schema entries in asdict methods" % n)


# ------------------------------------------------------------------------------------------------------------------------
# UTF8-SIZE

def utf8_size(ctx, P, rule="UTF8-SIZE"):
    """PyUnicode_AsUTF8AndSize(str, NULL) hands back a buffer whose length the caller never learns; the library then reads it as
    a C string, so `"A\\0zzz"` is silently the allele "A".  Every conversion takes the size and either passes it on or compares
    it with strlen."""
    ctx.rule(rule, "every PyUnicode_AsUTF8AndSize call of the module and the lwt header receives a size pointer (not NULL), and a "
                   "function that hands the buffer to the library as a C string (no length travels with it) compares the size with "
                   "strlen: a Python string with an embedded NUL is refused, not truncated")
    tu = P.tus["module"]
    n = 0
    for fn in tu.funcs.values():
        if fn.body is None:
            continue
        k = 0
        for c in walk(fn.body):
            if c.k != "CallExpr":
                continue
            txt = _norm(tu.src(c))
            if not txt.startswith("PyUnicode_AsUTF8AndSize("):
                continue
            n += 1
            arg = txt[len("PyUnicode_AsUTF8AndSize("):-1].rsplit(",", 1)[-1].strip()
            ok = arg not in ("NULL", "0")
            ctx.ob(rule, "%s@%d" % (fn.name, k), ok, tu.loc(c), "size received in `%s`" % arg if ok else
                   "`%s`: the size is discarded, the buffer is read up to its first NUL: a string with an embedded NUL is silently truncated" % txt[:60])
            k += 1
    ctx.ob(rule, "instances", n >= 3, "python/_tskitmodule.c", "%d UTF-8 conversions" % n)
