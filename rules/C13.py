"""C13 - Tables behave like a list of rows; tree sequences never change (structural clauses)."""
from __future__ import annotations

from . import lib_schema, lib_module, lib_py

LEVEL = "other"
EXPLANATION = ("Column-schema completeness of every row/column operation family on the eight tables (obligations generated "
               "from the structs in tables.h), argument/parameter name agreement, row forwarding; immutability clauses.")


def run(ctx):
    P = ctx.program()
    lib_schema.all_families(ctx, P)
    lib_schema.column_domain(ctx, P)
    lib_module.array_flags(ctx, P)
    lib_module.owned_arrays(ctx, P)
    lib_module.format_types(ctx, P)
    py = ctx.python()
    lib_py.validate_before_store(ctx, py)
    lib_py.table_name_agreement(ctx, py)
    lib_py.setcols_complete(ctx, py)
    lib_py.facade_guard(ctx, py, "tables", "BaseTable.__getitem__", "index", "ll_table.get_row", upper="len(self)")
    lib_py.ll_positional(ctx, py, P)
