"""C13 - Tables behave like a list of rows; tree sequences never change (structural clauses)."""
from __future__ import annotations

from . import lib_schema

LEVEL = "other"
EXPLANATION = ("Column-schema completeness of every row/column operation family on the eight tables (obligations generated "
               "from the structs in tables.h), argument/parameter name agreement, row forwarding; immutability clauses.")


def run(ctx):
    P = ctx.program()
    lib_schema.all_families(ctx, P)
