"""C13 - Tables behave like a list of rows; tree sequences never change (structural clauses)."""
from __future__ import annotations

from . import scopes, lib_kind, lib_kind4
from . import lib_schema, lib_module, lib_py, lib_mem

LEVEL = "other"
EXPLANATION = ("Column-schema completeness of every row/column operation family on the eight tables (obligations generated "
               "from the structs in tables.h), argument/parameter name agreement, row forwarding, loop-counter/column domains; "
               "arrays handed out by a tree sequence are read-only views or copies; validate-before-store; C-contiguous row-index arrays.")


def run(ctx):
    P = ctx.program()
    py = ctx.python()
    ps, ms = scopes.py_scope("C13"), scopes.module_scope("C13")
    tbl = lambda f: "_table_" in f and not f.startswith("tsk_table_collection") and not f.startswith("tsk_table_sorter")
    S = lib_schema.all_families(ctx, P, funcs=tbl)
    lib_schema.getters(ctx, P, S)
    lib_schema.subset_helpers(ctx, P)
    lib_mem.capacity(ctx, P)
    lib_mem.sizeof_elements(ctx, P, tus=["tables"], funcs=tbl)
    lib_module.array_flags(ctx, P, only=ms)
    lib_module.owned_arrays(ctx, P)
    lib_module.treeseq_readonly(ctx, P)
    lib_kind.lib_ts_readonly(ctx, P)
    lib_py.immutable_treeseq(ctx, py)
    lib_py.base_class_attrs(ctx, py)
    lib_kind.py_unknown_time(ctx, py)
    lib_module.format_types(ctx, P, only=ms)
    lib_module.parsed_used(ctx, P, only=ms)
    lib_py.validate_before_store(ctx, py)
    lib_py.setcols_complete(ctx, py, only_tables=True)
    lib_py.facade_guard(ctx, py, "tables", "BaseTable.__getitem__", "index", "ll_table.get_row", upper="len(self)")
    lib_py.ll_positional(ctx, py, P, only=ps)
    lib_py.unused_params(ctx, py, mods=("tables",), only=ps)
    lib_kind.py_lints(ctx, py, mods=("tables",), only=ps)
    lib_kind4.row_eager(ctx, py)
    from . import lib_kind2
    lib_kind2.keep_rows_atomic(ctx, P)
    lib_kind2.append_offset(ctx, P)
    lib_kind.dict_atomic(ctx, P)
    lib_kind.takeset_atomic(ctx, P)
    from . import lib_kind3
    lib_kind3.collection_every_table(ctx, P)
    lib_kind3.module_owner_refs(ctx, P)
    lib_kind.py_searchsorted(ctx, py, [("trees", "TreeSequence.site")])
    lib_module.name_agreement(ctx, P, classes=lib_module.TABLE_CLASSES + ("TableCollection",), floor=150)
    lib_module.module_every_path(ctx, P, classes=lib_module.TABLE_CLASSES + ("TableCollection",), floor=40)
    lib_py.facade_names(ctx, py, P, classes=tuple(("tables", c) for c in lib_py.FACADES["tables"]), floor=60)
    lib_mem.c_lints(ctx, ctx.program(), scopes.lib_scope("C13"))
    from . import lib_kind5
    lib_kind5.append_atomic(ctx, ctx.program())
