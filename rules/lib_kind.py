"""Kind-agreement lints: a wrong but type-compatible operand (min for max, left for right, the other table's row count).

MINMAX-KIND      C: TSK_MIN / TSK_MAX agree with what their target and operands are called
PY-MINMAX-KIND   Python: min / max / np.fmin / np.fmax / np.minimum / np.maximum likewise
"""
from __future__ import annotations

import ast
import re

from sa.cfront import LIB_TUS
from sa.expr import macro_args

LEFTISH = re.compile(r"(^|[^a-z])(left|lft|start)([^a-z]|$)|_l$")
RIGHTISH = re.compile(r"(^|[^a-z])(right|rgt|end|stop)([^a-z]|$)|_r$")
MINISH = re.compile(r"(^|_)(min|youngest|lowest|smallest|first)(_|$)")
MAXISH = re.compile(r"(^|_)(max|oldest|highest|largest|last)(_|$)")


def _kind(text):
    """'L' / 'R' / None for an operand or target spelled like a left / right coordinate."""
    t = re.sub(r"\[[^\]]*\]", "", text)          # edge_left[I[tj]] -> edge_left
    t = t.split("->")[-1].split(".")[-1].strip("()& *")
    l, r = bool(LEFTISH.search(t)), bool(RIGHTISH.search(t))
    if l and not r:
        return "L"
    if r and not l:
        return "R"
    return None


def _verdict(fname, target, args):
    """fname in {'min','max'}; target: text of the assignment target / keyword (or None); args: operand texts.
    Returns (ok, why) or None when the call is not about coordinates or named extremes."""
    kinds = [_kind(a) for a in args]
    tk = _kind(target) if target else None
    tname = re.sub(r"\[[^\]]*\]", "", target or "").split("->")[-1].split(".")[-1]
    accum = target is not None and any(re.sub(r"\s+", "", a) == re.sub(r"\s+", "", target) for a in args)
    # 1. an accumulator called min_* / max_* that folds per-item values (`x[j]`) accumulates with the matching function
    #    (a scalar operand is a clamp: `next_max_new_edges = TSK_MIN(ne, next_max_new_edges)` lowers a limit)
    per_item = any("[" in a for a in args if re.sub(r"\s+", "", a) != re.sub(r"\s+", "", target or ""))
    if not per_item:
        pass
    elif accum and MINISH.search(tname) and not MAXISH.search(tname):
        return (fname == "min", "`%s` accumulates a minimum" % tname)
    elif accum and MAXISH.search(tname) and not MINISH.search(tname):
        return (fname == "max", "`%s` accumulates a maximum" % tname)
    # 2. intersection of two intervals: left end = max of two lefts, right end = min of two rights
    if len(args) == 2 and kinds[0] and kinds[0] == kinds[1]:
        want = "max" if kinds[0] == "L" else "min"
        if tk is None or tk == kinds[0]:
            return (fname == want, "the %s end of an intersection is the %s of the two %s ends"
                    % ("left" if kinds[0] == "L" else "right", want, "left" if kinds[0] == "L" else "right"))
        return (False, "a %s end is computed from two %s ends" % ("left" if tk == "L" else "right", "left" if kinds[0] == "L" else "right"))
    # 3. sweep accumulators: right = min(right, next breakpoint), left = max(left, previous breakpoint)
    if accum and tk == "R":
        return (fname == "min", "`%s` is the nearest breakpoint to the right: a minimum" % tname)
    if accum and tk == "L":
        return (fname == "max", "`%s` is the nearest breakpoint to the left: a maximum" % tname)
    # 4. clipping to a window: left = max(bound, x.left), right = min(bound, x.right)
    if tk and len(args) == 2 and tk in kinds and not (kinds[0] and kinds[1] and kinds[0] != kinds[1]):
        want = "max" if tk == "L" else "min"
        return (fname == want, "a %s end clipped to a window is a %s" % ("left" if tk == "L" else "right", want))
    if tk and len(args) == 2 and kinds[0] and kinds[1] and kinds[0] != kinds[1]:
        return (False, "a %s end is computed from one left and one right end" % ("left" if tk == "L" else "right"))
    return None


_CALL = re.compile(r"\bTSK_(MIN|MAX)\s*\(")


def minmax_kind(ctx, P, scope, rule="MINMAX-KIND", tus=None):
    ctx.rule(rule, "TSK_MIN / TSK_MAX agree with the names of what they compute: a variable called min_* / max_* (youngest, oldest …) "
                   "accumulates with the matching macro; the left end of an interval intersection or clip is the TSK_MAX of left "
                   "ends and the right end the TSK_MIN of right ends; the `right` of a tree sweep is the TSK_MIN over the next "
                   "breakpoints; no end is computed from one left and one right coordinate")
    n = 0
    for key in (tus or LIB_TUS):
        tu = P.tus[key]
        for fn in tu.funcs.values():
            if not scope(key, fn.name) or fn.body is None:
                continue
            src = tu.src(fn.body)
            text = tu.text_of(fn.body.file)
            k = 0
            for m in _CALL.finditer(src):
                if src[max(0, m.start() - 8):m.start()].strip().endswith("#define"):
                    continue
                args = macro_args(src[m.start():])
                if len(args) != 2:
                    continue
                # assignment target: `<lhs> = TSK_MIN(` possibly across a line break; or a member designator
                pre = src[:m.start()]
                tm = re.search(r"([A-Za-z_][\w\.\->\[\]]*)\s*=\s*$", pre)
                target = tm.group(1) if tm else None
                v = _verdict(m.group(1).lower(), target, args)
                if v is None:
                    continue
                n += 1
                line = text[:fn.body.b + m.start()].count("\n") + 1
                call = "TSK_%s(%s, %s)" % (m.group(1), args[0], args[1])
                ctx.ob(rule, "%s|%s@%d" % (fn.name, (target or "arg"), k), v[0], "%s:%d" % (fn.body.file, line),
                       ("`%s%s`: %s" % ((target + " = ") if target else "", call, v[1])))
                k += 1
    return n


PY_FUNCS = {"min": "min", "max": "max", "fmin": "min", "fmax": "max", "minimum": "min", "maximum": "max"}


def py_minmax_kind(ctx, py, mods, only=None, rule="PY-MINMAX-KIND"):
    ctx.rule(rule, "min / max / np.fmin / np.fmax / np.minimum / np.maximum in this property's Python functions agree with the names of "
                   "what they compute (same table as MINMAX-KIND): clipped left ends are maxima, clipped right ends minima, sweep "
                   "`right` is a minimum over the next breakpoints, min_* / max_* accumulate with the matching function")
    n = 0
    for mn in mods:
        m = py.mod(mn)
        for qn, fn in m.funcs.items():
            if only is not None and not only(mn, qn):
                continue
            parents = {}
            for x in ast.walk(fn):
                for c in ast.iter_child_nodes(x):
                    parents[c] = x
            k = 0
            for c in ast.walk(fn):
                if not isinstance(c, ast.Call) or len(c.args) != 2 or c.keywords:
                    continue
                f = c.func
                nm = f.id if isinstance(f, ast.Name) else f.attr if isinstance(f, ast.Attribute) else None
                if nm not in PY_FUNCS:
                    continue
                p = parents.get(c)
                target = None
                if isinstance(p, ast.Assign) and len(p.targets) == 1 and p.value is c:
                    target = ast.unparse(p.targets[0])
                elif isinstance(p, ast.keyword) and p.arg:
                    target = p.arg
                v = _verdict(PY_FUNCS[nm], target, [ast.unparse(a) for a in c.args])
                if v is None:
                    continue
                n += 1
                ctx.ob(rule, "%s.%s|%s@%d" % (mn, qn, target or "arg", k), v[0], m.loc(c),
                       "`%s%s`: %s" % ((target + " = ") if target else "", ast.unparse(c)[:80], v[1]))
                k += 1
    return n


def alloc_domain(ctx, P, scope, rule="ALLOC-DOMAIN", tus=None):
    """An array allocated with one row count is not swept by a loop over another table's row count."""
    from sa.expr import strip, walk, estr, callee, const_int
    from sa.guards import CountResolver
    ctx.rule(rule, "an array allocated with room for the rows of one table (`x = tsk_malloc(nodes.num_rows * sizeof(*x))`, resolved "
                   "through locals, struct fields and parameters) is not subscripted by the counter of a loop bounded by the row "
                   "count of a DIFFERENT table: either the loop reads past the allocation or it leaves the tail unprocessed")
    R = CountResolver(P)
    n = 0
    for key in (tus or LIB_TUS):
        tu = P.tus[key]
        for fn in tu.funcs.values():
            if not scope(key, fn.name) or fn.body is None:
                continue
            allocs = {}
            for x in walk(fn.body):
                if x.k == "BinaryOperator" and x.op == "=":
                    r = strip(x.kids[1])
                    if r is None or r.k != "CallExpr":
                        continue
                    c = callee(r)
                    cnt = None
                    if c in ("tsk_malloc", "malloc") and len(r.kids) >= 2:
                        a = strip(r.kids[1])
                        if a is not None and a.k == "BinaryOperator" and a.op == "*":
                            for side in a.kids[:2]:
                                s = strip(side)
                                if s is not None and s.k != "UnaryExprOrTypeTraitExpr" and "sizeof" not in estr(s):
                                    cnt = side
                    elif c in ("tsk_calloc", "calloc") and len(r.kids) >= 3:
                        cnt = r.kids[1]
                    if cnt is None:
                        continue
                    cls = R.classify(cnt, fn)
                    if cls is not None:
                        allocs[estr(x.kids[0])] = (cls, x)
            if not allocs:
                continue
            for lp in walk(fn.body):
                if lp.k != "ForStmt" or len(lp.kids) < 5:
                    continue
                cond = strip(lp.kids[2])
                if cond is None or cond.k != "BinaryOperator" or cond.op not in ("<", "<="):
                    continue
                var = estr(cond.kids[0])
                bcls = R.classify(cond.kids[1], fn)
                if bcls is None:
                    continue
                for x in walk(lp.kids[4]):
                    if x.k == "ArraySubscriptExpr" and estr(x.kids[1]) == var and estr(x.kids[0]) in allocs:
                        (acls, an) = allocs[estr(x.kids[0])]
                        n += 1
                        ok = acls[0] == bcls[0]
                        ctx.ob(rule, "%s|%s[%s]" % (fn.name, estr(x.kids[0]), var), ok, tu.loc(x),
                               "%s has room for count(%s)%+d elements and is swept over count(%s)" % (estr(x.kids[0]), acls[0], acls[1], bcls[0]))
    return n


def span_kind(ctx, P, py, scope, py_mods=(), py_only=None, rule="SPAN-KIND", tus=None):
    from sa.expr import strip, walk, estr
    ctx.rule(rule, "a span is right minus left: no subtraction in this property's functions has a left coordinate as minuend and a "
                   "right coordinate of the same spelling family as subtrahend (`left - right` is the negated span), in C or Python")
    n = 0
    for key in ((tus if tus is not None else LIB_TUS) if P is not None else []):
        tu = P.tus[key]
        for fn in tu.funcs.values():
            if not scope(key, fn.name) or fn.body is None:
                continue
            k = 0
            for x in walk(fn.body):
                if x.k == "BinaryOperator" and x.op == "-":
                    a, b = _kind(estr(x.kids[0])), _kind(estr(x.kids[1]))
                    if a and b and a != b:
                        n += 1
                        ctx.ob(rule, "%s@%d" % (fn.name, k), (a, b) == ("R", "L"), tu.loc(x), "`%s`" % estr(x)[:80])
                        k += 1
    if py is not None:
        for mn in py_mods:
            m = py.mod(mn)
            for qn, fn in m.funcs.items():
                if py_only is not None and not py_only(mn, qn):
                    continue
                k = 0
                for x in ast.walk(fn):
                    if isinstance(x, ast.BinOp) and isinstance(x.op, ast.Sub):
                        a, b = _kind(ast.unparse(x.left)), _kind(ast.unparse(x.right))
                        if a and b and a != b:
                            n += 1
                            ctx.ob(rule, "%s.%s@%d" % (mn, qn, k), (a, b) == ("R", "L"), m.loc(x), "`%s`" % ast.unparse(x)[:80])
                            k += 1
    return n


def _attrs_set(m, cls, qn, recv, seen=None, depth=3):
    seen = set() if seen is None else seen
    if qn in seen or depth < 0 or qn not in m.funcs:
        return set()
    seen.add(qn)
    fn = m.funcs[qn]
    out = set()
    for x in ast.walk(fn):
        if isinstance(x, ast.Attribute) and isinstance(x.ctx, ast.Store) and isinstance(x.value, ast.Name) and x.value.id == recv:
            out.add(x.attr)
        if isinstance(x, ast.Call) and isinstance(x.func, ast.Attribute) and isinstance(x.func.value, ast.Name) and x.func.value.id == recv:
            out |= _attrs_set(m, cls, cls + "." + x.func.attr, "self", seen, depth - 1)
    return out


def py_copy_state(ctx, py, classes, rule="PY-COPY-STATE"):
    """classes: [(module, class)].  copy() through __new__ and __setstate__ rebuild every attribute __init__ establishes."""
    ctx.rule(rule, "an object rebuilt without its constructor (copy() through `__new__`, `__setstate__` after unpickling) is given "
                   "every attribute that `__init__` establishes, directly or through the same helper methods (`_make_arrays`, "
                   "`_init_from_ll`): a copy or an unpickled object missing a cached array raises AttributeError later or, worse, "
                   "shares a stale one")
    n = 0
    for mn, cn in classes:
        m = py.mod(mn)
        init = cn + ".__init__"
        if init not in m.funcs:
            from sa.report import AnalysisError
            raise AnalysisError("anchor-missing: %s.%s.__init__" % (mn, cn))
        base = _attrs_set(m, cn, init, "self")
        for meth in ("copy", "__setstate__"):
            qn = cn + "." + meth
            if qn not in m.funcs:
                continue
            fn = m.funcs[qn]
            recv = "self" if meth == "__setstate__" else None
            if recv is None:
                for x in ast.walk(fn):
                    if isinstance(x, ast.Assign) and isinstance(x.value, ast.Call) and "__new__" in ast.unparse(x.value.func) \
                            and isinstance(x.targets[0], ast.Name):
                        recv = x.targets[0].id
            if recv is None:
                continue        # built through the constructor
            got = _attrs_set(m, cn, qn, recv)
            for a in sorted(base):
                n += 1
                ctx.ob(rule, "%s.%s|%s" % (cn, meth, a), a in got, m.loc(fn),
                       "%s sets %s" % (meth, a) if a in got else "%s.__init__ establishes `%s` but %s() never sets it on the new object" % (cn, a, meth))
    return n


def py_searchsorted(ctx, py, funcs, rule="PY-SEARCHSORTED"):
    """funcs: [(module, qualname)] whose searchsorted calls select sites in a half-open interval or look a position up."""
    ctx.rule(rule, "sites are selected from the sorted position array with side='left' (the default) at BOTH ends, i.e. sites with "
                   "left <= position < right, and a position lookup is followed by an equality test of the element found; "
                   "`side='right'` at either end would include a site at `right` or drop one at `left`")
    n = 0
    for mn, qn in funcs:
        m = py.mod(mn)
        fn = py.func(mn, qn)
        k = 0
        for c in ast.walk(fn):
            if isinstance(c, ast.Call) and ((isinstance(c.func, ast.Attribute) and c.func.attr == "searchsorted")):
                side = None
                for kw in c.keywords:
                    if kw.arg == "side":
                        side = ast.unparse(kw.value)
                pos = [ast.unparse(a) for a in c.args]
                if isinstance(c.func.value, ast.Name) and c.func.value.id in ("np", "numpy"):
                    extra = pos[2:] if len(pos) > 2 else []
                else:
                    extra = pos[1:] if len(pos) > 1 else []
                if extra:
                    side = extra[0]
                n += 1
                ok = side in (None, "'left'")
                ctx.ob(rule, "%s.%s@%d" % (mn, qn, k), ok, m.loc(c), "`%s` uses side=%s" % (ast.unparse(c)[:70], side or "'left' (default)"))
                k += 1
    if n < len(funcs):
        from sa.report import AnalysisError
        raise AnalysisError("anchor-missing: rule %s found %d searchsorted calls in %d functions" % (rule, n, len(funcs)))
    return n


def dict_atomic(ctx, P, rule="DICT-ATOMIC", floor=8):
    from sa.cfg import CFG
    from sa.expr import walk, callee, calls
    ctx.rule(rule, "set_columns / fromdict convert and length-check EVERY input array before the table is touched: in each "
                   "parse_<table>_table_dict no input conversion (table_read_column_array / table_read_offset_array / "
                   "PyArray_* / PyBytes_*) is reachable after tsk_<table>_table_clear, so a rejected argument leaves the rows as "
                   "they were")
    tu = P.tus["module"]
    n = 0
    for fn in tu.funcs.values():
        m = re.fullmatch(r"parse_(\w+)_table_dict", fn.name)
        if not m:
            continue
        cfg = CFG(fn)

        def node_of(c):
            for nd in cfg.nodes:
                if nd.ast is not None and nd.kind in ("stmt", "cond") and any(x is c for x in walk(nd.ast)):
                    return nd
            return None
        clear = [c for c in calls(fn.body) if (callee(c) or "").endswith("_table_clear")]
        conv = [c for c in calls(fn.body) if (callee(c) or c.mac or "") and re.search(
            r"table_read_(column|offset)_array|^PyArray_(FROM|From|Check)|^PyBytes_AsStringAndSize|^parse_", callee(c) or c.mac or "")]
        if not clear:
            ctx.ob(rule, fn.name, False, tu.loc(fn.node), "no tsk_*_table_clear call found")
            continue
        cn = node_of(clear[0])
        after = cfg.reach([cn]) - {cn} if cn is not None else set()
        late = [c for c in conv if node_of(c) in after]
        n += 1
        ctx.ob(rule, fn.name, not late and bool(conv), tu.loc(late[0]) if late else tu.loc(clear[0]),
               "%d conversions, all before the clear" % len(conv) if not late else
               "`%s` converts an input after the table has been cleared: a bad argument leaves the table empty" % (callee(late[0]) or late[0].mac))
    ctx.floor(rule, floor)
    return n


def py_lints(ctx, py, mods, only=None):
    """the Python kind / width lints on one property's functions (called next to lib_py.unused_params with the same scope)"""
    from . import lib_py
    if getattr(ctx, "tier", "quick") == "thorough" and only is not None:
        only = _py_closure(py, mods, only)
    py_minmax_kind(ctx, py, mods, only=only)
    span_kind(ctx, None, py, None, py_mods=mods, py_only=only, tus=[])
    lib_py.py_width(ctx, py, mods, only=only)
    py_stale_rows(ctx, py, mods, only=only)
    py_find_index(ctx, py, mods, only=only)
    py_default_independent(ctx, py, mods, only=only)
    from . import lib_kind3, lib_kind4
    lib_kind3.py_slips(ctx, py, mods, only=only)
    classes = [(mn, c) for mn in mods if mn in lib_py.FACADES for c in lib_py.FACADES[mn]]
    if classes:
        lib_kind4.ll_every_path(ctx, py, classes, only=only, floor=0)


TS_WRITERS_OK = {
    "tsk_treeseq_init": "constructor: allocates / copies / indexes the tables it will own",
    "tsk_treeseq_free": "destructor",
    "tsk_treeseq_load": "constructor (file)",
    "tsk_treeseq_loadf": "constructor (stream)",
}


def lib_ts_readonly(ctx, P, rule="LIB-TS-READONLY", tus=("trees", "genotypes", "stats", "convert", "haplotype_matching")):
    """Write effects on a live tree sequence's tables inside libtskit (the C `const` on tsk_treeseq_t does not reach through
    the `tables` pointer)."""
    from sa.expr import strip, walk, estr, callee, calls, is_assign
    ctx.rule(rule, "outside its constructors and destructor no libtskit function writes through `<tree sequence>->tables`: no "
                   "assignment, increment or memcpy/memset destination has an access path that passes through the `tables` member "
                   "of a tsk_treeseq_t (directly, or through a non-const local pointer initialised from it), and `->tables` (or a "
                   "table / column below it) is never handed to a parameter that is not const-qualified.  The `const` on "
                   "`const tsk_treeseq_t *self` does not reach through the pointer, so the compiler does not enforce this")

    def chain(n):
        """(text of the access path without subscripts, root DeclRefExpr node)"""
        n = strip(n)
        parts = []
        while n is not None:
            if n.k == "ArraySubscriptExpr":
                n = strip(n.kids[0])
            elif n.k == "MemberExpr":
                parts.append(("->" if n.arrow else ".") + (n.name or ""))
                n = strip(n.kids[0])
            elif n.k == "UnaryOperator" and n.op in ("*", "&"):
                n = strip(n.kids[0])
            elif n.k == "DeclRefExpr":
                return (n.ref or "") + "".join(reversed(parts)), n
            else:
                return "".join(reversed(parts)), None
        return "".join(reversed(parts)), None
    n_sites = 0
    for key in tus:
        tu = P.tus[key]
        for fn in tu.funcs.values():
            if fn.body is None:
                continue
            # non-const local pointers that alias something below ->tables
            tainted = {}
            for x in walk(fn.body):
                if x.k == "VarDecl" and x.kids and x.name and "*" in (x.ty or "") and not (x.ty or "").lstrip().startswith("const"):
                    c, _ = chain(x.kids[-1])
                    if re.search(r"->tables(->|\.|$)", c):
                        tainted[x.name] = c

            def through_tables(node):
                c, root = chain(node)
                if re.search(r"->tables(->|\.)", c):
                    return c
                if root is not None and root.ref in tainted and strip(node) is not None and strip(node).k != "DeclRefExpr":
                    return "%s (= %s)" % (c, tainted[root.ref])
                return None
            bad = []
            for x in walk(fn.body):
                tgt = None
                if is_assign(x) or x.k == "CompoundAssignOperator":
                    tgt = x.kids[0]
                elif x.k == "UnaryOperator" and x.op in ("++", "--"):
                    tgt = x.kids[0]
                if tgt is not None:
                    t = through_tables(tgt)
                    if t:
                        bad.append((x, "writes `%s`" % t))
                if x.k == "CallExpr":
                    nm = callee(x)
                    cal = P.func(nm) if nm else None
                    for i, a in enumerate(x.kids[1:]):
                        c, root = chain(a)
                        hit = re.search(r"->tables(->|\.|$)", c) or (root is not None and root.ref in tainted)
                        if not hit:
                            continue
                        if nm in ("tsk_memcpy", "memcpy", "tsk_memset", "memset", "tsk_memmove", "memmove"):
                            if i == 0:
                                bad.append((x, "%s destination `%s`" % (nm, c)))
                            continue
                        if cal is None or i >= len(cal.params):
                            continue
                        pty = cal.params[i].ty or ""
                        if "*" in pty and "const" not in pty:
                            bad.append((x, "passes `%s` to `%s` parameter %d of %s" % (c, pty, i, nm)))
            if not bad and not re.search(r"tables", tu.src(fn.body)):
                continue
            n_sites += 1
            if fn.name in TS_WRITERS_OK:
                ctx.ob(rule, fn.name, True, tu.loc(fn.node), "sanctioned: " + TS_WRITERS_OK[fn.name])
            else:
                ctx.ob(rule, fn.name, not bad, tu.loc(bad[0][0]) if bad else tu.loc(fn.node),
                       "reads the tables only" if not bad else "%s %s" % (fn.name, bad[0][1]))
    ctx.floor(rule, 50)
    return n_sites


def alignments_window(ctx, py, rule="PY-WINDOW-OFFSET"):
    ctx.rule(rule, "TreeSequence.alignments converts between genome coordinates and the coordinates of the requested window "
                   "consistently: the embedded reference sequence is sliced [interval.left : interval.right] (never by the window "
                   "length from 0), and site columns are written at `position - interval.left`")
    m = py.mod("trees")
    fn = py.func("trees", "TreeSequence.alignments")
    # the name bound to the checked genomic range
    win = None
    for x in ast.walk(fn):
        if isinstance(x, ast.Assign) and isinstance(x.value, ast.Call) and (ast.unparse(x.value.func)).endswith("_check_genomic_range") \
                and isinstance(x.targets[0], ast.Name):
            win = x.targets[0].id
    if win is None:
        ctx.ob(rule, "window", False, m.loc(fn), "no `<name> = self._check_genomic_range(left, right, ...)` found")
        return 0
    n = 0
    slices = [s for s in ast.walk(fn) if isinstance(s, ast.Subscript) and isinstance(s.slice, ast.Slice)
              and "reference_sequence" in ast.unparse(s.value)]
    for k, s in enumerate(slices):
        lo = ast.unparse(s.slice.lower) if s.slice.lower is not None else None
        hi = ast.unparse(s.slice.upper) if s.slice.upper is not None else None
        n += 1
        ok = lo == "%s.left" % win and hi == "%s.right" % win
        ctx.ob(rule, "reference-slice@%d" % k, ok, m.loc(s), "`%s` takes [%s : %s] of the reference (want [%s.left : %s.right])"
               % (ast.unparse(s)[:70].replace("\n", " "), lo, hi, win, win))
    ctx.ob(rule, "reference-slice|present", bool(slices), m.loc(fn), "%d slice(s) of the embedded reference sequence" % len(slices))
    # writes of site columns into the window array
    k = 0
    for x in ast.walk(fn):
        if isinstance(x, ast.Assign) and isinstance(x.targets[0], ast.Subscript) and not isinstance(x.targets[0].slice, ast.Slice):
            idx = x.targets[0].slice
            txt = ast.unparse(idx)
            if "pos" in txt:
                n += 1
                ok = isinstance(idx, ast.BinOp) and isinstance(idx.op, ast.Sub) and ast.unparse(idx.right) == "%s.left" % win
                ctx.ob(rule, "site-column@%d" % k, ok, m.loc(x), "site columns stored at `%s`" % txt)
                k += 1
    ctx.ob(rule, "site-column|present", k >= 1, m.loc(fn), "%d site-column store(s)" % k)
    return n


def takeset_atomic(ctx, P, rule="TAKESET-ATOMIC", floor=8):
    from sa.cfg import CFG
    from sa.expr import walk, callee, calls
    ctx.rule(rule, "tsk_<table>_table_takeset_columns validates every input before it frees or takes any memory: no "
                   "check_ragged_column / check_offsets call and no guard raising a TSK_ERR_* input error is reachable after "
                   "tsk_<table>_table_free_columns(self).  A validation that fails after ownership of some buffers has moved makes "
                   "the caller and the table free the same buffer (loading a corrupt file aborts instead of raising)")
    tu = P.tus["tables"]
    n = 0
    for fn in tu.funcs.values():
        if not re.fullmatch(r"tsk_\w+_table_takeset_columns", fn.name):
            continue
        cfg = CFG(fn)

        def node_of(c):
            for nd in cfg.nodes:
                if nd.ast is not None and nd.kind in ("stmt", "cond") and any(x is c for x in walk(nd.ast)):
                    return nd
            return None
        free = [c for c in calls(fn.body) if (callee(c) or "").endswith("_free_columns")]
        if not free:
            ctx.ob(rule, fn.name, False, tu.loc(fn.node), "no *_free_columns(self) call found")
            continue
        fnode = node_of(free[0])
        after = cfg.reach([fnode]) - {fnode}
        late = []
        for nd in after:
            if nd.ast is None:
                continue
            for x in walk(nd.ast):
                if x.k == "CallExpr" and (callee(x) or "") in ("check_ragged_column", "check_offsets"):
                    late.append((x, "%s(...)" % callee(x)))
            if nd.kind == "stmt":
                s = tu.src(nd.ast)
                m = re.search(r"TSK_ERR_(BAD_PARAM_VALUE|BAD_OFFSET|COLUMN_OVERFLOW|\w*_OUT_OF_BOUNDS)", s)
                if m:
                    late.append((nd.ast, "raises %s" % m.group(0)))
        n += 1
        ctx.ob(rule, fn.name, not late, tu.loc(late[0][0]) if late else tu.loc(free[0]),
               "all input validation precedes free_columns" if not late else
               "%s after free_columns(self): buffers already taken are freed twice when it fails" % late[0][1])
    ctx.floor(rule, floor)
    return n


def shifted_index(ctx, P, scope, rule="SHIFTED-INDEX", tus=None):
    from sa.expr import strip, walk, estr, const_int
    from .lib_mem import _loop_counter
    ctx.rule(rule, "inside a loop that derives a row index from its counter by a non-constant offset (`k = start + j`), the columns "
                   "of one object are subscripted consistently: no array (and no two columns of the same table) is indexed by the "
                   "raw counter in one place and by the shifted index in another (`metadata_offset[k]` next to "
                   "`metadata_offset[j + 1]` reads another row's length)")
    n = 0
    for key in (tus or LIB_TUS):
        tu = P.tus[key]
        for fn in tu.funcs.values():
            if not scope(key, fn.name) or fn.body is None:
                continue
            kk = 0
            for lp in walk(fn.body):
                if lp.k != "ForStmt":
                    continue
                j = _loop_counter(lp)
                if not j:
                    continue
                body = lp.kids[-1]
                shifted = {}
                for x in walk(body):
                    if x.k == "BinaryOperator" and x.op == "=":
                        l, r = strip(x.kids[0]), strip(x.kids[1])
                        if l is not None and l.k == "DeclRefExpr" and r is not None and r.k == "BinaryOperator" and r.op == "+" \
                                and "*" not in (l.ty or ""):
                            a, b = strip(r.kids[0]), strip(r.kids[1])
                            ops = [estr(a), estr(b)]
                            if j in ops and l.ref != j:
                                other = b if ops[0] == j else a
                                if const_int(other) is None:
                                    shifted[l.ref] = estr(r)
                if not shifted:
                    continue
                uses = {}
                for x in walk(body):
                    if x.k == "ArraySubscriptExpr":
                        base, idx = estr(x.kids[0]), estr(x.kids[1])
                        toks = set(re.findall(r"[A-Za-z_]\w*", idx))
                        kind = "raw" if (j in toks and not (toks & set(shifted))) else "shifted" if (toks & set(shifted) and j not in toks) else None
                        if kind:
                            uses.setdefault(base, {}).setdefault(kind, x)
                owners = {}
                for b, ks in uses.items():
                    m = re.search(r"^(.*)(->|\.)\w+$", b)
                    own = m.group(1) if m else b
                    for kd, x in ks.items():
                        owners.setdefault(own, {}).setdefault(kd, (b, x))
                for own, ks in sorted(owners.items()):
                    n += 1
                    mixed = len(ks) > 1
                    ctx.ob(rule, "%s@%d|%s" % (fn.name, kk, own), not mixed, tu.loc(ks["raw"][1]) if mixed else tu.loc(lp),
                           "%s is indexed by the %s index only" % (own, list(ks)[0]) if not mixed else
                           "%s[%s…] uses the raw counter while %s[…] uses the shifted index %s" % (ks["raw"][0], j, ks["shifted"][0], shifted))
                kk += 1
    return n


def discrete_flags(ctx, P, rule="DISCRETE-FLAGS", floor=6):
    from sa.expr import strip, walk, estr, callee, is_assign
    ctx.rule(rule, "the discrete_genome / discrete_time flags (which choose the default precision of the Newick / Nexus writers) are "
                   "folded from the right accumulator at the right time: `self->discrete_genome = self->discrete_genome && L` where "
                   "L accumulates is_discrete() of coordinates only (left, right, position, tree ends), `self->discrete_time = "
                   "self->discrete_time && T` where T accumulates is_discrete() of times only, and no accumulation of L / T follows "
                   "the fold (the last tree's right end – the sequence length – is part of L)")
    tu = P.tus["trees"]
    n = 0

    def kind_of(arg):
        t = re.sub(r"\[[^\]]*\]", "", arg)
        if re.search(r"time", t):
            return "time"
        if re.search(r"left|right|position|breakpoint", t):
            return "genome"
        return None
    for fn in tu.funcs.values():
        if fn.body is None:
            continue
        folds = []
        for x in walk(fn.body):
            if is_assign(x) and estr(strip(x.kids[0])) in ("self->discrete_genome", "self->discrete_time"):
                folds.append(x)
        for x in folds:
            flag = estr(strip(x.kids[0])).split("->")[1]
            r = strip(x.kids[1])
            if r is None or r.k != "BinaryOperator" or r.op != "&&":
                continue        # initialisation (`= true`)
            ops = [estr(r.kids[0]), estr(r.kids[1])]
            n += 1
            key = "%s|%s" % (fn.name, flag)
            if "self->" + flag not in ops:
                ctx.ob(rule, key, False, tu.loc(x), "`%s` does not fold into the previous value of %s" % (estr(x), flag))
                continue
            acc = [o for o in ops if o != "self->" + flag][0]
            # accumulations of acc
            kinds, last = set(), None
            lost = None
            for y in walk(fn.body):
                if is_assign(y) and estr(strip(y.kids[0])) == acc and any(c.k == "CallExpr" and callee(c) == "is_discrete" for c in walk(y.kids[1])):
                    r_ = strip(y.kids[1])
                    terms, todo_ = [], [r_]
                    while todo_:
                        q = strip(todo_.pop())
                        if q is not None and q.k == "BinaryOperator" and q.op == "&&":
                            todo_ += [q.kids[0], q.kids[1]]
                        elif q is not None:
                            terms.append(estr(q))
                    if acc not in terms:
                        lost = y
            if lost is not None:
                ctx.ob(rule, key, False, tu.loc(lost), "`%s` overwrites `%s` instead of accumulating (`%s = %s && …`): only the last value decides the flag"
                       % (estr(lost)[:60], acc, acc, acc))
                continue
            for y in walk(fn.body):
                if is_assign(y) and estr(strip(y.kids[0])) == acc:
                    for c in walk(y.kids[1]):
                        if c.k == "CallExpr" and callee(c) == "is_discrete":
                            kinds.add(kind_of(estr(c.kids[1])))
                            last = y if last is None or y.b > last.b else last
            want = "genome" if flag == "discrete_genome" else "time"
            if kinds != {want}:
                ctx.ob(rule, key, False, tu.loc(x), "%s is folded from `%s`, which accumulates is_discrete() of %s values (want %s only)"
                       % (flag, acc, sorted(str(k_) for k_ in kinds) or "no", want))
                continue
            if last is not None and last.b > x.b:
                ctx.ob(rule, key, False, tu.loc(last), "`%s` is still being accumulated after it was folded into %s: the last value "
                       "(the right end of the last tree) never reaches the flag" % (acc, flag))
                continue
            ctx.ob(rule, key, True, tu.loc(x), "%s &&= %s, which accumulates is_discrete() of %s values; folded last" % (flag, acc, want))
    # every breakpoint takes part: there are num_trees + 1 of them (the last one is the sequence length)
    fn = tu.funcs.get("tsk_treeseq_init_trees")
    if fn is not None and fn.body is not None:
        args = [" ".join(tu.src(c.kids[1]).split()) for c in walk(fn.body) if c.k == "CallExpr" and callee(c) == "is_discrete" and len(c.kids) > 1]
        per_tree = "tree_left" in args and "tree_right" in args
        by_array = False
        for lp in walk(fn.body):
            if lp.k == "ForStmt" and any(c.k == "CallExpr" and callee(c) == "is_discrete" and "breakpoints[" in tu.src(c) for c in walk(lp)):
                cond = " ".join(tu.src(lp.kids[2]).split()) if lp.kids[2] is not None else ""
                by_array = bool(re.search(r"<=\s*(self->)?num_trees|num_trees\s*\+\s*1|num_trees_alloc", cond))
        ok = per_tree or by_array
        ctx.ob(rule, "tsk_treeseq_init_trees|all-breakpoints", ok, tu.loc(fn.node),
               "is_discrete() sees every left end and the final right end" if ok else
               "is_discrete() is applied to %s only: one of the num_trees + 1 breakpoints (the sequence length) never reaches "
               "discrete_genome" % (args or "nothing"))
    ctx.floor(rule, floor)
    return n


REORDERING = {"sort", "simplify", "canonicalise", "subset", "sort_individuals", "deduplicate_sites"}


def py_stale_rows(ctx, py, mods, only=None, rule="PY-STALE-ROWS"):
    ctx.rule(rule, "a per-row mask or index array computed from a table's columns (comparisons, np.logical_*, np.where, np.repeat "
                   "over num_rows …) is consumed before the collection is re-ordered: no such local is read after a call to "
                   "self.sort() / simplify() / canonicalise() / subset() that follows its definition (the rows it describes have "
                   "been renumbered)")
    n = 0
    for mn in mods:
        m = py.mod(mn)
        for qn, fn in m.funcs.items():
            if only is not None and not only(mn, qn):
                continue
            reorder = [c for c in ast.walk(fn) if isinstance(c, ast.Call) and isinstance(c.func, ast.Attribute) and c.func.attr in REORDERING
                       and ast.unparse(c.func.value) in ("self", "tables", "self.tables")]
            if not reorder:
                continue
            rowish = {}
            for a in ast.walk(fn):
                if isinstance(a, ast.Assign):
                    v = a.value
                    txt = ast.unparse(v)
                    is_rows = any(isinstance(x, ast.Compare) for x in ast.walk(v)) and re.search(r"\.(position|left|right|time|node|site|parent|child)\b", txt) \
                        or re.search(r"np\.(logical_\w+|where|repeat|zeros|ones|flatnonzero|nonzero)\(", txt) and re.search(r"num_rows|keep|mask", txt)
                    if is_rows:
                        for t in a.targets:
                            if isinstance(t, ast.Name):
                                rowish.setdefault(t.id, []).append(a)
            if not rowish:
                continue
            for c in reorder:
                cend = getattr(c, "end_lineno", c.lineno)
                bad = None
                for u in ast.walk(fn):
                    if isinstance(u, ast.Name) and isinstance(u.ctx, ast.Load) and u.id in rowish and u.lineno > cend:
                        before = [a for a in rowish[u.id] if a.lineno < c.lineno]
                        between = [a for a in rowish[u.id] if cend < a.lineno <= u.lineno]
                        if before and not between:
                            bad = (u, before[-1])
                            break
                n += 1
                ctx.ob(rule, "%s.%s|%s@%d" % (mn, qn, c.func.attr, reorder.index(c)), bad is None, m.loc(bad[0]) if bad else m.loc(c),
                       "no row mask outlives %s()" % c.func.attr if bad is None else
                       "`%s` (computed at line %d from the old row order) is used after %s() renumbered the rows"
                       % (bad[0].id, bad[1].lineno, c.func.attr))
    return n


_MUTATOR = re.compile(r"^tsk_(\w+_table_(clear|truncate|add_row|append_columns|set_columns|extend|keep_rows|update_row|takeset_\w+|squash)"
                      r"|table_collection_(clear|drop_index))$")


def validate_before_mutate(ctx, P, scope, rule="VALIDATE-BEFORE-MUTATE", tus=("tables", "trees")):
    from sa.cfg import CFG
    from sa.expr import walk, callee, calls, estr
    ctx.rule(rule, "an operation that validates its own table collection with tsk_table_collection_check_integrity does so before it "
                   "changes any of that collection's tables: no call that clears, truncates, rewrites or appends to `self->…` is "
                   "reachable from the function entry without passing the integrity check, so a rejected collection is left "
                   "exactly as it was (and the check sees the caller's tables, not a half-emptied copy)")
    n = 0
    for key in tus:
        tu = P.tus[key]
        for fn in tu.funcs.values():
            if fn.body is None or not scope(key, fn.name):
                continue
            own = fn.params[0].name if fn.params else None
            checks = [c for c in calls(fn.body) if callee(c) == "tsk_table_collection_check_integrity" and len(c.kids) > 1 and estr(c.kids[1]) == own]
            if not checks or own is None:
                continue
            muts = [c for c in calls(fn.body) if _MUTATOR.match(callee(c) or "") and len(c.kids) > 1
                    and re.match(r"^&?%s(->|$)" % re.escape(own), estr(c.kids[1]))]
            cfg = CFG(fn)

            def node_of(c):
                for nd in cfg.nodes:
                    if nd.ast is not None and nd.kind in ("stmt", "cond") and any(x is c for x in walk(nd.ast)):
                        return nd
                return None
            cn = {node_of(c) for c in checks} - {None}
            early = None
            for mcall in muts:
                mn_ = node_of(mcall)
                if mn_ is not None and cfg.path_exists(cfg.entry, mn_, avoid=cn):
                    early = mcall
                    break
            n += 1
            ctx.ob(rule, fn.name, early is None, tu.loc(early) if early is not None else tu.loc(checks[0]),
                   "%d mutating call(s) on %s, all behind the integrity check" % (len(muts), own) if early is None else
                   "`%s(%s, …)` can run before tsk_table_collection_check_integrity(%s, …): a rejected collection is already modified"
                   % (callee(early), estr(early.kids[1]), own))
    return n


def length_guard(ctx, P, scope, rule="LENGTH-GUARD", tus=None):
    from sa.expr import strip, walk, estr
    ctx.rule(rule, "a block guarded by `<obj>-><field>_length > 0` (or != 0) handles <obj>-><field>: when the condition tests exactly "
                   "one length member and the guarded block touches members of the same object, the like-named data member is among "
                   "them (a guard copied from the sibling field writes or skips the wrong column)")
    n = 0
    for key in (tus or LIB_TUS):
        tu = P.tus[key]
        for fn in tu.funcs.values():
            if fn.body is None or not scope(key, fn.name):
                continue
            k = 0
            for x in walk(fn.body):
                if x.k != "IfStmt" or len(x.kids) < 2 or x.kids[1] is None:
                    continue
                mems = [m for m in walk(x.kids[0]) if m.k == "MemberExpr" and (m.name or "").endswith("_length")]
                c = strip(x.kids[0])
                if len(mems) != 1 or c is None or c.k != "BinaryOperator" or c.op not in (">", "!="):
                    continue
                m = mems[0]
                stem, owner = m.name[:-7], estr(m.kids[0])
                names = {y.name for y in walk(x.kids[1]) if y.k == "MemberExpr" and estr(y.kids[0]) == owner}
                if not names:
                    continue
                n += 1
                ctx.ob(rule, "%s@%d|%s" % (fn.name, k, m.name), stem in names, tu.loc(x),
                       "guarded block handles %s->%s" % (owner, stem) if stem in names else
                       "guard tests %s->%s but the block handles %s" % (owner, m.name, sorted(names)))
                k += 1
    return n


def py_find_index(ctx, py, mods, only=None, rule="PY-FIND-INDEX"):
    ctx.rule(rule, "the result of str.find / rfind / bytes.find is never used directly as a slice bound or subscript: -1 (not found) "
                   "would silently select everything but the last element")
    n = 0
    for mn in mods:
        m = py.mod(mn)
        for qn, fn in m.funcs.items():
            if only is not None and not only(mn, qn):
                continue
            bad = None
            seen = False
            for s in ast.walk(fn):
                if isinstance(s, ast.Call) and isinstance(s.func, ast.Attribute) and s.func.attr in ("find", "rfind"):
                    seen = True
                if isinstance(s, ast.Subscript):
                    for c in ast.walk(s.slice):
                        if isinstance(c, ast.Call) and isinstance(c.func, ast.Attribute) and c.func.attr in ("find", "rfind"):
                            bad = s
            if seen:
                n += 1
                ctx.ob(rule, "%s.%s" % (mn, qn), bad is None, m.loc(bad) if bad is not None else m.loc(fn),
                       "find() results are tested before use" if bad is None else "`%s` uses find() as a bound without testing for -1" % ast.unparse(bad)[:80])
    return n


def clear_domain(ctx, P, scope, rule="CLEAR-DOMAIN", tus=None):
    """memset over a struct-field array covers the domain the array was allocated for."""
    from sa.expr import strip, walk, estr, xstr, callee, calls, local_aliases
    from sa.guards import CountResolver
    ctx.rule(rule, "a whole-array reset `memset(obj->f, c, A * B * sizeof …)` ranges over the same domain as the allocation of obj->f: "
                   "each factor of the count denotes the same row count (resolved through locals, fields and parameters; an offset "
                   "such as +1 is immaterial) or is the same expression as a factor of the allocation count.  Resetting a per-node "
                   "accumulator over the number of focal nodes leaves the rest of it dirty for the next window")
    R = CountResolver(P)
    keys = [k for k in (tus or LIB_TUS)]

    def factors(node, fn, al):
        out = []

        def flat(n):
            n = strip(n)
            if n is not None and n.k == "BinaryOperator" and n.op == "*":
                flat(n.kids[0])
                flat(n.kids[1])
            elif n is not None and "sizeof" not in estr(n):
                out.append(n)
        flat(node)
        res = []
        for f in out:
            cls = R.classify(f, fn)
            if cls is not None:
                res.append("count(%s)" % cls[0])
            else:
                t = re.sub(r"\s+", "", xstr(f, al))
                t = re.sub(r"\((?:tsk_size_t|size_t|tsk_id_t)\)", "", t)
                res.append(re.sub(r"^\w+->", "", t))
        return sorted(res)
    allocs = {}
    for key in keys:
        tu = P.tus[key]
        for fn in tu.funcs.values():
            if fn.body is None:
                continue
            al = None
            for x in walk(fn.body):
                if x.k == "BinaryOperator" and x.op == "=":
                    l, r = strip(x.kids[0]), strip(x.kids[1])
                    if l is None or r is None or l.k != "MemberExpr" or r.k != "CallExpr":
                        continue
                    c = callee(r)
                    al = al or local_aliases(fn)
                    if c in ("tsk_malloc", "tsk_realloc", "malloc") and len(r.kids) >= 2:
                        allocs.setdefault((key, l.name), []).append(factors(r.kids[-1], fn, al))
                    elif c in ("tsk_calloc", "calloc") and len(r.kids) >= 3:
                        allocs.setdefault((key, l.name), []).append(factors(r.kids[1], fn, al))
    n = 0
    for key in keys:
        tu = P.tus[key]
        for fn in tu.funcs.values():
            if fn.body is None or not scope(key, fn.name):
                continue
            al = local_aliases(fn)
            k = 0
            for c in calls(fn.body):
                if callee(c) not in ("tsk_memset", "memset") or len(c.kids) < 4:
                    continue
                d = strip(c.kids[1])
                if d is None:
                    continue
                name = d.name if d.k == "MemberExpr" else None
                if name is None and d.k == "DeclRefExpr":
                    m = re.search(r"->(\w+)$", xstr(d, al))
                    name = m.group(1) if m else None
                if not name or (key, name) not in allocs:
                    continue
                got = factors(c.kids[3], fn, al)
                if not got:
                    continue
                n += 1
                ok = any(got == a for a in allocs[(key, name)])
                ctx.ob(rule, "%s|%s@%d" % (fn.name, name, k), ok, tu.loc(c),
                       "%s reset over %s, its allocation domain" % (name, " x ".join(got)) if ok else
                       "%s is reset over %s but allocated over %s" % (name, " x ".join(got), " / ".join(" x ".join(a) for a in allocs[(key, name)])))
                k += 1
    return n


def _py_closure(py, mods, only):
    """functions selected by `only` plus the functions of the same modules they (transitively) call, matched by name
    (`self.x()`, `obj.x()`, `x()`): an over-approximation of the call graph, used by the thorough tier only"""
    by_name = {}
    for mn in mods:
        for qn in py.mod(mn).funcs:
            by_name.setdefault(qn.split(".")[-1], []).append((mn, qn))
    seen = set()
    todo = [(mn, qn) for mn in mods for qn in py.mod(mn).funcs if only(mn, qn)]
    while todo:
        mn, qn = todo.pop()
        if (mn, qn) in seen:
            continue
        seen.add((mn, qn))
        fn = py.mod(mn).funcs[qn]
        for c in ast.walk(fn):
            if isinstance(c, ast.Call):
                nm = c.func.attr if isinstance(c.func, ast.Attribute) else c.func.id if isinstance(c.func, ast.Name) else None
                for tgt in by_name.get(nm, []):
                    if tgt not in seen:
                        todo.append(tgt)
    return lambda mn, qn: (mn, qn) in seen


def py_default_independent(ctx, py, mods, only=None, rule="PY-DEFAULT-INDEPENDENT"):
    from sa.pyfront import params_of
    ctx.rule(rule, "the value an option takes when it is left at None does not depend on another option that has a None-default of "
                   "its own in the same function: `if update_sample_flags is None: update_sample_flags = filter_nodes` silently "
                   "couples two documented, independent defaults")
    n = 0
    for mn in mods:
        m = py.mod(mn)
        for qn, fn in m.funcs.items():
            if only is not None and not only(mn, qn):
                continue
            a, k, _ = params_of(fn)
            ps = set(a + k) - {"self", "cls"}
            res = {}
            for x in ast.walk(fn):
                if isinstance(x, ast.If) and isinstance(x.test, ast.Compare) and len(x.test.ops) == 1 and isinstance(x.test.ops[0], ast.Is) \
                        and isinstance(x.test.left, ast.Name) and isinstance(x.test.comparators[0], ast.Constant) \
                        and x.test.comparators[0].value is None and x.test.left.id in ps:
                    v = x.test.left.id
                    for s in x.body:
                        if isinstance(s, ast.Assign) and len(s.targets) == 1 and isinstance(s.targets[0], ast.Name) and s.targets[0].id == v:
                            res[v] = s
            for v, s in sorted(res.items()):
                val = s.value
                if isinstance(val, ast.UnaryOp) and isinstance(val.op, ast.Not):
                    val = val.operand
                deps = ({val.id} if isinstance(val, ast.Name) else set()) & (set(res) - {v})     # a bare copy of a sibling option
                n += 1
                ctx.ob(rule, "%s.%s|%s" % (mn, qn, v), not deps, m.loc(s),
                       "default of %s: %s" % (v, ast.unparse(s.value)[:50]) if not deps else
                       "the default of `%s` is taken from `%s`, another option with its own default" % (v, sorted(deps)[0]))
    return n


_PARITY_BUILTINS = {"range", "len", "enumerate", "zip", "int", "float", "list", "tuple", "np.arange", "np.zeros", "np.empty", "np.array", "isinstance"}


def py_windows_parity(ctx, py, funcs, rule="PY-WINDOWS-PARITY"):
    """funcs: [(module, qualname)] whose `if windows is None: … else: …` applies one post-processing to one or to each window."""
    ctx.rule(rule, "where a statistic is post-processed once when `windows is None` and once per window otherwise, the two branches "
                   "call the same set of functions (loop scaffolding aside): a correction applied in one branch only makes a single "
                   "window [0, L] differ from the unwindowed result")
    n = 0

    def cnames(stmts):
        out = set()
        for s in stmts:
            for c in ast.walk(s):
                if isinstance(c, ast.Call):
                    nm = ast.unparse(c.func)
                    if nm not in _PARITY_BUILTINS:
                        out.add(nm)
        return out
    for mn, qn in funcs:
        m = py.mod(mn)
        fn = py.func(mn, qn)
        found = False
        for x in ast.walk(fn):
            if isinstance(x, ast.If) and x.orelse and isinstance(x.test, ast.Compare) and isinstance(x.test.left, ast.Name) \
                    and x.test.left.id == "windows" and isinstance(x.test.ops[0], (ast.Is, ast.IsNot)):
                a, b = cnames(x.body), cnames(x.orelse)
                found = True
                n += 1
                ctx.ob(rule, "%s.%s" % (mn, qn), a == b, m.loc(x),
                       "both branches call %s" % sorted(a) if a == b else
                       "only the %s branch calls %s" % ("`windows is None`" if (a - b) else "windowed", sorted((a - b) or (b - a))))
        if not found:
            ctx.ob(rule, "%s.%s" % (mn, qn), False, m.loc(fn), "no `if windows is None: … else: …` found")
    return n


def py_unknown_time(ctx, py, rule="PY-UNKNOWN-TIME"):
    ctx.rule(rule, "the UNKNOWN_TIME sentinel is substituted only for an absent value: every conditional in tables.py / trees.py that "
                   "yields UNKNOWN_TIME tests `<x> is None` (or the text-format marker), never np.isnan / math.isnan – a genuine NaN "
                   "is a different bit pattern and must reach the table (and be rejected by the integrity check) unchanged")
    n = 0
    for mn in ("tables", "trees"):
        m = py.mod(mn)
        for qn, fn in m.funcs.items():
            pm = {}
            for x in ast.walk(fn):
                for c in ast.iter_child_nodes(x):
                    pm[c] = x
            for x in ast.walk(fn):
                if isinstance(x, (ast.Name, ast.Attribute)) and ast.unparse(x).endswith("UNKNOWN_TIME") and isinstance(getattr(x, "ctx", None), ast.Load):
                    # the governing test: enclosing IfExp (body side) or If
                    p, child, test = pm.get(x), x, None
                    while p is not None and p is not fn:
                        if isinstance(p, ast.IfExp) and (child is p.body or child is p.orelse):
                            test = p.test
                            break
                        if isinstance(p, ast.If) and child in p.body:
                            test = p.test
                            break
                        child, p = p, pm.get(p)
                    if test is None:
                        continue
                    n += 1
                    t = ast.unparse(test)
                    bad = "isnan" in t
                    ctx.ob(rule, "%s.%s|%s" % (mn, qn, t[:40]), not bad, m.loc(x),
                           "UNKNOWN_TIME substituted under `%s`" % t[:60] if not bad else
                           "UNKNOWN_TIME is substituted under `%s`: a NaN time is silently turned into the 'unknown' sentinel" % t[:60])
    # the text marker: `"unknown" if <test> else <value>` must test THAT value with is_unknown_time
    for mn in ("text_formats", "trees"):
        m = py.mod(mn)
        for qn, fn in m.funcs.items():
            for x in ast.walk(fn):
                if isinstance(x, ast.IfExp) and isinstance(x.body, ast.Constant) and x.body.value == "unknown":
                    t, v = x.test, ast.unparse(x.orelse)
                    ok = isinstance(t, ast.Call) and ast.unparse(t.func).endswith("is_unknown_time") and len(t.args) == 1 and ast.unparse(t.args[0]) == v
                    n += 1
                    ctx.ob(rule, "%s.%s|marker" % (mn, qn), ok, m.loc(x),
                           "the 'unknown' marker is chosen by is_unknown_time(%s), the value it replaces" % v if ok else
                           "the 'unknown' marker replaces `%s` under `%s`, which does not test that value" % (v, ast.unparse(t)[:50]))
    return n


def py_tokenise_siblings(ctx, py, rule="PY-TEXT-TOKENS"):
    ctx.rule(rule, "all text parsers (parse_individuals, parse_nodes, parse_edges, parse_sites, parse_mutations, parse_populations, "
                   "parse_migrations) split a line the same way: `line.rstrip('\\\\n').split(sep)` – stripping only the newline, so a "
                   "trailing empty field (an empty derived_state, an empty metadata column) survives")
    m = py.mod("trees")
    forms = {}
    for qn, fn in m.funcs.items():
        if not qn.startswith("parse_"):
            continue
        for x in ast.walk(fn):
            if isinstance(x, ast.Assign) and len(x.targets) == 1 and isinstance(x.targets[0], ast.Name) and x.targets[0].id == "tokens":
                forms[qn] = (ast.unparse(x.value), x)
    from collections import Counter
    ctx.need(len(forms) >= 5, "tokens = … assignments in the parse_* functions")
    common = Counter(v for v, _ in forms.values()).most_common(1)[0][0]
    for qn, (v, x) in sorted(forms.items()):
        ok = v == common and "rstrip('\\n')" in v
        ctx.ob(rule, qn, ok, m.loc(x), "tokens = %s" % v if ok else "tokens = %s differs from its siblings' `%s`" % (v, common))
    # a row is present when the line has fields, whatever they contain; and a field's items reach the table as written
    for qn, fn in sorted(m.funcs.items()):
        if not qn.startswith("parse_"):
            continue
        tokvars = {"tokens"}
        for x in ast.walk(fn):
            if isinstance(x, ast.Call) and ast.unparse(x.func) in ("any", "all", "bool") and x.args and isinstance(x.args[0], ast.Name) \
                    and x.args[0].id in tokvars:
                ctx.ob(rule, "%s|row-presence" % qn, False, m.loc(x), "`%s` decides the presence of a row by the truthiness of its fields: a row whose "
                       "only field is the empty string (empty metadata) is dropped" % ast.unparse(x))
            if isinstance(x, ast.If) and isinstance(x.test, ast.Name) and x.test.id in tokvars:
                pass    # `if tokens:` is len(tokens) > 0
            if isinstance(x, ast.Call) and ast.unparse(x.func).split(".")[-1] in ("set", "frozenset", "unique", "fromkeys") \
                    and any(isinstance(y, ast.Name) and y.id in tokvars for a in x.args for y in ast.walk(a)):
                ctx.ob(rule, "%s|verbatim" % qn, False, m.loc(x), "`%s` removes repeated items of a parsed field: a duplicate in the text "
                       "(which the table checks would reject) never reaches the table" % ast.unparse(x)[:60])
        ctx.ob(rule, "%s|fields" % qn, True, m.loc(fn), "parsed fields analysed for row-presence and verbatim forwarding")
    return len(forms)
