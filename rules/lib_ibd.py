"""C19 rules over the IBD finder / identity segments container in tables.c."""
from __future__ import annotations

import re

from sa.cfg import CFG
from sa.cfront import LIB_TUS
from sa.expr import strip, walk, callee, estr, xstr, is_assign, calls
from sa.schema import Facts


def _node_of(cfg, ast):
    for n in cfg.nodes:
        if n.ast is None or n.kind == "join":
            continue
        for x in walk(n.ast):
            if x is ast:
                return n
    return None


def counters(ctx, P, rule="IBD-COUNTERS"):
    ctx.rule(rule, "the IBD aggregates equal the aggregates of the recorded segments by construction: num_segments / total_span are "
                   "written only in add_segment (global) and update_pair (per pair), each increment is paired with `+= right - left` "
                   "in the same function, add_segment is called only under tsk_ibd_finder_passes_filters with the same (a, b, left, "
                   "right), the filter rejects a == b and spans <= min_span (strict 'greater than'), and compares sample-set ids "
                   "only when finding between sets")
    tu = P.tus["tables"]
    writers = {}
    for fn in tu.funcs.values():
        F = None
        for x in walk(fn.body):
            tgt = None
            if x.k == "UnaryOperator" and x.op in ("++", "--"):
                tgt = estr(x.kids[0])
            elif x.k == "CompoundAssignOperator" or is_assign(x):
                tgt = estr(x.kids[0])
            if tgt and re.search(r"(->|\.)(num_segments|total_span)$", tgt):
                owner_ty = strip(x.kids[0]).kids[0].ty if strip(x.kids[0]).k == "MemberExpr" else ""
                if "identity_segment" in (owner_ty or ""):
                    writers.setdefault(fn.name, []).append((tgt, x))
    allowed = {"tsk_identity_segments_add_segment", "tsk_identity_segments_update_pair", "tsk_identity_segments_init",
               "tsk_identity_segments_alloc_new_pair"}
    for f, ws in sorted(writers.items()):
        ctx.ob(rule, "writer|%s" % f, f in allowed, tu.loc(ws[0][1]), "%s writes %s" % (f, sorted({t for t, _ in ws})))
    for f, obj in (("tsk_identity_segments_add_segment", "self"), ("tsk_identity_segments_update_pair", "list")):
        fn = P.need(f, "tables")
        F = Facts(P, fn)
        inc = [x for x in walk(fn.body) if x.k == "UnaryOperator" and x.op == "++" and estr(x.kids[0]) == "%s->num_segments" % obj]
        span = [(estr(x.kids[0]), x.op, estr(x.kids[1])) for x in walk(fn.body)
                if x.k in ("CompoundAssignOperator", "BinaryOperator") and x.op in ("+=", "=", "-=") and estr(x.kids[0]) == "%s->total_span" % obj]
        ctx.ob(rule, "%s|count" % f, len(inc) == 1, tu.loc(fn.node), "%s->num_segments++ exactly once" % obj)
        ctx.ob(rule, "%s|span" % f, span == [("%s->total_span" % obj, "+=", "(right - left)")], tu.loc(fn.node),
               "%s->total_span += right - left (found %s)" % (obj, span))
    fn = P.need("tsk_identity_segments_add_segment", "tables")
    F = Facts(P, fn)
    up = F.calls_to("tsk_identity_segments_update_pair")
    ok = len(up) == 1 and up[0][0] == ["self", "a", "b", "left", "right", "node"] and \
        [xstr(i.kids[0], F.al) for i, br in F.enclosing_ifs(up[0][1])] == ["self->store_pairs"]
    ctx.ob(rule, "add_segment|update_pair", ok, tu.loc(fn.node), "per-pair update iff store_pairs, with the same segment")
    fn = P.need("tsk_identity_segments_update_pair", "tables")
    F = Facts(P, fn)
    al = F.calls_to("tsk_identity_segments_alloc_segment")
    ok = len(al) == 1 and al[0][0] == ["self", "left", "right", "node"] and \
        [xstr(i.kids[0], F.al) for i, br in F.enclosing_ifs(al[0][1])] == ["self->store_segments"]
    ctx.ob(rule, "update_pair|store_segments", ok, tu.loc(fn.node), "segment stored iff store_segments, with (left, right, node)")
    # callers of add_segment
    for g in tu.funcs.values():
        for c in calls(g.body):
            if callee(c) == "tsk_identity_segments_add_segment":
                Fg = Facts(P, g)
                conds = [i for i, br in Fg.enclosing_ifs(c)]
                flt = [x for i in conds for x in walk(i.kids[0]) if x.k == "CallExpr" and callee(x) == "tsk_ibd_finder_passes_filters"]
                a = [estr(y) for y in c.kids[1:]]
                ok = bool(flt)
                why = "add_segment(%s)" % ", ".join(a)
                if ok:
                    fa = [estr(y) for y in flt[0].kids[1:]]
                    ok = fa[1:5] == a[1:5]
                    why += " under passes_filters(%s)" % ", ".join(fa)
                ctx.ob(rule, "caller|%s" % g.name, ok, tu.loc(c), why)
    fn = P.need("tsk_ibd_finder_passes_filters", "tables")
    conds = [xstr(x.kids[0]) for x in walk(fn.body) if x.k == "IfStmt"]
    ctx.ob(rule, "filter|same-node", "(a == b)" in conds, tu.loc(fn.node), "a == b rejected")
    ctx.ob(rule, "filter|min_span", "((right - left) <= self->min_span)" in conds, tu.loc(fn.node), "spans <= min_span rejected (strictly greater kept); found %s" % conds)
    ctx.ob(rule, "filter|between", "self->finding_between" in conds and "(self->sample_set_id[a] != self->sample_set_id[b])" in P.tus["tables"].src(fn.body).replace("\n", " ")
           or "self->sample_set_id[a] != self->sample_set_id[b]" in " ".join(P.tus["tables"].src(fn.body).split()), tu.loc(fn.node),
           "between-sets mode keeps only pairs from different sets")
    # the pre-filter of enqueue_segment and the final filter use the same span expression (so that rounding cannot make them disagree)
    enq = P.need("tsk_ibd_finder_enqueue_segment", "tables")
    ec = [xstr(x.kids[0]) for x in walk(enq.body) if x.k == "IfStmt" and "min_span" in estr(x.kids[0])]
    ctx.ob(rule, "enqueue|min_span", ec == ["((right - left) > self->min_span)"], tu.loc(enq.node),
           "ancestry shorter than min_span is not queued: %s (the complement of the final filter `(right - left) <= min_span`)" % ec)
    # max_time filter in run
    run = P.need("tsk_ibd_finder_run", "tables")
    src = " ".join(tu.src(run.body).split())
    ctx.ob(rule, "run|max_time", re.search(r">\s*self->max_time|self->max_time\s*<[^=]", src) is not None, tu.loc(run.node),
           "ancestors older than max_time are not processed")


def ancestry_append(ctx, P, rule="IBD-ANCESTRY"):
    ctx.rule(rule, "tsk_ibd_finder_add_ancestry records every ancestry piece as its own segment: every path to its success return "
                   "passes tsk_ibd_finder_alloc_segment(self, left, right, output_id) and links the new segment at the tail; no "
                   "existing segment's bounds are modified (merging pieces that arrived through different children would lose "
                   "the split points of the IBD intervals)")
    tu = P.tus["tables"]
    fn = P.need("tsk_ibd_finder_add_ancestry", "tables")
    F = Facts(P, fn)
    cfg = CFG(fn)
    al = F.calls_to("tsk_ibd_finder_alloc_segment")
    ok = len(al) == 1 and al[0][0] == ["self", "left", "right", "output_id"]
    ctx.ob(rule, "alloc|args", ok, tu.loc(fn.node), "alloc_segment(self, left, right, output_id)")
    if al:
        an = _node_of(cfg, al[0][1])
        errn = {n for n in cfg.nodes if n.kind == "stmt" and n.ast is not None and is_assign(n.ast) and "TSK_ERR_" in tu.src(n.ast.kids[1])}
        bypass = cfg.path_exists(cfg.entry, cfg.exit, avoid={an} | errn)
        ctx.ob(rule, "alloc|every-path", not bypass, tu.loc(al[0][1]), "no path returns successfully without allocating a new segment")
    mods = [(l, r) for l, o, r, n in F.assigns if re.search(r"->(left|right)$", l)]
    ctx.ob(rule, "no-inplace-extension", not mods, tu.loc(fn.node), "no existing segment bound is rewritten" if not mods else "existing segment modified: %s" % mods)


def widening(ctx, P, rule="WIDEN-FIRST", tus=None):
    ctx.rule(rule, "a 64-bit key or size is never computed in 32-bit arithmetic and widened afterwards: a cast to a 64-bit integer "
                   "type is not applied to a multiplication/addition whose own type is 32-bit (pair_to_integer multiplies after "
                   "widening, so distinct pairs get distinct keys for any node count)")
    n = 0
    for key in (tus or LIB_TUS):
        tu = P.tus[key]
        for fn in tu.funcs.values():
            k = 0
            for x in walk(fn.body):
                if x.k != "CStyleCastExpr":
                    continue
                tgt = (x.dty or x.ty or "")
                if tgt not in ("long", "unsigned long", "long long", "unsigned long long"):
                    continue
                inner = x.kids[-1]
                while inner is not None and inner.k in ("ParenExpr", "ImplicitCastExpr"):
                    inner = inner.kids[-1] if inner.kids else None
                if inner is None or inner.k != "BinaryOperator" or inner.op not in ("*", "+", "<<"):
                    continue
                ity = (inner.dty or inner.ty or "")
                if ity in ("int", "unsigned int", "short", "unsigned short"):
                    # constant expressions cannot overflow in practice
                    from sa.expr import const_int
                    if const_int(inner) is not None:
                        continue
                    n += 1
                    ctx.ob(rule, "%s@%d" % (fn.name, k), False, tu.loc(x),
                           "`%s` is evaluated in %s and only then widened to %s: the product wraps before the cast" % (estr(inner), ity, x.ty))
                    k += 1
    fn = P.need("pair_to_integer", "tables")
    tu = P.tus["tables"]
    mul = [x for x in walk(fn.body) if x.k == "BinaryOperator" and x.op == "*"]
    ok = bool(mul) and all((m.dty or m.ty) in ("long", "int64_t", "long long") for m in mul)
    ctx.ob(rule, "pair_to_integer|wide-multiply", ok, tu.loc(fn.node), "a * N evaluated in 64-bit (type %s)" % [(m.ty) for m in mul])
    return n


def early_exits(F, loop, tu):
    """[(stmt, [enclosing if-conditions inside the loop])] for every break / continue / goto / return in the loop body
    (breaks of nested loops / switches are attributed to the nested statement, not to `loop`)."""
    out = []
    body = loop.kids[-1] if loop.k != "DoStmt" else loop.kids[0]

    def rec(n, depth_loops):
        if n is None:
            return
        if n.k in ("ForStmt", "WhileStmt", "DoStmt", "SwitchStmt"):
            for c in n.kids:
                rec(c, depth_loops + 1)
            return
        if n.k in ("GotoStmt", "ReturnStmt") or (n.k in ("BreakStmt", "ContinueStmt") and depth_loops == 0):
            conds = [estr(i.kids[0]) for i, br in F.enclosing_ifs(n) if i.b >= loop.b]
            out.append((n, conds))
        for c in n.kids:
            rec(c, depth_loops)
    rec(body, 0)
    return out


def finder_run(ctx, P, rule="IBD-RUN"):
    ctx.rule(rule, "the IBD finder's sweep: per edge (in table order, stopping only at `time > max_time`) every ancestry segment of "
                   "the child is clipped to the edge (max of lefts, min of rights) and queued, tsk_ibd_finder_record_ibd(parent) "
                   "runs before tsk_ibd_finder_add_queued_ancestry(parent); record_ibd pairs EVERY segment already on the parent "
                   "with EVERY queued segment (no early exit from either loop other than the error exit: the queue is in "
                   "child-ancestry order, not coordinate order), intersects them with max/min and hands the same (node, node, left, "
                   "right) to the filter and to add_segment; add_queued_ancestry forwards every queued segment and empties the queue")
    tu = P.tus["tables"]
    ERR = re.compile(r"^\(?ret\w* (!=|<) 0\)?$")
    # --- run
    run = P.need("tsk_ibd_finder_run", "tables")
    F = Facts(P, run)
    loops = [x for x in walk(run.body) if x.k == "ForStmt"]
    ctx.need(len(loops) >= 2, "tsk_ibd_finder_run: edge loop and child-ancestry loop")
    outer = loops[0]
    ex = [(n, c) for n, c in early_exits(F, outer, tu)]
    bad = [(n, c) for n, c in ex if not (c and all(ERR.match(t) for t in c[:1])) and not (n.k == "BreakStmt" and c and re.search(r"> self->max_time|self->max_time <[^=]", c[0]))]
    ctx.ob(rule, "run|exits", not bad, tu.loc(bad[0][0]) if bad else tu.loc(run.node),
           "edge loop left early only on error or time > max_time" if not bad else "edge loop left early under %s" % (bad[0][1] or "no condition"))
    order = []
    for c in calls(outer.kids[-1]):
        nm = callee(c)
        if nm in ("tsk_ibd_finder_enqueue_segment", "tsk_ibd_finder_record_ibd", "tsk_ibd_finder_add_queued_ancestry"):
            order.append((c.b, nm, c))
    order.sort()
    names = [o[1] for o in order]
    ctx.ob(rule, "run|order", names == ["tsk_ibd_finder_enqueue_segment", "tsk_ibd_finder_record_ibd", "tsk_ibd_finder_add_queued_ancestry"],
           tu.loc(run.node), "per edge: %s" % " -> ".join(names))
    for b, nm, c in order:
        a = [estr(y) for y in c.kids[1:]]
        if nm != "tsk_ibd_finder_enqueue_segment":
            ctx.ob(rule, "run|%s|arg" % nm, a == ["self", "parent"], tu.loc(c), "%s(%s)" % (nm, ", ".join(a)))
            conds = [estr(i.kids[0]) for i, br in F.enclosing_ifs(c) if i.b >= outer.b]
            ctx.ob(rule, "run|%s|unconditional" % nm, not conds, tu.loc(c), "runs for every edge" if not conds else "runs only under %s" % conds)
    _clip(ctx, rule, tu, F, run, "run", r"\bleft\b", r"\bright\b")
    # --- record_ibd
    rec = P.need("tsk_ibd_finder_record_ibd", "tables")
    F = Facts(P, rec)
    loops = [x for x in walk(rec.body) if x.k == "ForStmt"]
    ctx.need(len(loops) == 2, "tsk_ibd_finder_record_ibd: two nested loops")
    for i, lp in enumerate(loops):
        ex = early_exits(F, lp, tu)
        bad = [(n, c) for n, c in ex if not (c and ERR.match(c[0]))]
        ctx.ob(rule, "record_ibd|loop%d|exhaustive" % i, not bad, tu.loc(bad[0][0]) if bad else tu.loc(lp),
               "no early exit other than the error exit" if not bad else
               "loop over %s is left early under `%s`: later segments are never paired" % ("the parent's segments" if i == 0 else "the queue", (bad[0][1] or ["no condition"])[0]))
    h0 = estr(loops[0].kids[0]) if loops[0].kids[0] is not None else ""
    ctx.ob(rule, "record_ibd|outer", "ancestor_map_head[parent]" in h0 and "->next" in estr(loops[0].kids[3]), tu.loc(loops[0]),
           "outer loop walks ancestor_map_head[parent] by ->next")
    c1 = estr(loops[1].kids[2]) if loops[1].kids[2] is not None else ""
    i1 = estr(loops[1].kids[0]) if loops[1].kids[0] is not None else ""
    ctx.ob(rule, "record_ibd|inner", re.search(r"< self->segment_queue_size\)?$", c1) is not None and re.search(r"= 0\)?$", i1) is not None,
           tu.loc(loops[1]), "inner loop covers segment_queue[0 .. segment_queue_size): `%s; %s`" % (i1, c1))
    _clip(ctx, rule, tu, F, rec, "record_ibd", r"seg0->left", r"seg0->right")
    # --- add_queued_ancestry
    q = P.need("tsk_ibd_finder_add_queued_ancestry", "tables")
    F = Facts(P, q)
    loops = [x for x in walk(q.body) if x.k == "ForStmt"]
    ctx.need(len(loops) == 1, "tsk_ibd_finder_add_queued_ancestry: one loop")
    bad = [(n, c) for n, c in early_exits(F, loops[0], tu) if not (c and ERR.match(c[0]))]
    ctx.ob(rule, "add_queued|exhaustive", not bad, tu.loc(loops[0]), "every queued segment is forwarded")
    reset = [n for l, o, r, n in F.assigns if l == "self->segment_queue_size" and o == "=" and r == "0"]
    ctx.ob(rule, "add_queued|reset", bool(reset) and all(n.b > loops[0].e for n in reset), tu.loc(q.node),
           "segment_queue_size = 0 after the loop")
    aa = F.calls_to("tsk_ibd_finder_add_ancestry")
    ok = len(aa) == 1 and aa[0][0][:2] == ["self", "parent"] and [re.sub(r"^\w+(\.|->)", "", t) for t in aa[0][0][2:]] == ["left", "right", "node"]
    ctx.ob(rule, "add_queued|args", ok, tu.loc(q.node), "add_ancestry(self, parent, seg.left, seg.right, seg.node): %s" % (aa[0][0] if aa else None))


def _clip(ctx, rule, tu, F, fn, tag, left_pat, right_pat):
    """the intersection is max(lefts), min(rights) of the two segments"""
    mx = [(l, r, n) for l, o, r, n in F.assigns if o == "=" and re.search(r"TSK_MAX|\? .* : ", r) and re.search(r"left|_l$", l)]
    mn = [(l, r, n) for l, o, r, n in F.assigns if o == "=" and re.search(r"TSK_MIN|\? .* : ", r) and re.search(r"right|_r$", l)]
    src = {id(n): " ".join(tu.src(n).split()) for _, _, n in mx + mn}
    okl = len(mx) == 1 and re.search(r"TSK_MAX\(", src[id(mx[0][2])]) and re.search(left_pat, src[id(mx[0][2])]) and \
        len(re.findall(r"left", src[id(mx[0][2])].split("=", 1)[1])) == 2 and "right" not in src[id(mx[0][2])].split("=", 1)[1]
    okr = len(mn) == 1 and re.search(r"TSK_MIN\(", src[id(mn[0][2])]) and re.search(right_pat, src[id(mn[0][2])]) and \
        len(re.findall(r"right", src[id(mn[0][2])].split("=", 1)[1])) == 2 and "left" not in src[id(mn[0][2])].split("=", 1)[1]
    # each intersection is computed afresh from the two segments: the result must not be one of its own operands (clipping the
    # edge's own `left` / `right` in the loop narrows the edge cumulatively across the child's segments)
    for lst in (mx, mn):
        for l, r, nd in lst:
            ops = [t.strip() for t in re.sub(r"^.*?TSK_M(AX|IN)\(", "", src[id(nd)]).rstrip(") ;").split(",")]
            ctx.ob(rule, "%s|clip-fresh|%s" % (tag, l), l not in ops, tu.loc(nd),
                   "`%s` is a fresh value per pair of segments" % l if l not in ops else
                   "`%s` overwrites one of its own operands inside the loop: the interval shrinks cumulatively" % src[id(nd)])
    ctx.ob(rule, "%s|clip-left" % tag, bool(okl), tu.loc(mx[0][2]) if mx else tu.loc(fn.node),
           "left end of the intersection = TSK_MAX of the two lefts: %s" % (src[id(mx[0][2])] if mx else "not found"))
    ctx.ob(rule, "%s|clip-right" % tag, bool(okr), tu.loc(mn[0][2]) if mn else tu.loc(fn.node),
           "right end of the intersection = TSK_MIN of the two rights: %s" % (src[id(mn[0][2])] if mn else "not found"))


def pair_keys(ctx, P, rule="IBD-KEY"):
    ctx.rule(rule, "the key of a sample pair does not depend on the order in which the two ids are given: either pair_to_integer "
                   "itself orders its arguments (`if (a > b) swap`), or EVERY call site passes (TSK_MIN(a, b), TSK_MAX(a, b)) – the "
                   "store path (update_pair) and the lookup path (get_key) included")
    tu = P.tus["tables"]
    fn = P.need("pair_to_integer", "tables")
    swaps = [x for x in walk(fn.body) if x.k == "IfStmt" and re.fullmatch(r"\(?\w+ > \w+\)?", estr(x.kids[0]))
             and sum(1 for y in walk(x.kids[1]) if is_assign(y)) >= 2]
    sites = []
    for g in tu.funcs.values():
        for c in calls(g.body):
            if callee(c) == "pair_to_integer":
                sites.append((g, c))
    for must in ("tsk_identity_segments_update_pair", "tsk_identity_segments_get_key"):
        has = any(g.name == must for g, c in sites)
        ctx.ob(rule, "uses-key-function|%s" % must, has, tu.loc(P.need(must, "tables").node),
               "%s derives the key with pair_to_integer" % must if has else
               "%s computes the pair key by hand instead of calling pair_to_integer: the ordering of the pair is not applied" % must)
    if len(sites) < 2:
        return
    if swaps:
        ctx.ob(rule, "normalised-in-callee", True, tu.loc(swaps[0]), "pair_to_integer swaps its arguments when a > b")
        for g, c in sites:
            ctx.ob(rule, "site|%s" % g.name, True, tu.loc(c), "callee orders the pair")
        return
    for g, c in sites:
        a = [" ".join(tu.src(x).split()) for x in c.kids[1:3]]
        ok = a[0].startswith("TSK_MIN(") and a[1].startswith("TSK_MAX(") and a[0][8:] == a[1][8:]
        ctx.ob(rule, "site|%s" % g.name, ok, tu.loc(c),
               "passes (%s, %s)" % (a[0], a[1]) if ok else
               "pair_to_integer no longer orders its arguments and %s passes (%s, %s) as given: a pair asked for in the other order gets a different key" % (g.name, a[0], a[1]))
