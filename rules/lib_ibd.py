"""C19 rules over the IBD finder / identity segments container in tables.c."""
from __future__ import annotations

import re

from sa.cfg import CFG
from sa.cfront import LIB_TUS
from sa.expr import strip, walk, callee, estr, xstr, is_assign, calls
from sa.schema import Facts


def _node_of(cfg, ast):
    for n in cfg.nodes:
        if n.ast is None or n.kind == "join":
            continue
        for x in walk(n.ast):
            if x is ast:
                return n
    return None


def counters(ctx, P, rule="IBD-COUNTERS"):
    ctx.rule(rule, "the IBD aggregates equal the aggregates of the recorded segments by construction: num_segments / total_span are "
                   "written only in add_segment (global) and update_pair (per pair), each increment is paired with `+= right - left` "
                   "in the same function, add_segment is called only under tsk_ibd_finder_passes_filters with the same (a, b, left, "
                   "right), the filter rejects a == b and spans <= min_span (strict 'greater than'), and compares sample-set ids "
                   "only when finding between sets")
    tu = P.tus["tables"]
    writers = {}
    for fn in tu.funcs.values():
        F = None
        for x in walk(fn.body):
            tgt = None
            if x.k == "UnaryOperator" and x.op in ("++", "--"):
                tgt = estr(x.kids[0])
            elif x.k == "CompoundAssignOperator" or is_assign(x):
                tgt = estr(x.kids[0])
            if tgt and re.search(r"(->|\.)(num_segments|total_span)$", tgt):
                owner_ty = strip(x.kids[0]).kids[0].ty if strip(x.kids[0]).k == "MemberExpr" else ""
                if "identity_segment" in (owner_ty or ""):
                    writers.setdefault(fn.name, []).append((tgt, x))
    allowed = {"tsk_identity_segments_add_segment", "tsk_identity_segments_update_pair", "tsk_identity_segments_init",
               "tsk_identity_segments_alloc_new_pair"}
    for f, ws in sorted(writers.items()):
        ctx.ob(rule, "writer|%s" % f, f in allowed, tu.loc(ws[0][1]), "%s writes %s" % (f, sorted({t for t, _ in ws})))
    for f, obj in (("tsk_identity_segments_add_segment", "self"), ("tsk_identity_segments_update_pair", "list")):
        fn = P.need(f, "tables")
        F = Facts(P, fn)
        inc = [x for x in walk(fn.body) if x.k == "UnaryOperator" and x.op == "++" and estr(x.kids[0]) == "%s->num_segments" % obj]
        span = [(estr(x.kids[0]), x.op, estr(x.kids[1])) for x in walk(fn.body)
                if x.k in ("CompoundAssignOperator", "BinaryOperator") and x.op in ("+=", "=", "-=") and estr(x.kids[0]) == "%s->total_span" % obj]
        ctx.ob(rule, "%s|count" % f, len(inc) == 1, tu.loc(fn.node), "%s->num_segments++ exactly once" % obj)
        ctx.ob(rule, "%s|span" % f, span == [("%s->total_span" % obj, "+=", "(right - left)")], tu.loc(fn.node),
               "%s->total_span += right - left (found %s)" % (obj, span))
    fn = P.need("tsk_identity_segments_add_segment", "tables")
    F = Facts(P, fn)
    up = F.calls_to("tsk_identity_segments_update_pair")
    ok = len(up) == 1 and up[0][0] == ["self", "a", "b", "left", "right", "node"] and \
        [xstr(i.kids[0], F.al) for i, br in F.enclosing_ifs(up[0][1])] == ["self->store_pairs"]
    ctx.ob(rule, "add_segment|update_pair", ok, tu.loc(fn.node), "per-pair update iff store_pairs, with the same segment")
    fn = P.need("tsk_identity_segments_update_pair", "tables")
    F = Facts(P, fn)
    al = F.calls_to("tsk_identity_segments_alloc_segment")
    ok = len(al) == 1 and al[0][0] == ["self", "left", "right", "node"] and \
        [xstr(i.kids[0], F.al) for i, br in F.enclosing_ifs(al[0][1])] == ["self->store_segments"]
    ctx.ob(rule, "update_pair|store_segments", ok, tu.loc(fn.node), "segment stored iff store_segments, with (left, right, node)")
    # callers of add_segment
    for g in tu.funcs.values():
        for c in calls(g.body):
            if callee(c) == "tsk_identity_segments_add_segment":
                Fg = Facts(P, g)
                conds = [i for i, br in Fg.enclosing_ifs(c)]
                flt = [x for i in conds for x in walk(i.kids[0]) if x.k == "CallExpr" and callee(x) == "tsk_ibd_finder_passes_filters"]
                a = [estr(y) for y in c.kids[1:]]
                ok = bool(flt)
                why = "add_segment(%s)" % ", ".join(a)
                if ok:
                    fa = [estr(y) for y in flt[0].kids[1:]]
                    ok = fa[1:5] == a[1:5]
                    why += " under passes_filters(%s)" % ", ".join(fa)
                ctx.ob(rule, "caller|%s" % g.name, ok, tu.loc(c), why)
    fn = P.need("tsk_ibd_finder_passes_filters", "tables")
    conds = [xstr(x.kids[0]) for x in walk(fn.body) if x.k == "IfStmt"]
    ctx.ob(rule, "filter|same-node", "(a == b)" in conds, tu.loc(fn.node), "a == b rejected")
    ctx.ob(rule, "filter|min_span", "((right - left) <= self->min_span)" in conds, tu.loc(fn.node), "spans <= min_span rejected (strictly greater kept); found %s" % conds)
    ctx.ob(rule, "filter|between", "self->finding_between" in conds and "(self->sample_set_id[a] != self->sample_set_id[b])" in P.tus["tables"].src(fn.body).replace("\n", " ")
           or "self->sample_set_id[a] != self->sample_set_id[b]" in " ".join(P.tus["tables"].src(fn.body).split()), tu.loc(fn.node),
           "between-sets mode keeps only pairs from different sets")
    # max_time filter in run
    run = P.need("tsk_ibd_finder_run", "tables")
    src = " ".join(tu.src(run.body).split())
    ctx.ob(rule, "run|max_time", re.search(r"time\s*>\s*self->max_time|>\s*self->max_time", src) is not None, tu.loc(run.node),
           "ancestors older than max_time are not processed")


def ancestry_append(ctx, P, rule="IBD-ANCESTRY"):
    ctx.rule(rule, "tsk_ibd_finder_add_ancestry records every ancestry piece as its own segment: every path to its success return "
                   "passes tsk_ibd_finder_alloc_segment(self, left, right, output_id) and links the new segment at the tail; no "
                   "existing segment's bounds are modified (merging pieces that arrived through different children would lose "
                   "the split points of the IBD intervals)")
    tu = P.tus["tables"]
    fn = P.need("tsk_ibd_finder_add_ancestry", "tables")
    F = Facts(P, fn)
    cfg = CFG(fn)
    al = F.calls_to("tsk_ibd_finder_alloc_segment")
    ok = len(al) == 1 and al[0][0] == ["self", "left", "right", "output_id"]
    ctx.ob(rule, "alloc|args", ok, tu.loc(fn.node), "alloc_segment(self, left, right, output_id)")
    if al:
        an = _node_of(cfg, al[0][1])
        errn = {n for n in cfg.nodes if n.kind == "stmt" and n.ast is not None and is_assign(n.ast) and "TSK_ERR_" in tu.src(n.ast.kids[1])}
        bypass = cfg.path_exists(cfg.entry, cfg.exit, avoid={an} | errn)
        ctx.ob(rule, "alloc|every-path", not bypass, tu.loc(al[0][1]), "no path returns successfully without allocating a new segment")
    mods = [(l, r) for l, o, r, n in F.assigns if re.search(r"->(left|right)$", l)]
    ctx.ob(rule, "no-inplace-extension", not mods, tu.loc(fn.node), "no existing segment bound is rewritten" if not mods else "existing segment modified: %s" % mods)


def widening(ctx, P, rule="WIDEN-FIRST", tus=None):
    ctx.rule(rule, "a 64-bit key or size is never computed in 32-bit arithmetic and widened afterwards: a cast to a 64-bit integer "
                   "type is not applied to a multiplication/addition whose own type is 32-bit (pair_to_integer multiplies after "
                   "widening, so distinct pairs get distinct keys for any node count)")
    n = 0
    for key in (tus or LIB_TUS):
        tu = P.tus[key]
        for fn in tu.funcs.values():
            k = 0
            for x in walk(fn.body):
                if x.k != "CStyleCastExpr":
                    continue
                tgt = (x.dty or x.ty or "")
                if tgt not in ("long", "unsigned long", "long long", "unsigned long long"):
                    continue
                inner = x.kids[-1]
                while inner is not None and inner.k in ("ParenExpr", "ImplicitCastExpr"):
                    inner = inner.kids[-1] if inner.kids else None
                if inner is None or inner.k != "BinaryOperator" or inner.op not in ("*", "+", "<<"):
                    continue
                ity = (inner.dty or inner.ty or "")
                if ity in ("int", "unsigned int", "short", "unsigned short"):
                    # constant expressions cannot overflow in practice
                    from sa.expr import const_int
                    if const_int(inner) is not None:
                        continue
                    n += 1
                    ctx.ob(rule, "%s@%d" % (fn.name, k), False, tu.loc(x),
                           "`%s` is evaluated in %s and only then widened to %s: the product wraps before the cast" % (estr(inner), ity, x.ty))
                    k += 1
    fn = P.need("pair_to_integer", "tables")
    tu = P.tus["tables"]
    mul = [x for x in walk(fn.body) if x.k == "BinaryOperator" and x.op == "*"]
    ok = bool(mul) and all((m.dty or m.ty) in ("long", "int64_t", "long long") for m in mul)
    ctx.ob(rule, "pair_to_integer|wide-multiply", ok, tu.loc(fn.node), "a * N evaluated in 64-bit (type %s)" % [(m.ty) for m in mul])
    return n
