"""C04 - simplify preserves the sample genealogy and sample genotypes exactly (structural clauses)."""
from __future__ import annotations

from . import scopes, lib_kind
import re

from . import lib_variant, lib_module, lib_py, lib_guards, lib_gate, lib_schema, lib_mem

LEVEL = "other"
EXPLANATION = ("Option plumbing of all nine simplify options end to end with polarity, no ignored or crossed options, entry "
               "integrity gate and exact sample validation, record/rewind inverse agreement and full node-row forwarding, "
               "C-contiguous sample arrays, returned object passes the validity gate. Does not decide preservation of genealogy "
               "and genotypes, samples[k] -> k, or idempotence.")


def run(ctx):
    P = ctx.program()
    py = ctx.python()
    ps, ms = scopes.py_scope("C04"), scopes.module_scope("C04")
    simp = lambda f: f.startswith("simplifier_") or f == "tsk_table_collection_simplify"
    lib_module.options_plumbing(ctx, P, funcs={"TableCollection_simplify"})
    lib_module.array_flags(ctx, P, only=ms)
    lib_module.parsed_used(ctx, P, only=ms)
    lib_variant.simplifier_pairs(ctx, P)
    lib_variant.reduce_site_set(ctx, P)
    lib_mem.block_allocator(ctx, P)
    lib_mem.logical_not_in_mask(ctx, P, tus=["tables", "core"])
    lib_schema.argname(ctx, P, tus=("tables",), funcs=simp)
    lib_schema.row_forwarding(ctx, P, tus=("tables",), funcs=simp)
    lib_gate.gate(ctx, P, only={"tsk_table_collection_simplify", "simplifier_init"})
    funcs = {"simplifier_init"}
    seen = lib_guards.analyse(ctx, P, funcs=funcs)
    lib_guards.presence(ctx, seen, funcs=funcs, P=P)
    lib_py.kw_forward(ctx, py, mods=("trees", "tables"), only=ps)
    lib_py.unused_params(ctx, py, mods=("trees", "tables"), only=ps)
    lib_kind.py_lints(ctx, py, mods=("trees", "tables"), only=ps)
    lib_py.ll_positional(ctx, py, P, only=ps)
    lib_py.gate_before_return(ctx, py, ["simplify"])
    rule = "OPTION-CONSUMED"
    ctx.rule(rule, "every TSK_SIMPLIFY_* flag that TableCollection_simplify can set is tested somewhere in the simplifier "
                   "(a flag nobody reads is an option silently ignored)")
    tu = P.tus["tables"]
    body = "".join(tu.src(f.body) for f in tu.funcs.values() if simp(f.name))
    got = lib_module.extract_options(P).get("TableCollection_simplify", [])
    for e in got:
        n = len(re.findall(r"&\s*%s\b" % e["flag"], body))
        ctx.ob(rule, e["flag"], n >= 1, "c/tskit/tables.c (simplifier_*)", "%s tested %d time(s)" % (e["flag"], n))
    lib_mem.c_lints(ctx, ctx.program(), scopes.lib_scope("C04"))
    from . import lib_kind5
    lib_kind5.validate_before_clear(ctx, ctx.program())
    lib_kind5.simplify_reduce_every_edge(ctx, ctx.program())
