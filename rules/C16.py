"""C16 - VCF output states exactly the genotypes of the tree sequence (structural clauses)."""
from __future__ import annotations

from . import scopes, lib_py, lib_vcf, lib_variant, lib_module, lib_newick, lib_mem, lib_kind

LEVEL = "other"
EXPLANATION = ("Mask-normalisation discipline in VcfWriter, option forwarding from write_vcf/as_vcf/CLI under the same names, "
               "no ignored parameters. Does not decide the GT strings for all individual layouts.")


def run(ctx):
    py = ctx.python()
    lib_py.use_after_normalise(ctx, py, "vcf", "VcfWriter.__init__")
    ps = scopes.py_scope("C16")
    lib_py.kw_forward(ctx, py, mods=("vcf", "trees", "cli"), only=ps)
    lib_py.unused_params(ctx, py, mods=("vcf", "trees"), only=ps)
    lib_kind.py_lints(ctx, py, mods=("vcf", "trees"), only=ps)
    lib_vcf.writer_structure(ctx, py)
    lib_newick.none_defaults(ctx, py, mods=("vcf", "trees"), only=ps)
    P = ctx.program()
    lib_vcf.mark_missing(ctx, P)
    lib_variant.variant_decode(ctx, P)
    lib_variant.traversal_push(ctx, P, tus=["genotypes"])
    lib_variant.sample_walks(ctx, P, tus=("genotypes",), floor=1)
    lib_py.decode_every(ctx, py)
    lib_kind.py_searchsorted(ctx, py, [("trees", "TreeSequence.variants")])
    lib_module.options_plumbing(ctx, P, funcs={"Variant_init"})
    lib_py.alias_polarity(ctx, py)
    lib_mem.c_lints(ctx, P, scopes.lib_scope("C16"), tus=["genotypes"])
