"""Reference discipline of the CPython glue (python/_tskitmodule.c and the lwt interface header it includes).

REF-RELEASE   every local that receives a NEW reference is released or handed over somewhere in the function
REF-SINGLETON a singleton (Py_None / Py_True / Py_False) that is returned has its count raised first
REF-BORROWED  a borrowed reference (PyList_GetItem, PyDict_GetItemString, …) is not released

All three are acquire/release pairings decided per function from the AST; the accepted hand-over idioms were enumerated from
the module itself (ret = x, *out = x, SET_ITEM / SetBaseObject / AddObject steal, self->member = x, return x)."""
from __future__ import annotations

import re

from sa.cfg import CFG
from sa.expr import walk, strip, callee, callname

BORROW = {"PyList_GetItem", "PyList_GET_ITEM", "PyTuple_GetItem", "PyTuple_GET_ITEM", "PyDict_GetItem", "PyDict_GetItemString",
          "PyDict_GetItemWithError", "PyErr_Occurred", "PyArray_DESCR", "PyArray_BASE", "PyImport_AddModule", "PyModule_GetDict",
          "PySequence_Fast_GET_ITEM", "PyErr_NoMemory", "PyErr_Format", "PyWeakref_GetObject", "PyMethod_Function"}
OBJ_T = re.compile(r"^(PyObject|PyArrayObject) \*$")


def _borrowing_helpers(tu):
    """Module functions that return a borrowed reference: their result comes from a BORROW call (or from another borrowing
    helper) and they never raise a count."""
    bh = set()
    changed = True
    while changed:
        changed = False
        for f in tu.funcs.values():
            if f.body is None or f.name in bh:
                continue
            src = tu.src(f.body)
            if "INCREF" in src:
                continue
            if any(re.search(r"\bret\s*=\s*(\([^)]*\)\s*)?%s\(" % re.escape(b), src) for b in BORROW | bh):
                bh.add(f.name)
                changed = True
    return bh


def _null_test(tu, node, v):
    """True / False: the label of the edge of this cond node on which `v` is NULL (v == NULL, NULL == v, !v -> True; v != NULL,
    NULL != v, v -> False); None when the node does not test v against NULL.  (The CFG builder has already split && / || / !.)"""
    if node.kind != "cond" or node.ast is None:
        return None
    t = " ".join(tu.src(node.ast).split()).strip("()").strip()
    e = re.escape(v)
    if re.fullmatch(r"%s\s*==\s*NULL|NULL\s*==\s*%s" % (e, e), t):
        return True
    if re.fullmatch(r"%s\s*!=\s*NULL|NULL\s*!=\s*%s" % (e, e), t) or t == v:
        return False
    return None


def _producer(tu, nm, bh):
    if not nm or nm in BORROW or nm in bh:
        return False
    if nm.startswith(("PyErr_", "PyEval_", "PyGILState_", "PyArg_", "_PyArg_")):
        return False
    if nm.startswith(("Py", "_Py")):
        return True
    f = tu.funcs.get(nm)
    return f is not None and OBJ_T.match(getattr(f, "ret", "") or "PyObject *") is not None and (
        nm.startswith(("make_", "convert_", "table_get_", "table_read_")) or nm.endswith("_array"))


def release(ctx, P, rule="REF-RELEASE", only=None, floor=100, tu_key=None):
    ctx.rule(rule, "in the CPython glue every local PyObject* / PyArrayObject* that is assigned a NEW reference (the result of a "
                   "Py* constructor, PyArray_FROMANY, Py_BuildValue, a make_* / convert_* helper …) is, somewhere in the same "
                   "function, released (Py_DECREF / Py_XDECREF / Py_CLEAR) or handed over (ret = x, return x, *out = x, "
                   "self->member = x, PyList_SET_ITEM / PyTuple_SET_ITEM / PyArray_SetBaseObject / PyModule_AddObject, which steal). "
                   "Borrowed results (PyList_GetItem, PyDict_GetItemString and the helpers built on them) are excluded")
    tu = P.tus[tu_key] if tu_key else P.tus["module"]
    bh = _borrowing_helpers(tu)
    n = 0
    for fn in tu.funcs.values():
        if fn.body is None or (only is not None and not only(fn.name)):
            continue
        src = tu.src(fn.body)
        locs = {d.name for d in walk(fn.body) if d.k == "VarDecl" and d.name and OBJ_T.match(d.ty or "")}
        done = set()
        cfg = None
        for x in walk(fn.body):
            if not (x.k == "BinaryOperator" and x.op == "="):
                continue
            l, r = strip(x.kids[0]), strip(x.kids[1])
            if l is None or r is None or l.k != "DeclRefExpr" or l.ref not in locs or r.k != "CallExpr":
                continue
            nm = callname(r) or callee(r) or ""
            v = l.ref
            if v == "ret" or v in done or not _producer(tu, nm, bh):
                continue
            done.add(v)
            e = re.escape(v)
            pats = [r"Py_X?DECREF\(\s*(\([^)]*\)\s*)?%s\s*\)" % e, r"Py_CLEAR\(\s*%s\s*\)" % e, r"\bret\s*=\s*(\([^)]*\)\s*)?%s\s*;" % e,
                    r"SET_ITEM\([^;]*\b%s\s*\)" % e, r"SetBaseObject\([^;]*\b%s\s*\)" % e,
                    r"(PyStructSequence_SetItem|PyList_SetItem|PyTuple_SetItem)\([^;]*\b%s\s*\)" % e, r"return\s+(\([^)]*\)\s*)?%s\s*;" % e,
                    r"PyModule_AddObject\([^;]*%s\s*\)" % e, r"(->\w+|\*\s*\w+)\s*=\s*(\([^)]*\)\s*)?%s\s*;" % e,
                    r"Py_BuildValue\(\s*\"[^\"]*N[^\"]*\"[^;]*\b%s\b" % e]
            ok = any(re.search(p, src) for p in pats)
            n += 1
            ctx.ob(rule, "%s|%s" % (fn.name, v), ok, tu.loc(x),
                   "`%s` (from %s) is released or handed over" % (v, nm) if ok else
                   "`%s` receives a new reference from %s and is neither released nor handed over anywhere in %s: it leaks on every call" % (v, nm, fn.name))
            if not ok:
                continue
            # every path: from the acquisition no `return` is reached without passing a release / hand-over of v, except along the
            # branch on which v is known to be NULL (the failed acquisition)
            if cfg is None:
                cfg = CFG(fn)
            acq = [c for c in cfg.nodes if c.ast is not None and c.kind in ("stmt", "cond") and any(y is x for y in walk(c.ast))]
            rel = [c for c in cfg.nodes if c.ast is not None and c.kind in ("stmt", "cond", "switch")
                   and any(re.search(p, " ".join(tu.src(c.ast).split()) + ";") for p in pats)]
            rets = [c for c in cfg.nodes if c.kind == "stmt" and c.ast is not None and c.ast.k == "ReturnStmt"]
            # `if (ret == NULL) { Py_XDECREF(v); }` in the cleanup: on the paths that still own v, ret IS NULL (ret = v hands it over),
            # so the guarded release counts as a release at the test
            for c in cfg.nodes:
                pol = _null_test(tu, c, "ret")
                if pol is not None and any(t_ in rel for t_, lab in c.succ if lab is pol):
                    rel.append(c)

            def null_branch(a, b, lab):
                # the edge on which v is known to be NULL
                pol = _null_test(tu, a, v)
                return pol is not None and lab is pol
            leak = None
            for a_ in acq:
                path = cfg.find_path(a_, set(rets), avoid=[r_ for r_ in rel if r_ is not a_], avoid_edge=null_branch) if rets else None
                if path:
                    leak = path[-1]
                    break
            ctx.ob(rule, "%s|%s|every-path" % (fn.name, v), leak is None, tu.loc(leak.ast if leak is not None else x),
                   "every path from the acquisition of `%s` to a return releases it or hands it over" % v if leak is None else
                   "a path from the acquisition of `%s` reaches this return without releasing it or handing it over" % v)
    ctx.ob(rule, "instances", n >= floor, "python/_tskitmodule.c", "%d locals holding new references analysed" % n)
    return n


def singletons(ctx, P, rule="REF-SINGLETON", only=None, floor=0, tu_key=None):
    ctx.rule(rule, "a singleton handed to the caller owns a reference: `ret = Py_None / Py_True / Py_False` (or a return of one) is "
                   "paired with Py_INCREF of the same object in the function, or written as Py_RETURN_* / Py_BuildValue(\"\"); "
                   "otherwise each call drops the singleton's count by one until the interpreter frees None")
    tu = P.tus[tu_key] if tu_key else P.tus["module"]
    bh = _borrowing_helpers(tu)
    n = 0
    for fn in tu.funcs.values():
        if fn.body is None or (only is not None and not only(fn.name)) or fn.name in bh:
            continue        # a helper that returns BORROWED references may return the borrowed singleton
        src = " ".join(tu.src(fn.body).split())
        for m in re.finditer(r"\b(ret|result)\s*=\s*(Py_None|Py_True|Py_False)\s*;|return\s+(Py_None|Py_True|Py_False)\s*;", src):
            obj = m.group(2) or m.group(3)
            ok = re.search(r"Py_X?INCREF\(\s*(%s|ret|result)\s*\)" % obj, src) is not None
            n += 1
            ctx.ob(rule, "%s|%s" % (fn.name, obj), ok, tu.loc(fn.node), "%s is returned with its count raised" % obj if ok else
                   "%s returns %s without Py_INCREF: every call steals one reference from the singleton" % (fn.name, obj))
        for m in re.finditer(r"\bret\s*=\s*\(?\s*\w[^;?]*\?\s*(Py_True|Py_False)\s*:\s*(Py_True|Py_False)", src):
            ok = re.search(r"Py_X?INCREF\(\s*ret\s*\)", src) is not None
            n += 1
            ctx.ob(rule, "%s|bool" % fn.name, ok, tu.loc(fn.node), "the boolean singleton is returned with its count raised" if ok else
                   "%s returns Py_True / Py_False without Py_INCREF" % fn.name)
    ctx.ob(rule, "instances", n >= floor, "python/_tskitmodule.c", "%d singleton returns analysed (the module writes Py_BuildValue(\"\") instead; "
           "the rule's positive control is in selftest/fixtures/controls.c)" % n)
    return n


def borrowed(ctx, P, rule="REF-BORROWED", only=None, floor=5, tu_key=None):
    ctx.rule(rule, "a local that holds a BORROWED reference (PyList_GetItem, PyTuple_GetItem, PyDict_GetItemString and the "
                   "get_dict_value helpers) is never passed to Py_DECREF / Py_XDECREF / Py_CLEAR unless the function raised its "
                   "count itself: releasing a borrowed reference frees an object its container still points to")
    tu = P.tus[tu_key] if tu_key else P.tus["module"]
    bh = _borrowing_helpers(tu)
    n = 0
    for fn in tu.funcs.values():
        if fn.body is None or (only is not None and not only(fn.name)):
            continue
        src = tu.src(fn.body)
        done = set()
        for x in walk(fn.body):
            if not (x.k == "BinaryOperator" and x.op == "="):
                continue
            l, r = strip(x.kids[0]), strip(x.kids[1])
            if l is None or r is None or l.k != "DeclRefExpr" or r.k != "CallExpr":
                continue
            nm = callname(r) or callee(r) or ""
            if nm not in BORROW and nm not in bh:
                continue
            v = l.ref
            if not v or v in done or v == "ret":
                continue
            # a variable that ALSO receives new references elsewhere is out of this rule's reach
            others = [y for y in walk(fn.body) if y.k == "BinaryOperator" and y.op == "=" and strip(y.kids[0]) is not None
                      and strip(y.kids[0]).k == "DeclRefExpr" and strip(y.kids[0]).ref == v and strip(y.kids[1]) is not None
                      and strip(y.kids[1]).k == "CallExpr" and (callname(strip(y.kids[1])) or callee(strip(y.kids[1])) or "") not in BORROW | bh]
            if others:
                continue
            done.add(v)
            e = re.escape(v)
            rel = re.search(r"Py_X?DECREF\(\s*(\([^)]*\)\s*)?%s\s*\)|Py_CLEAR\(\s*%s\s*\)" % (e, e), src) is not None
            inc = re.search(r"Py_X?INCREF\(\s*(\([^)]*\)\s*)?%s\s*\)" % e, src) is not None
            n += 1
            ctx.ob(rule, "%s|%s" % (fn.name, v), (not rel) or inc, tu.loc(x),
                   "`%s` (borrowed from %s) is not released" % (v, nm) if not rel else
                   ("`%s` is released after the function raised its count" % v if inc else
                    "`%s` is a borrowed reference from %s and is released: the container is left pointing at a freed object" % (v, nm)))
    ctx.ob(rule, "instances", n >= floor, "python/_tskitmodule.c", "%d locals holding borrowed references analysed" % n)
    return n
