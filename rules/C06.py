"""C06 - A Tree's state depends only on where it is, not on how it got there (structural clauses)."""
from __future__ import annotations

from . import scopes, lib_kind
from . import lib_tree, lib_guards, lib_module, lib_py, lib_mem

LEVEL = "other"
EXPLANATION = ("Completeness of tsk_tree_copy / tsk_tree_clear over every array and position-dependent scalar of tsk_tree_t, "
               "index-domain agreement of the reset loops, mirror-image agreement of the forward/backward cursor code, inverse "
               "agreement of edge insertion/removal, transition order in next/prev, exact seek guards. Does not decide equality "
               "with a fresh tree after arbitrary operation sequences.")


def run(ctx):
    P = ctx.program()
    py = ctx.python()
    ps, ms = scopes.py_scope("C06"), scopes.module_scope("C06")
    lib_tree.tree_copy_clear(ctx, P)
    lib_mem.sizeof_elements(ctx, P, tus=["trees"], funcs=lambda f: f.startswith("tsk_tree_"))
    lib_tree.index_domains(ctx, P)
    lib_tree.mirror_pairs(ctx, P)
    lib_tree.inverse_pairs(ctx, P)
    lib_tree.transitions(ctx, P)
    lib_tree.edge_call_args(ctx, P)
    from . import lib_kind2
    lib_kind2.guard_nan(ctx, P)
    funcs = {"tsk_tree_seek", "tsk_tree_seek_index", "tsk_tree_check_node", "tsk_tree_set_tracked_samples"}
    seen = lib_guards.analyse(ctx, P, funcs=funcs)
    lib_guards.presence(ctx, seen, funcs=funcs, P=P)
    lib_module.parsed_used(ctx, P, only=ms)
    lib_py.unused_params(ctx, py, mods=("trees",), only=ps)
    lib_kind.py_lints(ctx, py, mods=("trees",), only=ps)
    lib_kind.py_copy_state(ctx, py, [("trees", "Tree")])
    lib_py.kw_forward(ctx, py, mods=("trees",), only=ps)
    lib_py.null_index(ctx, py)
    lib_mem.c_lints(ctx, ctx.program(), scopes.lib_scope("C06"))
    from . import lib_kind5
    lib_kind5.tree_reset_unconditional(ctx, ctx.program())
