"""C08 rules: thread independence, mode/option plumbing, window / sample-set validation, string-equality idiom."""
from __future__ import annotations

import ast
import json
import os
import re

from sa.cfront import LIB_TUS
from sa.expr import strip, walk, callee, callname, estr, xstr, is_assign, calls, local_aliases
from sa.guards import find_guards, dnf
from sa.pyfront import call_name, dotted
from sa.schema import Facts

HERE = os.path.dirname(os.path.abspath(__file__))
INV = os.path.join(os.path.dirname(HERE), "tables", "stats_guards.json")
VALIDATORS = ["tsk_treeseq_check_windows", "tsk_treeseq_check_sample_sets", "check_set_indexes", "check_sample_stat_inputs",
              "check_sites", "check_positions", "tsk_treeseq_check_node_bin_map", "check_node_bin_map", "check_quantiles",
              "check_coalescence_rate_time_windows", "tsk_treeseq_genealogical_nearest_neighbours", "tsk_treeseq_mean_descendants",
              "get_sample_set_index_map", "tsk_treeseq_general_stat", "tsk_matvec_calculator_init"]


def gil_regions(ctx, P, rule="GIL-REGION", floor=5):
    ctx.rule(rule, "inside every GIL-released region of the module (PyEval_SaveThread .. PyEval_RestoreThread) the only call is one "
                   "libtskit function whose tree-sequence parameter is const, and no Py* API is touched; libtskit has no "
                   "file-scope mutable object other than the debug stream, so concurrent calls share no writable state")
    tu = P.tus["module"]
    n = 0
    for fn in tu.funcs.values():
        evs = []
        for c in calls(fn.body):
            nm = callname(c)
            cn = callee(c)
            if cn == "PyEval_SaveThread":
                evs.append(("save", c))
            elif cn == "PyEval_RestoreThread":
                evs.append(("restore", c))
        if not evs:
            continue
        saves = [c for k, c in evs if k == "save"]
        rests = [c for k, c in evs if k == "restore"]
        for i, s in enumerate(saves):
            r = [x for x in rests if x.b > s.b]
            if not r:
                ctx.ob(rule, "%s@%d" % (fn.name, i), False, tu.loc(s), "GIL released and never re-acquired")
                continue
            lo, hi = s.b, r[0].b
            inside = [c for c in calls(fn.body) if lo < c.b < hi and c is not s]
            names = []
            for c in inside:
                nm = callname(c)
                if nm is None:
                    # call through a function-pointer parameter: resolve through every caller of this function
                    f0 = strip(c.kids[0])
                    if f0 is not None and f0.k == "DeclRefExpr" and f0.refkind == "ParmVarDecl":
                        idx = [j for j, p in enumerate(fn.params) if p.name == f0.ref]
                        tg = set()
                        for g in tu.funcs.values():
                            for cc in calls(g.body):
                                if callee(cc) == fn.name and idx and idx[0] < len(cc.kids) - 1:
                                    a = strip(cc.kids[1 + idx[0]])
                                    tg.add(a.ref if a is not None and a.k == "DeclRefExpr" and a.refkind == "FunctionDecl" else "?")
                        if tg and all(t.startswith("tsk_") for t in tg):
                            nm = "tsk_*(via %s: %d targets)" % (f0.ref, len(tg))
                names.append(nm or "?")
            bad = [x for x in names if not x.startswith("tsk_") and x not in ("PyArray_DATA", "PyArray_DIMS", "PyArray_DIM")]
            # PyArray_DATA is an accessor macro (no call node in practice)
            ok = len([x for x in names if x.startswith("tsk_")]) == 1 and not bad
            why = "region calls %s" % names
            if ok:
                lib = [c for c in inside if (callname(c) or "").startswith("tsk_")]
                lib = lib[0] if lib else None
                cal = P.func(callee(lib)) if lib is not None else None
                if cal is not None and cal.params:
                    t0 = cal.params[0].ty or ""
                    if "tsk_treeseq_t" in t0 and "const" not in t0:
                        ok, why = False, "%s takes a non-const tree sequence" % callee(lib)
            n += 1
            ctx.ob(rule, "%s@%d" % (fn.name, i), ok, tu.loc(s), why)
    ctx.floor(rule, floor)
    # file-scope mutable state in libtskit
    rule2 = "LIB-GLOBALS"
    ctx.rule(rule2, "libtskit defines no file-scope mutable object other than the debug stream pointer (const tables and string "
                    "literals excluded)")
    for key in LIB_TUS:
        t = P.tus[key]
        for name, g in t.globals.items():
            ty = g.ty or ""
            if (g.file or "").endswith(".h") and g.extra == "extern":
                continue
            const = ty.startswith("const ") or " const" in ty or "const[" in ty.replace(" ", "")
            ok = const or name in ("_tsk_debug_stream",)
            ctx.ob(rule2, "%s|%s" % (key, name), ok, t.loc(g), "`%s %s` at file scope%s" % (ty, name, "" if ok else " is writable shared state"))


def python_threads(ctx, py, rule="PY-THREADS"):
    ctx.rule(rule, "Python worker fan-out combines results in submission order (pool.map or the futures list in order, never "
                   "as_completed), workers are closures that do not store to shared state, and every use of the stateful low-level "
                   "LD calculator is inside `with self._instance_lock`")
    m = py.mod("trees")
    for qn, fn in m.funcs.items():
        src = None
        uses_pool = [c for c in ast.walk(fn) if isinstance(c, ast.Call) and (call_name(c) or "").endswith("ThreadPoolExecutor")]
        if not uses_pool:
            continue
        bad = [c for c in ast.walk(fn) if isinstance(c, ast.Call) and (call_name(c) or "").endswith("as_completed")]
        ctx.ob(rule, "%s|order" % qn, not bad, m.loc(bad[0] if bad else uses_pool[0]),
               "results consumed in submission order" if not bad else "as_completed() makes the combination order schedule-dependent")
        # workers: nested function defs named worker; no Attribute/Subscript stores to names from the enclosing scope, no nonlocal/global
        for w in ast.walk(fn):
            if isinstance(w, ast.FunctionDef) and w is not fn:
                stores = []
                localnames = {a.arg for a in w.args.args} | {t.id for x in ast.walk(w) if isinstance(x, ast.Assign) for t in x.targets if isinstance(t, ast.Name)}
                for x in ast.walk(w):
                    if isinstance(x, (ast.Nonlocal, ast.Global)):
                        stores.append(ast.unparse(x))
                    if isinstance(x, (ast.Assign, ast.AugAssign)):
                        tg = x.targets if isinstance(x, ast.Assign) else [x.target]
                        for t in tg:
                            if isinstance(t, (ast.Attribute, ast.Subscript)):
                                root = t
                                while isinstance(root, (ast.Attribute, ast.Subscript)):
                                    root = root.value
                                if isinstance(root, ast.Name) and root.id not in localnames:
                                    stores.append(ast.unparse(t))
                ctx.ob(rule, "%s|%s|no-shared-stores" % (qn, w.name), not stores, m.loc(w),
                       "worker writes no shared state" if not stores else "worker stores to shared %s" % stores)
    sm = py.mod("stats")
    cls = py.cls("stats", "LdCalculator")
    for meth in cls.body:
        if not isinstance(meth, ast.FunctionDef) or meth.name == "__init__":
            continue
        uses = [x for x in ast.walk(meth) if isinstance(x, ast.Attribute) and x.attr == "_ll_ld_calculator"]
        if not uses:
            continue
        withs = [w for w in ast.walk(meth) if isinstance(w, ast.With) and any("_instance_lock" in ast.unparse(i.context_expr) for i in w.items)]
        inside = set()
        for w in withs:
            for x in ast.walk(w):
                inside.add(id(x))
        ok = all(id(u) in inside for u in uses)
        ctx.ob(rule, "LdCalculator.%s|lock" % meth.name, ok, sm.loc(meth), "every _ll_ld_calculator use is under self._instance_lock" if ok else
               "_ll_ld_calculator used outside `with self._instance_lock`")


def stats_mode(ctx, P, rule="STATS-MODE"):
    ctx.rule(rule, "parse_stats_mode maps \"site\"/\"branch\"/\"node\" (and NULL -> site) to TSK_STAT_SITE/BRANCH/NODE respectively and "
                   "rejects anything else")
    tu = P.tus["module"]
    fn = P.need("parse_stats_mode", "module")
    F = Facts(P, fn)
    got = {}
    for x in walk(fn.body):
        if x.k == "IfStmt":
            c = estr(x.kids[0])
            m = re.search(r'strcmp\(mode, "(\w+)"\) == 0', c)
            then = x.kids[1]
            val = None
            for y in walk(then):
                if is_assign(y) and estr(y.kids[0]) == "value":
                    val = estr(y.kids[1])
            if m:
                got[m.group(1)] = val
            elif "mode == NULL" in c or "(mode == 0)" in c or "NULL" in tu.src(x.kids[0]):
                got[None] = val
    want = {"site": "TSK_STAT_SITE", "branch": "TSK_STAT_BRANCH", "node": "TSK_STAT_NODE", None: "TSK_STAT_SITE"}
    for k, v in want.items():
        ctx.ob(rule, "mode|%s" % k, got.get(k) == v, tu.loc(fn.node), "%r -> %s (found %s)" % (k, v, got.get(k)))
    ctx.ob(rule, "mode|reject", "Unrecognised stats mode" in tu.src(fn.body), tu.loc(fn.node), "unknown modes raise ValueError")


WINDOW_SPEC = [
    ("tsk_treeseq_check_windows", "TSK_ERR_BAD_NUM_WINDOWS", "num_windows < 1"),
    ("tsk_treeseq_check_windows", "TSK_ERR_BAD_WINDOWS", "windows[0] != 0"),
    ("tsk_treeseq_check_windows", "TSK_ERR_BAD_WINDOWS", "windows[num_windows] != self->tables->sequence_length"),
    ("tsk_treeseq_check_windows", "TSK_ERR_BAD_WINDOWS", "windows[j] >= windows[(j + 1)]"),
    ("tsk_treeseq_check_windows", "TSK_ERR_BAD_WINDOWS", "windows[0] < 0"),
    ("tsk_treeseq_check_windows", "TSK_ERR_BAD_WINDOWS", "windows[num_windows] > self->tables->sequence_length"),
    ("check_set_indexes", "TSK_ERR_BAD_SAMPLE_SET_INDEX", "set_indexes[j] >= num_sets"),
    ("check_set_indexes", "TSK_ERR_BAD_SAMPLE_SET_INDEX", "set_indexes[j] < 0"),
]


def validators(ctx, P, rule="STATS-VALIDATE", freeze=False):
    ctx.rule(rule, "the argument validators of the statistics (windows, sample sets, set indexes, sites, positions, time windows, "
                   "quantiles) keep every guard confirmed by reading (tables/stats_guards.json) and the window guards reject exactly: "
                   "fewer than one window, first != 0, last != L, and any non-increasing pair (>=)")
    seen = {}
    guards = {}
    for key in ("trees", "stats"):
        tu = P.tus[key]
        for fn in tu.funcs.values():
            if fn.name not in VALIDATORS:
                continue
            gs = find_guards(P, fn)
            guards[fn.name] = (tu, fn, gs)
            for g in gs:
                for code in g.codes:
                    seen[(fn.name, code)] = seen.get((fn.name, code), 0) + 1
    if freeze:
        with open(INV, "w") as fh:
            json.dump({"guards": [{"function": f, "code": c, "count": n} for (f, c), n in sorted(seen.items())]}, fh, indent=1)
        return
    with open(INV) as fh:
        frozen = json.load(fh)["guards"]
    for e in frozen:
        have = seen.get((e["function"], e["code"]), 0)
        ctx.ob(rule, "present|%s|%s" % (e["function"], e["code"]), have >= e["count"], "(%s)" % e["function"],
               "%d guard(s) raising %s (confirmed %d)" % (have, e["code"], e["count"]))
    FL = {"<": ">", ">": "<", "<=": ">=", ">=": "<=", "==": "==", "!=": "!="}
    for fname, code, rel in WINDOW_SPEC:
        ent = guards.get(fname)
        if ent is None:
            ctx.ob(rule, "spec|%s|%s" % (fname, rel), False, "(%s)" % fname, "validator missing")
            continue
        tu, fn, gs = ent
        hit = False
        for g in gs:
            if code not in g.codes:
                continue
            for conj in g.dnf:
                for a in conj:
                    if a.op in FL and ("%s %s %s" % (a.lhs, a.op, a.rhs) == rel or "%s %s %s" % (a.rhs, FL[a.op], a.lhs) == rel):
                        hit = True
        ctx.ob(rule, "spec|%s|%s" % (fname, rel), hit, tu.loc(fn.node), "a guard raising %s rejects `%s`" % (code, rel))


def string_equality(ctx, P, rule="STR-EQUAL", floor=5):
    ctx.rule(rule, "allele / string equality in libtskit is `len_a == len_b && memcmp(a, b, len) == 0`: wherever a condition combines a "
                   "memcmp(..) == 0 with a comparison of two lengths, that comparison is `==` (a prefix must not match)")
    n = 0
    for key in LIB_TUS:
        tu = P.tus[key]
        for fn in tu.funcs.values():
            al = None
            k = 0
            for x in walk(fn.body):
                if x.k not in ("IfStmt", "WhileStmt", "ForStmt"):
                    continue
                cond = x.kids[0] if x.k != "ForStmt" else (x.kids[2] if len(x.kids) > 2 else None)
                if cond is None:
                    continue
                has_cmp = any(c.k == "CallExpr" and callee(c) in ("tsk_memcmp", "memcmp", "strncmp") for c in walk(cond))
                if not has_cmp:
                    continue
                al = al or local_aliases(fn)
                for b in walk(cond):
                    if b.k == "BinaryOperator" and b.op in ("==", "!=", "<", "<=", ">", ">="):
                        l, r = xstr(b.kids[0], al), xstr(b.kids[1], al)
                        if re.search(r"length|\blen\b|_len\b", l) and re.search(r"length|\blen\b|_len\b", r):
                            n += 1
                            ok = b.op in ("==", "!=")
                            ctx.ob(rule, "%s@%d" % (fn.name, k), ok, tu.loc(b),
                                   "lengths compared with %s next to memcmp" % b.op if ok else
                                   "`%s %s %s` next to a memcmp: a string that merely has the other as prefix compares equal" % (l, b.op, r))
                            k += 1
                            # the memcmp in the same condition compares exactly that many bytes: its length argument is one of
                            # the two lengths just tested equal, and its operands are the strings those lengths belong to
                            if ok and b.op == "==":
                                for c in walk(cond):
                                    if c.k == "CallExpr" and callee(c) in ("tsk_memcmp", "memcmp", "strncmp") and len(c.kids) >= 4:
                                        ln = xstr(c.kids[3], al)
                                        n += 1
                                        okl = ln in (l, r)
                                        ctx.ob(rule, "%s@%d|memcmp-length" % (fn.name, k - 1), okl, tu.loc(c),
                                               "memcmp over `%s` bytes, one of the lengths tested equal" % ln if okl else
                                               "memcmp compares `%s` bytes although the lengths tested equal are `%s` and `%s`: an "
                                               "unrelated length matches by prefix or reads past the shorter string" % (ln, l, r))
    # every variable-length memcmp used as an equality test of allele / state strings is conjoined with an equality of the two
    # lengths (a bare memcmp over one string's length matches prefixes, and the empty string matches everything)
    for key in ("trees", "genotypes", "stats"):
        tu = P.tus[key]
        for fn in tu.funcs.values():
            if fn.body is None or fn.name.endswith("_equals"):
                continue
            par = {}
            for x in walk(fn.body):
                for c in x.kids:
                    if c is not None:
                        par[id(c)] = x
            k = 0
            for x in walk(fn.body):
                if x.k == "CallExpr" and callee(x) in ("tsk_memcmp", "memcmp", "strncmp") and len(x.kids) > 3:
                    ln = estr(x.kids[3])
                    if re.search(r"sizeof|strlen|^[A-Z_]+$", ln) and not re.search(r"length|_len", ln):
                        continue
                    cur, p = x, par.get(id(x))
                    while p is not None and (p.k in ("ParenExpr", "ImplicitCastExpr", "UnaryOperator") or
                                             (p.k == "BinaryOperator" and p.op in ("&&", "==", "!="))):
                        cur, p = p, par.get(id(p))
                    haslen = any(b.k == "BinaryOperator" and b.op == "==" and re.search(r"length|_len\b|lengths\[", estr(b.kids[0]))
                                 and re.search(r"length|_len\b|lengths\[", estr(b.kids[1])) for b in walk(cur))
                    n += 1
                    ctx.ob(rule, "%s|conjoined@%d" % (fn.name, k), haslen, tu.loc(x),
                           "memcmp over `%s` is conjoined with an equality of lengths" % ln if haslen else
                           "`%s` compares %s bytes without requiring the two lengths to be equal: a prefix (or the empty string) matches" % (estr(cur)[:70], ln))
                    k += 1
    ctx.floor(rule, floor)


def early_exits(ctx, P, rule="VALIDATOR-EXITS"):
    ctx.rule(rule, "the list validators check_sites / check_positions return early without looking at the values only for the empty "
                   "list (`n == 0`); every non-empty list, including a single element, reaches the range check of its last element")
    tu = P.tus["trees"]
    for name in ("check_sites", "check_positions"):
        fn = P.need(name, "trees")
        npar = fn.params[1].name
        early = []
        for x in walk(fn.body):
            if x.k == "IfStmt":
                then = x.kids[1]
                rets = [y for y in walk(then) if y.k in ("ReturnStmt", "GotoStmt")]
                errs = "tsk_trace_error" in tu.src(then) or "TSK_ERR_" in tu.src(then)
                if rets and not errs:
                    early.append(estr(x.kids[0]))
        ok = early == ["(%s == 0)" % npar]
        ctx.ob(rule, name, ok, tu.loc(fn.node), "success early-exits: %s" % early)
        gs = find_guards(P, fn)
        last = [g for g in gs if not any(i.k == "ForStmt" for i in _ancestors(fn, g.ifn))]
        ctx.ob(rule, name + "|last-element", len(last) >= 1, tu.loc(fn.node), "a range guard outside the pair loop covers the last element")


def _ancestors(fn, node):
    par = {}
    for x in walk(fn.body):
        for c in x.kids:
            if c is not None:
                par[id(c)] = x
    out = []
    cur = node
    while id(cur) in par:
        cur = par[id(cur)]
        out.append(cur)
    return out


def kernel_shapes(ctx, P, rule="STATS-KERNEL"):
    ctx.rule(rule, "two narrow shape facts of the statistic kernels (written after seeded changes, stated as such): (a) in every walk "
                   "whose loop condition reads `visited[...]`, the marks `visited[...] = true/false` are unconditional statements of "
                   "the loop body (the reset walk retraces exactly the marked path); (b) get_all_samples_bits selects the last word "
                   "with a conditional on the remainder (`n % bits ? ~(all << r) : all`), because `~(all << 0)` would be 0")
    tu = P.tus["trees"]
    n = 0
    for fn in tu.funcs.values():
        for w in walk(fn.body):
            if w.k != "WhileStmt" or w.kids[-1] is None or w.kids[-1].k != "CompoundStmt":
                continue
            if "visited[" not in estr(w.kids[0]):
                continue
            body = w.kids[-1]
            marks = [x for x in walk(body) if is_assign(x) and estr(x.kids[0]).startswith("visited[")]
            top = [x for x in body.kids if x is not None and is_assign(x) and estr(x.kids[0]).startswith("visited[")]
            n += 1
            ctx.ob(rule, "%s|visited@%d" % (fn.name, n), bool(marks) and len(marks) == len(top), tu.loc(w),
                   "%d mark(s), all unconditional in the walk body" % len(marks) if len(marks) == len(top) else
                   "a `visited[...]` mark is conditional: nodes stay marked / unmarked and later windows are truncated wrongly")
    ctx.ob(rule, "visited-walks", n >= 2, tu.path, "%d walks over visited[] analysed" % n)
    fn = P.need("get_all_samples_bits", "trees")
    last = [x for x in walk(fn.body) if is_assign(x) and "size - 1" in estr(x.kids[0])]
    ok = False
    if last:
        r = strip(last[0].kids[1])
        ok = r is not None and r.k == "ConditionalOperator" and "remainder" in estr(r.kids[0]) and "<<" in estr(r.kids[1]) and estr(r.kids[2]) == "all"
    ctx.ob(rule, "get_all_samples_bits|tail", ok, tu.loc(fn.node), "last word = remainder ? ~(all << remainder) : all")


def lazy_flush(ctx, P, rule="STATS-LAZY", floor=2):
    """Lazily accrued statistics: value += (now - last_update[u]) * rate[u].  Whenever rate[u] changes, u's accrual point moves."""
    from sa.expr import walk as _walk
    ctx.rule(rule, "where a statistic is accrued lazily as (position - last_update[u]) * rate[u] (branch-mode allele frequency "
                   "spectrum: rate = branch_length), every assignment that changes rate[u] is accompanied, in the same block, by a "
                   "flush of u (a call to the accrual function with u as the node) or by `last_update[u] = position`: otherwise the "
                   "new rate is applied to the span that elapsed under the old one (a branch is counted over the gap in which the "
                   "node was detached)")
    tu = P.tus["trees"]
    # accrual functions: parameters (node, rate array, last_update array) with  x = (… - last_update[node]) * rate[node]
    flush = {}
    for fn in tu.funcs.values():
        if fn.body is None:
            continue
        pn = [p.name for p in fn.params]
        if "last_update" not in pn:
            continue
        for x in _walk(fn.body):
            if x.k == "BinaryOperator" and x.op == "*":
                t = estr(x)
                m = re.search(r"last_update\[(\w+)\]\) \* (\w+)\[(\w+)\]", t)
                if m and m.group(1) == m.group(3) and m.group(2) in pn and m.group(1) in pn:
                    flush[fn.name] = (pn.index(m.group(1)), pn.index(m.group(2)), pn.index("last_update"))
    ctx.need(bool(flush), "a lazily accruing function (… - last_update[u]) * rate[u] in trees.c")
    n = 0
    for fn in tu.funcs.values():
        if fn.body is None:
            continue
        sites = [c for c in calls(fn.body) if callee(c) in flush]
        if not sites:
            continue
        F = Facts(P, fn)
        rate_names = {estr(c.kids[1 + flush[callee(c)][1]]) for c in sites}
        lu_names = {estr(c.kids[1 + flush[callee(c)][2]]) for c in sites}
        k = 0
        for x in _walk(fn.body):
            if not (x.k == "BinaryOperator" and x.op == "="):
                continue
            l = strip(x.kids[0])
            if l is None or l.k != "ArraySubscriptExpr" or estr(l.kids[0]) not in rate_names:
                continue
            node = estr(l.kids[1])
            # the innermost compound statement containing the assignment
            blk = None
            cur = x
            while id(cur) in F.parent:
                cur = F.parent[id(cur)]
                if cur.k == "CompoundStmt":
                    blk = cur
                    break
            ok = False
            if blk is not None:
                for y in _walk(blk):
                    if y.k == "CallExpr" and callee(y) in flush and estr(y.kids[1 + flush[callee(y)][0]]) == node:
                        ok = True
                    if y.k == "BinaryOperator" and y.op == "=":
                        ly = strip(y.kids[0])
                        if ly is not None and ly.k == "ArraySubscriptExpr" and estr(ly.kids[0]) in lu_names and estr(ly.kids[1]) == node:
                            ok = True
            n += 1
            ctx.ob(rule, "%s|%s@%d" % (fn.name, estr(l), k), ok, tu.loc(x),
                   "`%s` changes the rate of %s and %s is flushed / re-dated in the same block" % (estr(x), node, node) if ok else
                   "`%s` changes the rate of %s but neither flushes %s nor sets last_update[%s]: the new rate is applied to the span "
                   "elapsed before the change" % (estr(x), node, node, node))
            k += 1
    ctx.floor(rule, floor)
    return n


def carry_sign(ctx, P, rule="STATS-CARRY", floor=1):
    """A = W - M; ...; R = part of M that belongs to the NEXT window; A ?= R; M += R   =>   the correction of A is `+= R`."""
    ctx.rule(rule, "window accounting with a carried-over span: where a quantity A is first computed as `<width> - M` and a part R of "
                   "M is then handed over to the next window (`M = 0; … M += R`), A is corrected by ADDING R back (`A += R`): "
                   "subtracting it removes the carried span from the window a second time (pair-coalescence statistics: "
                   "`window_span`, `missing_span`, an edgeless tree that straddles a window boundary)")
    tu = P.tus["trees"]
    n = 0
    for fn in tu.funcs.values():
        if fn.body is None:
            continue
        F = None
        for x in walk(fn.body):
            # A = <...> - M
            if not (x.k == "BinaryOperator" and x.op == "="):
                continue
            r = strip(x.kids[1])
            if r is None or r.k != "BinaryOperator" or r.op != "-":
                continue
            A, M = estr(x.kids[0]), estr(r.kids[1])
            if not re.fullmatch(r"\w+", A) or not re.fullmatch(r"\w+", M):
                continue
            # later in the same function: M += R  and  A (+|-)= R  for the same R, after a reset M = 0
            resets = [y for y in walk(fn.body) if y.k == "BinaryOperator" and y.op == "=" and estr(y.kids[0]) == M and estr(y.kids[1]) in ("0.0", "0") and y.b > x.b]
            if not resets:
                continue
            carries = [y for y in walk(fn.body) if y.k == "CompoundAssignOperator" and y.op == "+=" and estr(y.kids[0]) == M and y.b > resets[0].b]
            for cy in carries:
                R = estr(cy.kids[1])
                corr = [y for y in walk(fn.body) if y.k == "CompoundAssignOperator" and y.op in ("+=", "-=") and estr(y.kids[0]) == A
                        and estr(y.kids[1]) == R and x.b < y.b < cy.b + 400]
                for y in corr:
                    n += 1
                    ok = y.op == "+="
                    ctx.ob(rule, "%s|%s|%s" % (fn.name, A, R), ok, tu.loc(y),
                           "`%s = … - %s` is corrected by `%s %s %s` for the part of %s carried to the next window" % (A, M, A, y.op, R, M) if ok else
                           "`%s = … - %s` already excludes `%s` (it is part of %s); `%s -= %s` removes it a second time instead of adding it back"
                           % (A, M, R, M, A, R))
    ctx.floor(rule, floor)
    return n
