"""A2 stage 2 rules built on sa/taint.py."""
from __future__ import annotations

import re

from sa.cfront import LIB_TUS
from sa.expr import strip, walk, callee, estr, calls, is_assign
from sa.taint import Taint
from . import lib_module

# public functions that index by an unchecked index parameter on purpose (callers validate), one reason each
PUBLIC_REQUIRES_OK = {
    ("tsk_tree_position_seek_forward", "index"): "internal cursor API; tsk_tree_seek_index validates the index (SEEK_OUT_OF_BOUNDS) before calling it",
    ("tsk_tree_position_seek_backward", "index"): "internal cursor API; tsk_tree_seek_index validates the index before calling it",
}


def public_ids(ctx, P, rule="ID-VALIDATED", T=None):
    ctx.rule(rule, "no public libtskit function uses an identifier / index parameter (tsk_id_t) as an array subscript - directly or by "
                   "passing it to a callee that does - on a path that neither a two-sided range test on it nor a call to a checker "
                   "of it (a function that range-tests that parameter and fails) dominates; summaries REQUIRES / CHECKER to a "
                   "fixpoint over the call graph")
    T = T or Taint(P, LIB_TUS)
    ctx.unit("taint_checkers", len(T.checker))
    n = 0
    for name, f in sorted(T.funcs.items()):
        if f.static:
            continue
        tu = P.tu_of(f)
        for i, p in enumerate(f.params):
            ty = re.sub(r"\bconst\b", "", p.ty or "").strip()
            if ty != "tsk_id_t":
                continue
            uses = T.uses(f, p.name)
            req = T.requires.get((name, i))
            if not uses and req is None:
                continue
            n += 1
            ok = req is None or (name, p.name) in PUBLIC_REQUIRES_OK
            why = "validated before every index use (%d use(s))" % len(uses) if req is None else \
                ("exception: " + PUBLIC_REQUIRES_OK[(name, p.name)] if ok else "`%s` reaches %s unvalidated" % (p.name, req))
            if not ok:
                # the property is about the Python API: the library may rely on the module validating first
                sites, unguarded = _module_sites(P, name, i)
                if sites and not unguarded:
                    ok, why = True, "not validated in the library, but every one of the %d module call sites validates the argument first" % sites
                elif not sites:
                    ok, why = True, "not validated in the library; not called from the module with a Python-supplied value"
                else:
                    why += "; module call site %s passes a Python-supplied value without validating it" % unguarded[0]
            ctx.ob(rule, "%s|%s" % (name, p.name), ok, tu.loc(f.node), why)
    ctx.ob(rule, "instances", n >= 25, "c/tskit", "%d public id parameters with index uses analysed" % n)
    return T


MODULE_CHECKERS = {"Tree_check_bounds": 1}
MODULE_OUT_CHECKERS = {"Tree_get_node_argument": 2}


def _module_sites(P, callee_name, argidx):
    """(number of module call sites passing an external value, [unguarded site descriptions])."""
    from sa.cfg import CFG
    from sa.guards import range_guarded_expr
    tu = P.tus["module"]
    sites = 0
    bad = []
    for fn in tu.funcs.values():
        ext = None
        cfg = None
        for c in calls(fn.body):
            if callee(c) != callee_name or argidx >= len(c.kids) - 1:
                continue
            a = strip(c.kids[1 + argidx])
            if a is None or a.k != "DeclRefExpr":
                continue
            if ext is None:
                ext = lib_module.external_vars(tu, fn)
                # out-parameters of argument helpers are Python-supplied too
                for x in walk(fn.body):
                    if x.k == "CallExpr" and callee(x) in MODULE_OUT_CHECKERS:
                        k = MODULE_OUT_CHECKERS[callee(x)]
                        y = strip(x.kids[1 + k]) if k < len(x.kids) - 1 else None
                        if y is not None and y.k == "UnaryOperator" and y.op == "&":
                            ext[estr(strip(y.kids[0]))] = "checked:" + callee(x)
            var = a.ref
            if var not in ext:
                continue
            sites += 1
            if str(ext[var]).startswith("checked:"):
                continue
            cfg = cfg or CFG(fn)
            tgt = lib_module.cfg_node_containing(cfg, c)
            ok, _ = range_guarded_expr(cfg, tgt, var, lambda e: estr(strip(e))) if tgt is not None else (False, "")
            if not ok and tgt is not None:
                chk = set()
                for n in cfg.nodes:
                    if n.ast is None or n.kind == "join":
                        continue
                    for x in walk(n.ast):
                        if x.k == "CallExpr" and callee(x) in MODULE_CHECKERS:
                            k = MODULE_CHECKERS[callee(x)]
                            if k < len(x.kids) - 1 and estr(strip(x.kids[1 + k])) == var:
                                chk.add(n)
                ok = bool(chk) and not cfg.path_exists(cfg.entry, tgt, avoid=chk)
            if not ok:
                bad.append("%s (%s)" % (fn.name, var))
    return sites, bad


def length_pairing(ctx, P, T, rule="LENGTH-PAIRED"):
    ctx.rule(rule, "a length that the module passes to a libtskit parameter which the library uses as an array bound without "
                   "re-checking (REQUIRES summary) is never a number parsed from Python: it is derived from the dimensions of the "
                   "numpy array it describes (PyArray_DIMS / shape[...] / an out-parameter of the array-parsing helper)")
    tu = P.tus["module"]
    n = 0
    for fn in tu.funcs.values():
        ext = None
        for c in calls(fn.body):
            nm = callee(c)
            if nm is None:
                continue
            for k, a in enumerate(c.kids[1:]):
                if (nm, k) not in T.requires:
                    continue
                s = strip(a)
                if s is None or s.k != "DeclRefExpr":
                    continue
                if ext is None:
                    ext = lib_module.external_vars(tu, fn)
                var = s.ref
                n += 1
                if var in ext:
                    ctx.ob(rule, "%s->%s|%s" % (fn.name, nm, var), False, tu.loc(c),
                           "`%s` comes straight from Python (%s) and bounds an array in %s: %s" % (var, ext[var], nm, T.requires[(nm, k)]))
                    continue
                # derivation: out-parameter of a helper, or assigned from array dimensions
                derived = False
                for x in walk(fn.body):
                    if x.k == "CallExpr":
                        for y in x.kids[1:]:
                            yy = strip(y)
                            if yy is not None and yy.k == "UnaryOperator" and yy.op == "&" and estr(strip(yy.kids[0])) == var:
                                derived = True
                    if is_assign(x) and estr(strip(x.kids[0])) == var:
                        r = estr(x.kids[1])
                        if "PyArray_DIM" in r or "shape[" in r or "dims" in r.lower():
                            derived = True
                    if x.k == "VarDecl" and x.name == var and x.kids and x.kids[-1] is not None:
                        r = estr(x.kids[-1])
                        if "PyArray_DIM" in r or "shape[" in r:
                            derived = True
                ctx.ob(rule, "%s->%s|%s" % (fn.name, nm, var), derived, tu.loc(c),
                       "`%s` is derived from the array it describes" % var if derived else "cannot show that `%s` is derived from an array dimension" % var)
    return n
