"""Shared rules over python/_tskitmodule.c."""
from __future__ import annotations

import re

from sa.cfg import CFG
from sa.expr import strip, walk, callee, estr, const_int, is_assign
from sa import modinfo

WIDE = ("long", "long long", "unsigned long", "unsigned long long")
NARROW_T = {"int": (-(2 ** 31), 2 ** 31 - 1), "unsigned int": (0, 2 ** 32 - 1), "short": (-32768, 32767),
            "signed char": (-128, 127), "unsigned char": (0, 255), "char": (-128, 127), "unsigned short": (0, 65535)}
PYLONG = ("PyLong_AsLong", "PyLong_AsLongLong", "PyLong_AsSsize_t", "PyLong_AsUnsignedLong",
          "PyLong_AsUnsignedLongLong", "PyNumber_AsSsize_t")

# function -> reason.  The cast is unguarded in C but the public facade validates first;
# the facade guard is itself an obligation on the Python side (rule PY-FACADE-GUARD).
NARROW_FACADE = {
    "IndividualTable_get_row": ("tables", "BaseTable.__getitem__"),
    "NodeTable_get_row": ("tables", "BaseTable.__getitem__"),
    "EdgeTable_get_row": ("tables", "BaseTable.__getitem__"),
    "MigrationTable_get_row": ("tables", "BaseTable.__getitem__"),
    "SiteTable_get_row": ("tables", "BaseTable.__getitem__"),
    "MutationTable_get_row": ("tables", "BaseTable.__getitem__"),
    "PopulationTable_get_row": ("tables", "BaseTable.__getitem__"),
    "ProvenanceTable_get_row": ("tables", "BaseTable.__getitem__"),
    "Tree_map_mutations": ("trees", "Tree.map_mutations"),
}


def external_vars(tu, fn):
    """Locals of fn whose value comes straight from Python objects: PyArg destinations and PyLong_As* results."""
    ext = {}
    for pc in modinfo.parse_calls(tu, fn):
        slots, _ = modinfo.dest_slots(pc)
        for u, ds in slots:
            for d in ds:
                v = modinfo.dest_var(d)
                if v:
                    ext[v] = "PyArg '%s'" % u
    for x in walk(fn.body):
        rhs = None
        name = None
        if is_assign(x):
            l = strip(x.kids[0])
            if l is not None and l.k == "DeclRefExpr":
                name, rhs = l.ref, x.kids[1]
        elif x.k == "VarDecl" and x.kids:
            name, rhs = x.name, x.kids[-1]
        if rhs is not None:
            r = strip(rhs)
            if r is not None and r.k == "CallExpr" and callee(r) in PYLONG:
                ext[name] = callee(r)
    return ext


def _rel_atom(node, var):
    """If cond node compares `var` relationally, return (op_normalised_with_var_on_left, other_node)."""
    n = strip(node, casts=False)
    if n is None or n.k != "BinaryOperator" or n.op not in ("<", "<=", ">", ">="):
        return None
    l, r = strip(n.kids[0]), strip(n.kids[1])
    flip = {"<": ">", ">": "<", "<=": ">=", ">=": "<="}
    if l is not None and l.k == "DeclRefExpr" and l.ref == var:
        return n.op, r
    if r is not None and r.k == "DeclRefExpr" and r.ref == var:
        return flip[n.op], l
    return None


def range_guarded(cfg, target, var, limits=None):
    """True iff every path entry -> target establishes both a lower and an upper bound on var
    (in var's own wide type) through relational tests.  Returns (ok, why)."""
    lower_ok, upper_ok = set(), set()
    for n in cfg.nodes:
        if n.kind != "cond":
            continue
        at = _rel_atom(n.ast, var)
        if at is None:
            continue
        op, other = at
        c = const_int(other)
        for s, lab in n.succ:
            if op in ("<", "<="):
                if lab is True:
                    if limits is None or c is None or c - (1 if op == "<" else 0) <= limits[1]:
                        upper_ok.add((n, s))
                elif lab is False:
                    if limits is None or c is None or c + (1 if op == "<=" else 0) >= limits[0]:
                        lower_ok.add((n, s))
            else:
                if lab is True:
                    if limits is None or c is None or c + (1 if op == ">" else 0) >= limits[0]:
                        lower_ok.add((n, s))
                elif lab is False:
                    if limits is None or c is None or c - (1 if op == ">=" else 0) <= limits[1]:
                        upper_ok.add((n, s))
    lo = not cfg.path_exists(cfg.entry, target, avoid_edge=lambda a, b, lab: (a, b) in lower_ok)
    hi = not cfg.path_exists(cfg.entry, target, avoid_edge=lambda a, b, lab: (a, b) in upper_ok)
    if lo and hi:
        return True, "both bounds tested in the wide type on every path"
    miss = [w for w, ok in (("lower", lo), ("upper", hi)) if not ok]
    return False, "no %s-bound test of `%s` in its wide type dominates the cast" % ("/".join(miss), var)


def cfg_node_containing(cfg, node):
    for n in cfg.nodes:
        if n.ast is None or n.kind == "join":
            continue
        for x in walk(n.ast):
            if x is node:
                return n
    return None


def narrowing(ctx, P, rule="NARROW"):
    """C09.8: a Python-supplied 64-bit integer is range-checked in the wide type before it is narrowed."""
    ctx.rule(rule, "every cast of a Python-supplied 64-bit integer (PyArg destination / PyLong_As* result) to a 32-bit type "
                   "is dominated by lower and upper range tests on the wide value, or goes through tsk_id_converter")
    tu = P.tus["module"]
    facade_needed = set()
    for fn in tu.funcs.values():
        ext = None
        cfg = None
        for n in walk(fn.body):
            if n.k != "CStyleCastExpr":
                continue
            tgt = n.dty or n.ty or ""
            if tgt not in NARROW_T:
                continue
            src = n.kids[-1]
            sty = (src.dty or src.ty or "") if src is not None else ""
            if sty not in WIDE:
                continue
            s = strip(src)
            if ext is None:
                ext = external_vars(tu, fn)
            var = None
            origin = None
            if s is not None and s.k == "DeclRefExpr" and s.ref in ext:
                var, origin = s.ref, ext[s.ref]
            elif s is not None and s.k == "CallExpr" and callee(s) in PYLONG:
                origin = callee(s)
            else:
                continue
            key = "%s|(%s)%s" % (fn.name, n.ty, estr(src))
            where = tu.loc(n)
            if var is None:
                ok, why = False, "result of %s narrowed to %s with no possibility of a range test" % (origin, n.ty)
            else:
                if cfg is None:
                    cfg = CFG(fn)
                tnode = cfg_node_containing(cfg, n)
                if tnode is None:
                    ok, why = False, "cast not located in CFG"
                else:
                    ok, why = range_guarded(cfg, tnode, var, NARROW_T[tgt])
            if not ok and fn.name in NARROW_FACADE:
                facade_needed.add(fn.name)
                ctx.ob(rule, key, True, where, "unguarded in C; public facade %s.%s validates first (rule PY-FACADE-GUARD)"
                       % NARROW_FACADE[fn.name])
                continue
            ctx.ob(rule, key, ok, where, "%s (%s): %s" % (var or origin, origin, why))
    return facade_needed


# =============================================================================================
from sa.expr import callname, macro_args, calls  # noqa: E402


def _node_of(cfg, ast):
    for n in cfg.nodes:
        if n.ast is None or n.kind == "join":
            continue
        for x in walk(n.ast):
            if x is ast:
                return n
    return None


def array_flags(ctx, P, rule="ARRAY-FLAGS", floor=60, only=None):
    """Every numpy conversion whose buffer is read as a dense C array requests a C-contiguous, aligned array."""
    ctx.rule(rule, "every PyArray_FROMANY / PyArray_FromAny / PyArray_FROM_OTF conversion in the module (and the lwt header) "
                   "passes NPY_ARRAY_IN_ARRAY (C-contiguous + aligned): PyArray_DATA of the result is read as a dense buffer")
    tu = P.tus["module"]
    n = 0
    for fn in tu.funcs.values():
        if only is not None and not only(fn.name):
            continue
        k = 0
        for c in calls(fn.body):
            nm = callname(c)
            if nm not in ("PyArray_FROMANY", "PyArray_FromAny", "PyArray_FROM_OTF", "PyArray_FROM_OF", "PyArray_FROMANY_"):
                continue
            a = macro_args(tu.src(c))
            flags = {"PyArray_FROMANY": 4, "PyArray_FromAny": 4, "PyArray_FROM_OTF": 2, "PyArray_FROM_OF": 1}.get(nm, 4)
            ftxt = a[flags] if len(a) > flags else ""
            ok = "NPY_ARRAY_IN_ARRAY" in ftxt or ("NPY_ARRAY_C_CONTIGUOUS" in ftxt and "NPY_ARRAY_ALIGNED" in ftxt) \
                or "NPY_ARRAY_INOUT_ARRAY" in ftxt or "NPY_ARRAY_CARRAY" in ftxt
            forced = "FORCECAST" in ftxt
            ctx.ob(rule, "%s@%d" % (fn.name, k), ok and not forced, tu.loc(c), "%s(..., %s)" % (nm, ftxt) if not forced else
                   "%s(..., %s): NPY_ARRAY_FORCECAST converts out-of-range and fractional values silently instead of refusing them" % (nm, ftxt))
            k += 1
            n += 1
    ctx.floor(rule, floor if only is None else 1)
    return n


def setvbuf_before_load(ctx, P, rule="STREAM-UNBUFFERED"):
    ctx.rule(rule, "in TreeSequence_load and TableCollection_load, setvbuf(file, NULL, _IONBF, 0) is executed (and its result "
                   "tested) on every path to the *_loadf call, so a load consumes exactly one stored object from a stream")
    tu = P.tus["module"]
    for fname, loadf in (("TableCollection_load", "tsk_table_collection_loadf"), ("TreeSequence_load", "tsk_treeseq_loadf")):
        fn = P.need(fname, "module")
        cfg = CFG(fn)
        lf = [c for c in calls(fn.body) if callee(c) == loadf]
        ctx.need(len(lf) >= 1, "%s calls %s" % (fname, loadf))
        sv = [c for c in calls(fn.body) if callee(c) == "setvbuf"]
        ok = False
        why = "no setvbuf call"
        for s in sv:
            a = [estr(x) for x in s.kids[1:]]
            modeok = len(a) == 4 and "_IONBF" in tu.src(s) and a[1] in ("NULL", "0", "(void *)0") or (len(a) == 4 and "_IONBF" in tu.src(s))
            sn = _node_of(cfg, s)
            ln = _node_of(cfg, lf[0])
            if sn is None or ln is None:
                continue
            if not modeok:
                why = "setvbuf mode is not _IONBF"
                continue
            file_same = estr(s.kids[1]) == estr(lf[0].kids[2])
            if not file_same:
                why = "setvbuf applied to `%s` but %s reads `%s`" % (estr(s.kids[1]), loadf, estr(lf[0].kids[2]))
                continue
            if cfg.path_exists(cfg.entry, ln, avoid={sn}):
                why = "a path reaches %s without passing setvbuf" % loadf
                continue
            ok, why = True, "setvbuf(_IONBF) dominates %s" % loadf
        ctx.ob(rule, fname, ok, tu.loc(lf[0]), why)


def bytes_length(ctx, P, rule="BYTES-LENGTH", only=None):
    ctx.rule(rule, "the module never derives the length of Python-supplied bytes with strlen()/PyBytes_AsString/PyUnicode_AsUTF8 "
                   "(binary metadata may contain NUL); lengths come from PyBytes_AsStringAndSize / s# / PyUnicode_AsUTF8AndSize")
    tu = P.tus["module"]
    bad = 0
    tot = 0
    for fn in tu.funcs.values():
        if only is not None and not only(fn.name):
            continue
        for c in calls(fn.body):
            nm = callname(c)
            if nm in ("PyBytes_AsStringAndSize", "PyUnicode_AsUTF8AndSize"):
                tot += 1
                ctx.ob(rule, "%s|%s@%d" % (fn.name, nm, tot), True, tu.loc(c), "length taken from the object")
            if nm in ("strlen", "PyBytes_AsString", "PyBytes_AS_STRING", "PyUnicode_AsUTF8", "strnlen"):
                if fn.name in STRLEN_OK:
                    ctx.ob(rule, "%s|%s" % (fn.name, nm), True, tu.loc(c), "exception: " + STRLEN_OK[fn.name])
                    continue
                if nm == "strlen":
                    # the embedded-NUL test: strlen compared (== / !=) with the size the object itself reported; the length in use
                    # is still the object's, strlen only detects that a C-string reader would stop early
                    fsrc = " ".join(tu.src(fn.body).split())
                    sizes = set(re.findall(r"(?:PyUnicode_AsUTF8AndSize|PyBytes_AsStringAndSize)\([^;]*?&\s*(\w+)\s*\)", fsrc))
                    call_txt = re.escape(" ".join(tu.src(c).split()))
                    if any(re.search(call_txt + r"\s*[!=]=\s*(\(\s*size_t\s*\)\s*)?%s\b" % v, fsrc) or
                           re.search(r"\b%s\s*[!=]=\s*(\(\s*\w+\s*\)\s*)?" % v + call_txt, fsrc) for v in sizes):
                        ctx.ob(rule, "%s|%s" % (fn.name, nm), True, tu.loc(c), "strlen only compared with the size taken from the object (embedded-NUL test)")
                        continue
                bad += 1
                ctx.ob(rule, "%s|%s" % (fn.name, nm), False, tu.loc(c),
                       "%s used on Python-supplied data: a length computed this way truncates at the first NUL byte" % nm)
    # 's'/'z'/'y' formats without '#' hand out NUL-terminated pointers with no length
    for fn in tu.funcs.values():
        if only is not None and not only(fn.name):
            continue
        for pc in modinfo.parse_calls(tu, fn):
            for u in pc.units:
                if u in ("y", "z", "s") and fn.name not in CSTR_OK:
                    # strings used as C strings (file modes, names) are fine only if never paired with a length
                    tot += 1
                    ctx.ob(rule, "%s|fmt:%s" % (fn.name, u), fn.name in CSTR_OK or u == "s", tu.loc(pc.call),
                           "format unit '%s' yields a NUL-terminated pointer without a length" % u)
    return tot


STRLEN_OK = {"write_ragged_col": "assert() on an internal key name (lwt header), not Python data"}
CSTR_OK = {}


def parsed_used(ctx, P, rule="PARSED-USED", only=None):
    ctx.rule(rule, "every variable filled by PyArg_Parse* in a module function is read afterwards (a parsed-but-unused argument "
                   "is an option the C layer silently ignores)")
    tu = P.tus["module"]
    n = 0
    for fn in tu.funcs.values():
        if only is not None and not only(fn.name):
            continue
        pcs = modinfo.parse_calls(tu, fn)
        if not pcs:
            continue
        for pc in pcs:
            slots, _ = modinfo.dest_slots(pc)
            for i, (u, ds) in enumerate(slots):
                for d in ds:
                    v = modinfo.dest_var(d)
                    if not v:
                        continue
                    if u in ("O!", "O&") and d is ds[0]:
                        continue
                    uses = 0
                    for x in walk(fn.body):
                        if x.k == "DeclRefExpr" and x.ref == v:
                            uses += 1
                    # one use is the &v in the parse call itself
                    kw = pc.kwlist[i] if pc.kwlist and i < len(pc.kwlist) else None
                    n += 1
                    ok = uses >= 2 or (fn.name, v) in PARSED_UNUSED_OK
                    ctx.ob(rule, "%s|%s" % (fn.name, v), ok, tu.loc(pc.call),
                           "argument %s%s parsed into `%s` is %s" % (i, " (%s)" % kw if kw else "", v,
                                                                   "used" if uses >= 2 else "never read afterwards"))
    return n


PARSED_UNUSED_OK = {}


def owned_arrays(ctx, P, rule="ARRAY-READONLY"):
    ctx.rule(rule, "arrays that alias library memory are created only in make_owned_array, which clears NPY_ARRAY_WRITEABLE and "
                   "sets the owner as base on every path to its success return; the same holds for every other constructor that wraps existing "
                   "memory (PyArray_SimpleNewFromData, PyArray_New / PyArray_NewFromDescr with a non-NULL data argument)")
    tu = P.tus["module"]
    users = []
    for fn in tu.funcs.values():
        for c in calls(fn.body):
            nm_ = callname(c)
            if nm_ == "PyArray_SimpleNewFromData":
                users.append((fn, c))
            elif nm_ in ("PyArray_New", "PyArray_NewFromDescr"):
                # the general constructors alias memory when their `data` argument (6th) is not NULL
                args_ = macro_args(tu.src(c)) if c.kids is None or len(c.kids) < 7 else [tu.src(a) for a in c.kids[1:]]
                if len(args_) >= 6 and args_[5].strip() not in ("NULL", "0"):
                    users.append((fn, c))
    ctx.need(len(users) >= 1, "PyArray_SimpleNewFromData is used somewhere")
    for fn, c in users:
        src = tu.src(fn.body)
        if "NPY_ARRAY_OWNDATA" in src:
            ctx.ob(rule, "%s|owns" % fn.name, True, tu.loc(c), "wraps a private buffer and enables NPY_ARRAY_OWNDATA")
            continue
        cfg = CFG(fn)
        clear = [x for x in calls(fn.body) if callname(x) == "PyArray_CLEARFLAGS" and "NPY_ARRAY_WRITEABLE" in tu.src(x)]
        base = [x for x in calls(fn.body) if callname(x) == "PyArray_SetBaseObject"]
        succ = [n for n in cfg.nodes if n.kind == "stmt" and n.ast is not None and is_assign(n.ast)
                and estr(strip(n.ast.kids[0])) == "ret" and "array" in estr(n.ast.kids[1])]
        ok1 = bool(clear) and bool(succ) and all(not cfg.path_exists(cfg.entry, s_, avoid={_node_of(cfg, clear[0])}) for s_ in succ)
        ok2 = bool(base) and bool(succ) and all(not cfg.path_exists(cfg.entry, s_, avoid={_node_of(cfg, base[0])}) for s_ in succ)
        ctx.ob(rule, "%s|CLEARFLAGS(WRITEABLE)" % fn.name, ok1, tu.loc(c), "WRITEABLE cleared on every path to the success return")
        ctx.ob(rule, "%s|SetBaseObject" % fn.name, ok2, tu.loc(c), "owner set as base on every path to the success return")
    fn = P.need("make_owned_array", "module")
    # every getter that hands out tree-sequence / tree memory goes through the factory
    n = 0
    for f in tu.funcs.values():
        for c in calls(f.body):
            nm = callee(c)
            if nm in ("make_owned_array", "TreeSequence_make_array", "Tree_make_array"):
                n += 1
    ctx.ob(rule, "factory-users", n >= 40, tu.loc(fn.node), "%d getters go through the read-only factory" % n)
    # a zero-copy view is only safe when the owner never frees or reallocates the buffer while it lives: tree sequences and the
    # per-node arrays of a Tree.  Table collections and tables reallocate on every edit: their getters must copy.
    for f in tu.funcs.values():
        for c in calls(f.body):
            if callee(c) != "make_owned_array" or f.name == "make_owned_array":
                continue
            owner_ty = (f.params[0].ty or "") if f.params else ""
            ok = re.match(r"^(TreeSequence|Tree|Variant) \*$", owner_ty) is not None
            ctx.ob(rule, "view-owner|%s" % f.name, ok, tu.loc(c),
                   "view handed out by an immutable owner (%s)" % owner_ty if ok else
                   "%s hands out a zero-copy view of memory owned by `%s`, which frees / reallocates its buffers when edited: "
                   "the array dangles after the next edit" % (f.name, owner_ty))
    return n


# =============================================================================================
import json as _json
import os as _os
from sa.guards import dnf as _dnf, intervals as _intervals, CountResolver as _CountResolver
from sa.expr import local_aliases as _local_aliases

MODULE_GUARD_TABLE = _os.path.join(_os.path.dirname(_os.path.dirname(_os.path.abspath(__file__))), "tables", "module_guards.json")
MODULE_INCLUSIVE = {
    "Tree_check_bounds": "virtual root: tree arrays have num_nodes + 1 slots",
    "IndividualTable_truncate": "truncate position in [0, num_rows]", "NodeTable_truncate": "truncate position in [0, num_rows]",
    "EdgeTable_truncate": "truncate position in [0, num_rows]", "MigrationTable_truncate": "truncate position in [0, num_rows]",
    "SiteTable_truncate": "truncate position in [0, num_rows]", "MutationTable_truncate": "truncate position in [0, num_rows]",
    "PopulationTable_truncate": "truncate position in [0, num_rows]", "ProvenanceTable_truncate": "truncate position in [0, num_rows]",
}


def module_guards(ctx, P, rule="MODULE-GUARD", freeze=False, only=None):
    ctx.rule(rule, "every range guard in the module that raises ValueError/IndexError and whose upper bound denotes a row / node / "
                   "sample count accepts exactly [0, count) (count itself only at the frozen position / virtual-root guards), has "
                   "a lower bound unless the subject is unsigned, and every guard confirmed by reading is still present")
    R = _CountResolver(P)
    tu = P.tus["module"]
    seen = {}
    for fn in tu.funcs.values():
        if only is not None and not only(fn.name):
            continue
        al = None
        for n in walk(fn.body):
            if n.k != "IfStmt" or len(n.kids) < 2 or n.kids[1] is None:
                continue
            then = n.kids[1]
            raises = [c for c in calls(then) if callee(c) in ("PyErr_SetString", "PyErr_Format", "handle_library_error")]
            if not raises or len(tu.src(then)) > 400:
                continue
            al = al or _local_aliases(fn)
            ivs = _intervals(_dnf(n.kids[0], al))
            for subj, iv in sorted(ivs.items()):
                if iv.hi is None:
                    continue
                cls = R.classify(iv.hi[1], fn)
                if cls is None:
                    continue
                tbl, k = cls
                total = k + iv.hi[2]
                seen[fn.name] = seen.get(fn.name, 0) + 1
                key = "%s|%s" % (fn.name, subj)
                if total == 0:
                    ok, why = True, "accepts [.., count(%s))" % tbl
                elif total == 1 and fn.name in MODULE_INCLUSIVE:
                    ok, why = True, "inclusive: " + MODULE_INCLUSIVE[fn.name]
                else:
                    ok, why = False, "accepts %s == count(%s)%s: one past the last valid index" % (subj, tbl, "" if total == 1 else "%+d" % (total - 1))
                if ok and iv.lo is None:
                    uns = iv.hi_atom is not None and iv.hi_atom.ln is not None and (
                        "unsigned" in (iv.hi_atom.ln.dty or "") or (iv.hi_atom.ln.ty or "") in ("tsk_size_t", "size_t", "uint32_t", "unsigned int"))
                    if not uns:
                        ok, why = False, "no lower bound on signed `%s`" % subj
                if ok:
                    # the index is then handed to an accessor of the SAME table
                    sname = re.sub(r"^\(\w+\)", "", subj)
                    for c in calls(fn.body):
                        m_ = re.fullmatch(r"tsk_treeseq_get_(node|edge|migration|site|mutation|individual|population|provenance)", callee(c) or "")
                        if not m_:
                            continue
                        if any(re.sub(r"^\(\w+\)\s*", "", estr(a)) == sname for a in c.kids[2:3]):
                            want_tbl = m_.group(1) + "s"
                            if want_tbl != tbl:
                                ok, why = False, "`%s` is range-checked against count(%s) but then passed to %s" % (subj, tbl, callee(c))
                ctx.ob(rule, key, ok, tu.loc(n), why)
    if freeze:
        with open(MODULE_GUARD_TABLE, "w") as fh:
            _json.dump({"comment": "module range guards confirmed by reading; count per function", "guards": seen}, fh, indent=1, sort_keys=True)
        return seen
    with open(MODULE_GUARD_TABLE) as fh:
        frozen = _json.load(fh)["guards"]
    for fname, cnt in sorted(frozen.items()):
        if only is not None and not only(fname):
            continue
        have = seen.get(fname, 0)
        ctx.ob(rule + "-PRESENT", fname, have >= cnt, "python/_tskitmodule.c (%s)" % fname, "%d count-bounded guard(s) (confirmed %d)" % (have, cnt))
    ctx.rule(rule + "-PRESENT", "every module range guard confirmed by reading (tables/module_guards.json) is still present")
    return seen


# =============================================================================================
OPTIONS_TABLE = _os.path.join(_os.path.dirname(_os.path.dirname(_os.path.abspath(__file__))), "tables", "options.json")
NEG_TOKENS = ("_NO_", "_NOT_", "NONCENTRED", "KEEP_UNREFERENCED", "NO_CHANGE")


def extract_options(P):
    from sa.schema import Facts
    tu = P.tus["module"]
    out = {}
    for fn in tu.funcs.values():
        pcs = modinfo.parse_calls(tu, fn)
        if not pcs:
            continue
        F = Facts(P, fn)
        var2kw = {}
        for pc in pcs:
            slots, _ = modinfo.dest_slots(pc)
            for i, (u, ds) in enumerate(slots):
                v = modinfo.dest_var(ds[-1]) if ds else None
                if v:
                    var2kw[v] = (pc.kwlist[i] if pc.kwlist and i < len(pc.kwlist) else "arg%d" % i, u)
        defaults = {}
        for x in walk(fn.body):
            if x.k == "VarDecl" and x.name in var2kw and x.kids and x.kids[-1] is not None:
                defaults[x.name] = estr(x.kids[-1])
        for l, o, r, n in F.assigns:
            if o == "|=" and l.endswith("options"):
                ifs = [i for i, br in F.enclosing_ifs(n)]
                if not ifs:
                    continue
                c = estr(ifs[0].kids[0])
                neg = c.startswith("!")
                var = c.lstrip("!").strip("()")
                if var in var2kw:
                    out.setdefault(fn.name, []).append({"kw": var2kw[var][0], "flag": r, "negated": neg, "default": defaults.get(var),
                                                        "_node": n})
                else:
                    out.setdefault(fn.name, []).append({"kw": None, "cond": c, "flag": r, "negated": neg, "default": None, "_node": n})
    return out


def options_plumbing(ctx, P, funcs=None, rule="OPTION-PLUMBING", freeze=False):
    ctx.rule(rule, "each boolean keyword of a module method reaches exactly its library flag with the frozen polarity (table of public "
                   "API facts tables/options.json): keyword -> destination variable -> `if ([!]var) options |= FLAG`; negation parity "
                   "agrees with the flag's sense (NO_/NOT_/KEEP_UNREFERENCED flags are set when the keyword is false) and with the C default")
    got = extract_options(P)
    tu = P.tus["module"]
    if freeze:
        data = {f: [{k: v for k, v in e.items() if not k.startswith("_")} for e in es] for f, es in got.items()}
        with open(OPTIONS_TABLE, "w") as fh:
            _json.dump({"comment": "keyword -> flag plumbing of module methods, confirmed by reading against the flag doc comments",
                        "methods": data}, fh, indent=1, sort_keys=True)
        return got
    with open(OPTIONS_TABLE) as fh:
        frozen = _json.load(fh)["methods"]
    for fname, ents in sorted(frozen.items()):
        if funcs is not None and fname not in funcs:
            continue
        cur = got.get(fname, [])
        fn = tu.funcs.get(fname)
        if fn is None:
            ctx.ob(rule, fname, False, "python/_tskitmodule.c", "method %s no longer exists" % fname)
            continue
        for e in ents:
            if e.get("kw") is None:
                continue
            m = [c for c in cur if c.get("kw") == e["kw"]]
            key = "%s|%s" % (fname, e["kw"])
            if not m:
                ctx.ob(rule, key, False, tu.loc(fn.node), "keyword `%s` no longer sets any flag (expected %s%s)" % (e["kw"], "!" if e["negated"] else "", e["flag"]))
                continue
            c = m[0]
            ok = c["flag"] == e["flag"] and c["negated"] == e["negated"] and len(m) == 1
            why = "`%s` -> %s%s" % (e["kw"], "!" if c["negated"] else "", c["flag"])
            if not ok:
                why += " (expected %s%s)" % ("!" if e["negated"] else "", e["flag"])
            # sense parity, independent of the table
            sense_neg = any(t in c["flag"] for t in NEG_TOKENS)
            if ok and sense_neg != c["negated"] and (fname, e["kw"]) not in SENSE_OK:
                ok = False
                why += ": polarity contradicts the flag's sense"
            if ok and c.get("default") is not None and e.get("default") is not None and c["default"] != e["default"]:
                ok = False
                why += ": C default changed from %s to %s" % (e["default"], c["default"])
            ctx.ob(rule, key, ok, tu.loc(c["_node"]), why)
            # independence: the test of one keyword is not the `else` of another's (`if (!a) {..} else if (!b) {..}` loses b's flag
            # whenever a's is set)
            par = {}
            for x_ in walk(fn.body):
                for k_ in (x_.kids or []):
                    if k_ is not None:
                        par[id(k_)] = x_
            node = c["_node"]
            dep = None
            cur_ = node
            while id(cur_) in par:
                p_ = par[id(cur_)]
                if p_.k == "IfStmt" and len(p_.kids) > 2 and p_.kids[2] is cur_:
                    dep = p_
                    break
                cur_ = p_
            ctx.ob(rule, key + "|independent", dep is None, tu.loc(node),
                   "`%s` is tested on its own" % e["kw"] if dep is None else
                   "the flag of `%s` is set only in the else-branch of `if (%s)`: it is lost whenever that test holds"
                   % (e["kw"], " ".join(tu.src(dep.kids[0]).split())[:40]))
    # new option-setting code not in the table is analysed for sense parity only
    for fname, es in got.items():
        if funcs is not None and fname not in funcs:
            continue
        known = {e.get("kw") for e in frozen.get(fname, [])}
        for c in es:
            if c.get("kw") and c["kw"] not in known:
                sense_neg = any(t in c["flag"] for t in NEG_TOKENS)
                ctx.ob(rule, "%s|%s|new" % (fname, c["kw"]), sense_neg == c["negated"], tu.loc(c["_node"]),
                       "new keyword `%s` -> %s%s" % (c["kw"], "!" if c["negated"] else "", c["flag"]))
    return got


SENSE_OK = set()


# =============================================================================================
UNSIGNED_T = ("tsk_flags_t", "uint32_t", "unsigned int", "tsk_size_t", "size_t", "uint64_t", "unsigned long", "unsigned long long")
SIGNED_UNITS = {"i", "l", "h", "b", "L", "n"}
UNSIGNED_UNITS = {"I", "k", "K", "B", "H"}
ARG_CTYPE = {"i": ("int", "unsigned int", "tsk_id_t", "int32_t"), "I": ("unsigned int", "uint32_t", "tsk_flags_t", "int", "tsk_id_t"),
             "n": ("Py_ssize_t", "long", "ssize_t"), "d": ("double",),
             "f": ("float",), "l": ("long",), "L": ("long long",), "k": ("unsigned long",), "K": ("unsigned long long",), "p": ("int",),
             "s": ("char *", "const char *"), "z": ("char *", "const char *"), "O": ("PyObject *",)}


BUILD_SIGN_OK = {("Tree_get_options", "i"): "tree option bits are all below 2^31", ("Tree_copy", "i"): "tree option bits are all below 2^31"}


# (function, variable): unchecked unsigned units confirmed by reading to carry no caller-supplied value
UNCHECKED_UNIT_OK = {("Tree_init", "options"),      # the option word tskit.Tree composes itself from its boolean arguments
                     }


def _used_as_index(P, tu, fn, var, depth=0):
    """Why `var` is an identifier / index in fn: range-compared, cast or passed as tsk_id_t, bounds-checked, or used as a subscript."""
    bare = var.lstrip("*")
    def is_var(n):
        n = strip(n)
        return n is not None and estr(n) in (var, bare, "(%s)" % var)
    for x in walk(fn.body):
        if x.k == "BinaryOperator" and x.op in ("<", "<=", ">", ">=") and (is_var(x.kids[0]) or is_var(x.kids[1])):
            return "range-tested: `%s`" % " ".join(tu.src(x).split())[:50]
        if x.k == "ArraySubscriptExpr" and is_var(x.kids[1]):
            return "used as a subscript"
        if x.k in ("CStyleCastExpr",) and (x.ty or "") == "tsk_id_t" and is_var(x.kids[0]):
            return "cast to tsk_id_t"
        if x.k == "CallExpr":
            nm = callee(x) or ""
            for j, a in enumerate(x.kids[1:]):
                if is_var(a):
                    if "check_bounds" in nm or "check_index" in nm:
                        return "passed to %s" % nm
                    cal = P.func(nm)
                    if cal is not None and j < len(cal.params) and (cal.params[j].ty or "") in ("tsk_id_t",):
                        return "passed as the tsk_id_t parameter %d of %s" % (j, nm)
                    loc = tu.funcs.get(nm)
                    if loc is not None and loc.body is not None and depth == 0 and j < len(loc.params) and loc.params[j].name:
                        inner = _used_as_index(P, tu, loc, loc.params[j].name, depth + 1)
                        if inner is not None:
                            return "passed to %s, where it is %s" % (nm, inner)
    return None


def format_types(ctx, P, rule="FORMAT-TYPES", only=None):
    ctx.rule(rule, "Python<->C conversions keep width and signedness: every PyArg_Parse* format unit matches the C type of its "
                   "destination (`i`->int*, `I`->unsigned 32-bit, `n`->Py_ssize_t*, `d`->double*, O!/O& with object / converter), and "
                   "every Py_BuildValue unit matches the signedness of the value's own type before any cast (tsk_flags_t and sizes "
                   "use unsigned units, so bit 31 of a flags word does not come back negative); the unsigned argument units, which CPython "
                   "converts without overflow checking, are used for option / size words only, never for a value that is then "
                   "range-tested, cast to tsk_id_t or used as an index")
    tu = P.tus["module"]
    n = 0
    for fn in tu.funcs.values():
        if only is not None and not only(fn.name):
            continue
        for pc in modinfo.parse_calls(tu, fn):
            slots, used = modinfo.dest_slots(pc)
            for i, (u, ds) in enumerate(slots):
                if u in ("O!", "O&", "O") or u.endswith("#") or not ds:
                    continue
                d = strip(ds[0])
                if d is None or d.k != "UnaryOperator" or d.op != "&":
                    continue
                ty = (strip(d.kids[0]).ty or "")
                dty = (strip(d.kids[0]).dty or ty)
                want = ARG_CTYPE.get(u)
                if want is None:
                    continue
                ok = ty in want or dty in want
                n += 1
                ctx.ob(rule, "%s|arg%d:%s" % (fn.name, i, u), ok, tu.loc(pc.call), "format `%s` fills a `%s`" % (u, ty))
            # the unsigned units convert WITHOUT overflow checking (CPython: "I", "k", "K", "H", "B"): 2**32 + 1 becomes 1.  Fine for
            # option words; an identifier or index parsed that way accepts huge values as small ones
            for i, (u, ds) in enumerate(slots):
                if u not in ("I", "k", "K", "H", "B") or not ds:
                    continue
                d = strip(ds[0])
                if d is None:
                    continue
                var = estr(strip(d.kids[0])) if (d.k == "UnaryOperator" and d.op == "&") else "*" + estr(d)
                why = _used_as_index(P, tu, fn, var)
                if why is None:
                    # a QUANTITY (anything but a word of option bits) must not be reduced modulo 2^32 either: the unchecked unit
                    # is acceptable only for a destination that is used as a flags word
                    dty = (strip(d.kids[0]).ty or "") if (d.k == "UnaryOperator" and d.op == "&") else ""
                    if (fn.name, var) not in UNCHECKED_UNIT_OK:
                        why = "a caller-supplied `%s` (the module parses every other unsigned argument through uint32_converter, which refuses negative and >= 2**32 values)" % (dty or "?")
                n += 1
                ctx.ob(rule, "%s|arg%d:%s|unchecked" % (fn.name, i, u), why is None, tu.loc(pc.call),
                       "format `%s` (no overflow check) fills `%s`, an option / size word" % (u, var) if why is None else
                       "format `%s` converts without overflow checking, and `%s` is an identifier / index (%s): a value of 2**32 + k is "
                       "silently taken for k instead of being rejected" % (u, var, why))
            ctx.ob(rule, "%s|count" % fn.name, used == len(pc.dests), tu.loc(pc.call), "%d destinations for format %r" % (len(pc.dests), pc.fmt))
        k = 0
        for c in calls(fn.body):
            if callee(c) not in ("Py_BuildValue", "_Py_BuildValue_SizeT"):
                continue
            a = c.kids[1:]
            fmt = modinfo._str(a[0]) or ""
            units = [u for u in re.findall(r"[a-zA-Z]#?", fmt)]
            vals = a[1:]
            j = 0
            for u in units:
                cnt = 2 if u.endswith("#") else 1
                if j >= len(vals):
                    break
                v = vals[j]
                j += cnt
                if u[0] not in SIGNED_UNITS | UNSIGNED_UNITS:
                    continue
                inner = strip(v)          # strips casts
                ity = re.sub(r"\bconst\b", "", (inner.ty or "")).strip() if inner is not None else ""
                idty = re.sub(r"\bconst\b", "", (inner.dty or ity)).strip() if inner is not None else ""
                uns = ity in UNSIGNED_T or idty.startswith("unsigned")
                if inner is not None and inner.k in ("IntegerLiteral",):
                    continue
                ok = (uns and u[0] in UNSIGNED_UNITS) or ((not uns) and u[0] in SIGNED_UNITS)
                # sizes are routinely narrowed on purpose: (int) size with "i" is allowed for tsk_size_t counts, not for flags words
                if not ok and uns and ity in ("tsk_size_t", "size_t") and u[0] in SIGNED_UNITS:
                    ok = True
                if not ok and (fn.name, u) in BUILD_SIGN_OK:
                    ok = True
                n += 1
                ctx.ob(rule, "%s|build%d:%s" % (fn.name, k, u), ok, tu.loc(c),
                       "unit `%s` for a value of type %s" % (u, ity) if ok else
                       "unit `%s` (%s) for `%s` of type %s: the value changes sign / width on the way to Python" % (u, "signed" if u[0] in SIGNED_UNITS else "unsigned", estr(v), ity))
                k += 1
    return n


def treeseq_readonly(ctx, P, rule="TS-READONLY"):
    ctx.rule(rule, "no module function hands the tables of a live tree sequence (`…->tree_sequence->tables`) to a libtskit parameter that "
                   "is not const-qualified, and only the constructors / destructor (TreeSequence_alloc, _load, _load_tables, _dealloc "
                   "and the operations that build a *new* tree sequence) call tsk_treeseq_init / _load / _free")
    tu = P.tus["module"]
    n = 0
    for fn in tu.funcs.values():
        k = 0
        for c in calls(fn.body):
            nm = callee(c)
            if nm is None:
                continue
            for i, a in enumerate(c.kids[1:]):
                t = estr(a)
                if re.search(r"tree_sequence->tables$", t) or re.fullmatch(r"self->tree_sequence->tables", t):
                    cal = P.func(nm)
                    n += 1
                    if cal is None or i >= len(cal.params):
                        ctx.ob(rule, "%s->%s@%d" % (fn.name, nm, k), nm.startswith("Py") or nm.startswith("make_") or cal is None, tu.loc(c), "passed to %s" % nm)
                    else:
                        pty = cal.params[i].ty or ""
                        ok = "const" in pty
                        ctx.ob(rule, "%s->%s@%d" % (fn.name, nm, k), ok, tu.loc(c),
                               "tables passed to `%s` parameter %d of %s" % (pty, i, nm))
                    k += 1
            if nm in ("tsk_treeseq_init", "tsk_treeseq_load", "tsk_treeseq_loadf", "tsk_treeseq_free"):
                a0 = estr(c.kids[1])
                own = a0 in ("self->tree_sequence",)
                if own:
                    okc = fn.name in ("TreeSequence_load", "TreeSequence_load_tables", "TreeSequence_dealloc", "TreeSequence_alloc", "TreeSequence_init")
                    n += 1
                    ctx.ob(rule, "%s|%s(self->tree_sequence)" % (fn.name, nm), okc, tu.loc(c),
                           "%s re-initialises / frees the object's own tree sequence" % fn.name)
    ctx.ob(rule, "instances", n >= 3, "python/_tskitmodule.c", "%d uses of a live tree sequence's tables / lifecycle calls analysed" % n)
    return n


def flags_consumed(ctx, P, funcs=None, rule="OPTION-CONSUMED"):
    """Every flag a module method can set is tested somewhere in the library code that the method hands `options` to."""
    ctx.rule(rule, "every library flag that a module method sets from a keyword is tested (`options & FLAG`) somewhere in the call "
                   "closure of the libtskit function(s) the method passes its options to (targets of function-pointer parameters are "
                   "resolved through the method's callers): a flag nobody reads is a documented option silently ignored")
    got = extract_options(P)
    tu = P.tus["module"]
    lib = {}
    for k in ("core", "tables", "trees", "genotypes", "convert", "stats", "haplotype_matching"):
        for f in P.tus[k].funcs.values():
            lib.setdefault(f.name, (P.tus[k], f))
    closure_cache = {}

    def closure_text(name):
        if name in closure_cache:
            return closure_cache[name]
        seen, st, txt = set(), [name], []
        while st:
            n = st.pop()
            if n in seen or n not in lib:
                continue
            seen.add(n)
            t, f = lib[n]
            txt.append(t.src(f.body))
            for c in calls(f.body):
                cn = callee(c)
                if cn and cn not in seen:
                    st.append(cn)
        closure_cache[name] = "\n".join(txt)
        return closure_cache[name]
    n = 0
    for fname, ents in sorted(got.items()):
        if funcs is not None and fname not in funcs:
            continue
        fn = tu.funcs[fname]
        targets = set()
        for c in calls(fn.body):
            cn = callee(c)
            if cn and cn in lib and any("options" in estr(a) for a in c.kids[1:]):
                targets.add(cn)
            if cn is None:
                f0 = strip(c.kids[0])
                if f0 is not None and f0.k == "DeclRefExpr" and f0.refkind == "ParmVarDecl":
                    idx = [j for j, p in enumerate(fn.params) if p.name == f0.ref]
                    for g in tu.funcs.values():
                        for cc in calls(g.body):
                            if callee(cc) == fname and idx and idx[0] < len(cc.kids) - 1:
                                a = strip(cc.kids[1 + idx[0]])
                                if a is not None and a.k == "DeclRefExpr" and a.refkind == "FunctionDecl":
                                    targets.add(a.ref)
        if not targets:
            continue
        for e in ents:
            flag = e["flag"]
            users = [tgt for tgt in sorted(targets) if re.search(r"&\s*\(?[^;]*\b%s\b" % re.escape(flag), closure_text(tgt)) is not None]
            n += 1
            # a generic method serves several statistics: the keyword must matter for at least one of them
            ok = bool(users) or (fname, flag) in FLAG_UNUSED_OK
            ctx.ob(rule, "%s|%s" % (fname, flag), ok, tu.loc(fn.node),
                   "%s is tested in the closure of %s" % (flag, users[:3]) if users else
                   "%s can be set by %s but nothing reachable from %s tests it: the option has no effect" % (flag, fname, sorted(targets)[:4]))
    return n


FLAG_UNUSED_OK = {}


NAME_CLASSES = {
    # python class -> (libtskit function prefixes, struct whose members the accessors expose)
    "Tree": (("tsk_tree_",), "tsk_tree_t"),
    "TreeSequence": (("tsk_treeseq_",), "tsk_treeseq_t"),
    "Variant": (("tsk_variant_",), "tsk_variant_t"),
    "TableCollection": (("tsk_table_collection_",), "tsk_table_collection_t"),
    "IdentitySegments": (("tsk_identity_segments_",), "tsk_identity_segments_t"),
    "LdCalculator": (("tsk_ld_calc_",), "tsk_ld_calc_t"),
}
for _t in ("individual", "node", "edge", "migration", "site", "mutation", "population", "provenance"):
    NAME_CLASSES[_t.capitalize() + "Table"] = (("tsk_%s_table_" % _t,), "tsk_%s_table_t" % _t)
TABLE_CLASSES = tuple(k for k in NAME_CLASSES if k.endswith("Table"))


# python name -> the libtskit operations the module composes it from instead of the same-named function (confirmed by reading)
NAME_ALTERNATES = {"set_columns": ("clear", "append_columns")}


def name_agreement(ctx, P, classes=("Tree",), rule="MODULE-NAME", floor=20):
    """A method / attribute registered as `get_X`, `X` or `X_array` whose name is also the name of a libtskit accessor
    (tsk_<class>_get_X / tsk_<class>_X) or of a member of the wrapped struct must reach that accessor / member."""
    ctx.rule(rule, "every method-table / getset row of the wrapped classes whose Python name names a libtskit function "
                   "(`tsk_tree_get_X`, `tsk_tree_X`) or a member of the wrapped struct is implemented by a C function that calls "
                   "that function or reads that member (directly or through one static helper): a row wired to a sibling's "
                   "implementation returns a different view of the tree")
    tu = P.tus["module"]
    meths, getsets = modinfo.method_tables(tu)
    libfuncs = set()
    for k in P.tus:
        if k != "module":
            libfuncs |= set(P.tus[k].funcs)
    n = 0
    for cls in classes:
        prefixes, struct = NAME_CLASSES[cls]
        members = {f[0] for f in (P.structs.get(struct) or [])}
        if not members:
            ctx.need(False, "struct %s not found" % struct)
        rows = [(s, f) for s, f in meths.get(cls + "_methods", [])]
        rows += [(s, g) for s, g, _ in getsets.get(cls + "_getsetters", []) if g]
        ctx.need(bool(rows), "method table %s_methods not found" % cls)
        for pyname, cfunc in rows:
            t = re.sub(r"^get_", "", pyname)
            t = re.sub(r"_array$", "", t)
            exact = {p + pyname for p in prefixes} & libfuncs
            cands = set()
            for p in prefixes:
                cands |= {p + "get_" + t, p + t, p + t + "_from", p + t + "f"}
            exact |= {e + "f" for e in exact} & libfuncs          # FILE* variants (dumpf / loadf)
            fcands = exact or (cands & libfuncs)
            alt = NAME_ALTERNATES.get(pyname)
            mcand = t if t in members else None
            if not fcands and not mcand:
                continue
            fn = tu.funcs.get(cfunc)
            if fn is None:
                continue
            bodies, todo = [], [(fn, 0)]
            while todo:
                b, d = todo.pop()
                if b in bodies:
                    continue
                bodies.append(b)
                if d < 3:
                    for x in walk(b.body):
                        if x.k == "DeclRefExpr" and x.refkind == "FunctionDecl":
                            h = tu.funcs.get(x.ref or "")
                            if h is not None and h.static:
                                todo.append((h, d + 1))
            called, touched = set(), set()
            for b in bodies:
                for x in walk(b.body):
                    if x.k == "DeclRefExpr" and x.refkind == "FunctionDecl" and x.ref:
                        called.add(x.ref)       # called, or handed to a generic helper as the method to run
                    elif x.k == "MemberExpr" and x.name:
                        touched.add(x.name)
            ok = bool(fcands & called) or (mcand is not None and mcand in touched) or (t in touched and not (fcands & called))
            if not ok and alt and fcands:
                ok = all(any(f.replace(pyname, a) in called for f in fcands) for a in alt)
            n += 1
            want = sorted(fcands) + (["%s.%s" % (struct, mcand)] if mcand else [])
            other = sorted((called & libfuncs) | (touched & members - {"tree_sequence", "tables"}))[:6]
            ctx.ob(rule, "%s.%s" % (cls, pyname), ok, tu.loc(fn.node),
                   "%s reaches %s" % (cfunc, want) if ok else "%s is registered as `%s` but never reaches %s (it uses %s)" % (cfunc, pyname, want, other))
    ctx.floor(rule, floor)
    return n


def module_every_path(ctx, P, classes=("Tree",), rule="MODULE-EVERY-PATH", floor=5):
    """Path-sensitive companion of MODULE-NAME: a wrapper that calls its library namesake produces a result only after that call."""
    ctx.rule(rule, "a method of the wrapped classes that calls the libtskit function of the same name cannot produce a result without "
                   "it: in the wrapper's flow graph no path from the entry reaches an assignment `ret = <non-NULL>` while avoiding "
                   "every node that makes the call (an early `ret = Py_BuildValue(...)` on a fast path answers without the kernel "
                   "the other rules analyse)")
    tu = P.tus["module"]
    meths, _ = modinfo.method_tables(tu)
    libfuncs = set()
    for k in P.tus:
        if k != "module":
            libfuncs |= set(P.tus[k].funcs)
    n = 0
    for cls in classes:
        prefixes, _struct = NAME_CLASSES[cls]
        for pyname, cfunc in meths.get(cls + "_methods", []):
            t = re.sub(r"^get_", "", pyname)
            cands = set()
            for p in prefixes:
                cands |= {p + pyname, p + "get_" + t, p + t, p + pyname + "f"}
            fc = cands & libfuncs
            fn = tu.funcs.get(cfunc)
            if not fc or fn is None or fn.body is None:
                continue
            if not any(callee(c) in fc for c in calls(fn.body)):
                continue
            cfg = CFG(fn)
            cn = [x for x in cfg.nodes if x.kind in ("stmt", "cond", "switch") and x.ast is not None
                  and any(y.k == "CallExpr" and callee(y) in fc for y in walk(x.ast))]

            def produces(x):
                a = strip(x.ast) if (x.ast is not None and x.kind == "stmt") else None
                if a is None or a.k != "BinaryOperator" or a.op != "=" or estr(a.kids[0]) != "ret":
                    return False
                r = " ".join(estr(strip(a.kids[1])).split())
                return r not in ("NULL", "-1", "((void *)0)") and not r.startswith("PyErr_")
            bad = None
            for s in cfg.nodes:
                if produces(s) and cfg.path_exists(cfg.entry, s, avoid=cn):
                    bad = s
                    break
            n += 1
            ctx.ob(rule, "%s.%s" % (cls, pyname), bad is None, tu.loc(bad.ast if bad is not None else fn.node),
                   "every result of %s is produced after the call to %s" % (cfunc, sorted(fc)[0]) if bad is None else
                   "%s can set `%s` on a path that never calls %s" % (cfunc, " ".join(tu.src(bad.ast).split())[:60], sorted(fc)[0]))
    ctx.ob(rule, "instances", n >= floor, "python/_tskitmodule.c", "%d wrappers with a direct call to their library namesake" % n)
    return n
