"""Shared rules over python/_tskitmodule.c."""
from __future__ import annotations

import re

from sa.cfg import CFG
from sa.expr import strip, walk, callee, estr, const_int, is_assign
from sa import modinfo

WIDE = ("long", "long long", "unsigned long", "unsigned long long")
NARROW_T = {"int": (-(2 ** 31), 2 ** 31 - 1), "unsigned int": (0, 2 ** 32 - 1), "short": (-32768, 32767),
            "signed char": (-128, 127), "unsigned char": (0, 255), "char": (-128, 127), "unsigned short": (0, 65535)}
PYLONG = ("PyLong_AsLong", "PyLong_AsLongLong", "PyLong_AsSsize_t", "PyLong_AsUnsignedLong",
          "PyLong_AsUnsignedLongLong", "PyNumber_AsSsize_t")

# function -> reason.  The cast is unguarded in C but the public facade validates first;
# the facade guard is itself an obligation on the Python side (rule PY-FACADE-GUARD).
NARROW_FACADE = {
    "IndividualTable_get_row": ("tables", "BaseTable.__getitem__"),
    "NodeTable_get_row": ("tables", "BaseTable.__getitem__"),
    "EdgeTable_get_row": ("tables", "BaseTable.__getitem__"),
    "MigrationTable_get_row": ("tables", "BaseTable.__getitem__"),
    "SiteTable_get_row": ("tables", "BaseTable.__getitem__"),
    "MutationTable_get_row": ("tables", "BaseTable.__getitem__"),
    "PopulationTable_get_row": ("tables", "BaseTable.__getitem__"),
    "ProvenanceTable_get_row": ("tables", "BaseTable.__getitem__"),
    "Tree_map_mutations": ("trees", "Tree.map_mutations"),
}


def external_vars(tu, fn):
    """Locals of fn whose value comes straight from Python objects: PyArg destinations and PyLong_As* results."""
    ext = {}
    for pc in modinfo.parse_calls(tu, fn):
        slots, _ = modinfo.dest_slots(pc)
        for u, ds in slots:
            for d in ds:
                v = modinfo.dest_var(d)
                if v:
                    ext[v] = "PyArg '%s'" % u
    for x in walk(fn.body):
        rhs = None
        name = None
        if is_assign(x):
            l = strip(x.kids[0])
            if l is not None and l.k == "DeclRefExpr":
                name, rhs = l.ref, x.kids[1]
        elif x.k == "VarDecl" and x.kids:
            name, rhs = x.name, x.kids[-1]
        if rhs is not None:
            r = strip(rhs)
            if r is not None and r.k == "CallExpr" and callee(r) in PYLONG:
                ext[name] = callee(r)
    return ext


def _rel_atom(node, var):
    """If cond node compares `var` relationally, return (op_normalised_with_var_on_left, other_node)."""
    n = strip(node, casts=False)
    if n is None or n.k != "BinaryOperator" or n.op not in ("<", "<=", ">", ">="):
        return None
    l, r = strip(n.kids[0]), strip(n.kids[1])
    flip = {"<": ">", ">": "<", "<=": ">=", ">=": "<="}
    if l is not None and l.k == "DeclRefExpr" and l.ref == var:
        return n.op, r
    if r is not None and r.k == "DeclRefExpr" and r.ref == var:
        return flip[n.op], l
    return None


def range_guarded(cfg, target, var, limits=None):
    """True iff every path entry -> target establishes both a lower and an upper bound on var
    (in var's own wide type) through relational tests.  Returns (ok, why)."""
    lower_ok, upper_ok = set(), set()
    for n in cfg.nodes:
        if n.kind != "cond":
            continue
        at = _rel_atom(n.ast, var)
        if at is None:
            continue
        op, other = at
        c = const_int(other)
        for s, lab in n.succ:
            if op in ("<", "<="):
                if lab is True:
                    if limits is None or c is None or c - (1 if op == "<" else 0) <= limits[1]:
                        upper_ok.add((n, s))
                elif lab is False:
                    if limits is None or c is None or c + (1 if op == "<=" else 0) >= limits[0]:
                        lower_ok.add((n, s))
            else:
                if lab is True:
                    if limits is None or c is None or c + (1 if op == ">" else 0) >= limits[0]:
                        lower_ok.add((n, s))
                elif lab is False:
                    if limits is None or c is None or c - (1 if op == ">=" else 0) <= limits[1]:
                        upper_ok.add((n, s))
    lo = not cfg.path_exists(cfg.entry, target, avoid_edge=lambda a, b, lab: (a, b) in lower_ok)
    hi = not cfg.path_exists(cfg.entry, target, avoid_edge=lambda a, b, lab: (a, b) in upper_ok)
    if lo and hi:
        return True, "both bounds tested in the wide type on every path"
    miss = [w for w, ok in (("lower", lo), ("upper", hi)) if not ok]
    return False, "no %s-bound test of `%s` in its wide type dominates the cast" % ("/".join(miss), var)


def cfg_node_containing(cfg, node):
    for n in cfg.nodes:
        if n.ast is None or n.kind == "join":
            continue
        for x in walk(n.ast):
            if x is node:
                return n
    return None


def narrowing(ctx, P, rule="NARROW"):
    """C09.8: a Python-supplied 64-bit integer is range-checked in the wide type before it is narrowed."""
    ctx.rule(rule, "every cast of a Python-supplied 64-bit integer (PyArg destination / PyLong_As* result) to a 32-bit type "
                   "is dominated by lower and upper range tests on the wide value, or goes through tsk_id_converter")
    tu = P.tus["module"]
    facade_needed = set()
    for fn in tu.funcs.values():
        ext = None
        cfg = None
        for n in walk(fn.body):
            if n.k != "CStyleCastExpr":
                continue
            tgt = n.dty or n.ty or ""
            if tgt not in NARROW_T:
                continue
            src = n.kids[-1]
            sty = (src.dty or src.ty or "") if src is not None else ""
            if sty not in WIDE:
                continue
            s = strip(src)
            if ext is None:
                ext = external_vars(tu, fn)
            var = None
            origin = None
            if s is not None and s.k == "DeclRefExpr" and s.ref in ext:
                var, origin = s.ref, ext[s.ref]
            elif s is not None and s.k == "CallExpr" and callee(s) in PYLONG:
                origin = callee(s)
            else:
                continue
            key = "%s|(%s)%s" % (fn.name, n.ty, estr(src))
            where = tu.loc(n)
            if var is None:
                ok, why = False, "result of %s narrowed to %s with no possibility of a range test" % (origin, n.ty)
            else:
                if cfg is None:
                    cfg = CFG(fn)
                tnode = cfg_node_containing(cfg, n)
                if tnode is None:
                    ok, why = False, "cast not located in CFG"
                else:
                    ok, why = range_guarded(cfg, tnode, var, NARROW_T[tgt])
            if not ok and fn.name in NARROW_FACADE:
                facade_needed.add(fn.name)
                ctx.ob(rule, key, True, where, "unguarded in C; public facade %s.%s validates first (rule PY-FACADE-GUARD)"
                       % NARROW_FACADE[fn.name])
                continue
            ctx.ob(rule, key, ok, where, "%s (%s): %s" % (var or origin, origin, why))
    return facade_needed
