"""Shared rule: exactness and presence of range guards in libtskit (A2 stage 1).

For every guard whose failing branch raises an identifier/position out-of-bounds class error,
the accepted interval must equal the valid range of the table the error code names:
  [0, count(T))            for ordinary ids,
  [-1, count(T))           only at the frozen NULL-able references,
  [.., count(T)]           only at the frozen *position* guards (truncate / sorter bookmarks), and
  [0, num_nodes]           only in tsk_tree_check_node (tree arrays have num_nodes + 1 slots; the
                           allocation sizes are checked separately by rule ALLOC).
Presence: every guard instance confirmed by reading (tables/guards.json) must still exist.
"""
from __future__ import annotations

import json
import os

from sa.guards import CountResolver, find_guards, SING, TABLES
from sa.cfront import LIB_TUS

HERE = os.path.dirname(os.path.abspath(__file__))
TABLE = os.path.join(os.path.dirname(HERE), "tables", "guards.json")

ID_CODES = {"TSK_ERR_%s_OUT_OF_BOUNDS" % k.upper(): v for k, v in SING.items()}
ID_CODES["TSK_ERR_UNION_BAD_MAP"] = "nodes"
OTHER_CODES = {
    "TSK_ERR_SEEK_OUT_OF_BOUNDS": ("trees", "seqlen"),
    "TSK_ERR_POSITION_OUT_OF_BOUNDS": ("seqlen",),
    "TSK_ERR_BAD_SITE_POSITION": ("seqlen",),
    "TSK_ERR_BAD_SAMPLE_SET_INDEX": (None,),
    "TSK_ERR_BAD_GENOTYPE": (None,),
    "TSK_ERR_BAD_ANCESTRAL_STATE": (None,),
    "TSK_ERR_BAD_TABLE_POSITION": TABLES,
}

# (function, subject) -> reason : references that may be TSK_NULL (-1)
NULLABLE = {
    ("tsk_table_collection_check_node_integrity", "population"): "node.population may be TSK_NULL (data model)",
    ("tsk_table_collection_check_node_integrity", "individual"): "node.individual may be TSK_NULL (data model)",
    ("tsk_table_collection_check_mutation_integrity", "parent_mut"): "mutation.parent may be TSK_NULL (data model)",
    ("tsk_table_collection_check_individual_integrity", "self->individuals.parents[k]"): "individual parents may be TSK_NULL",
    ("tsk_table_collection_union", "other_node_mapping[k]"): "TSK_NULL marks a node of `other` that is new",
    ("tsk_treeseq_split_edges", "population"): "population argument may be TSK_NULL (documented)",
    ("tsk_tree_map_mutations", "genotypes[j]"): "TSK_MISSING_DATA (-1) is a legal genotype",
}
# (function, code) -> reason : guards that accept the count itself
INCLUSIVE = {
    ("tsk_tree_check_node", "TSK_ERR_NODE_OUT_OF_BOUNDS"):
        "virtual root: tree arrays are allocated with num_nodes + 1 elements (rule ALLOC checks the allocations)",
    ("tsk_table_sorter_run", "TSK_ERR_EDGE_OUT_OF_BOUNDS"): "bookmark is a start position in [0, num_rows]",
    ("tsk_table_sorter_run", "TSK_ERR_MIGRATION_OUT_OF_BOUNDS"): "bookmark is a start position in [0, num_rows]",
}
POSITION_CODES = {"TSK_ERR_BAD_TABLE_POSITION"}   # truncate(n): n in [0, num_rows] (size_t, so no lower atom)

# constants guards compare against, by error code
CONST_UPPER = {"TSK_ERR_BAD_GENOTYPE": "HARTIGAN_MAX_ALLELES", "TSK_ERR_BAD_ANCESTRAL_STATE": "HARTIGAN_MAX_ALLELES"}


def wanted(code):
    return code in ID_CODES or code in OTHER_CODES


def analyse(ctx, P, rule="GUARD-EXACT", funcs=None, resolver=None):
    """Check every selected guard; returns list of (fn, code) instances seen."""
    R = resolver or CountResolver(P)
    ctx.rule(rule, "accepted interval of every out-of-bounds guard == valid index range of the table its error code names "
                   "(upper bound resolved through locals, struct fields, parameters and accessors)")
    seen = {}
    for key in LIB_TUS:
        tu = P.tus[key]
        for fn in tu.funcs.values():
            if funcs is not None and fn.name not in funcs:
                continue
            for g in find_guards(P, fn, want=wanted):
                where = tu.loc(g.ifn)
                for code in sorted(g.codes):
                    if not wanted(code):
                        continue
                    seen[(fn.name, code)] = seen.get((fn.name, code), 0) + 1
                    if not g.ivs:
                        # non-relational guard (e.g. !tsk_isfinite(x)) under a range code: not an interval guard
                        ctx.ob(rule, "%s|%s|%s" % (fn.name, code, g.cond_text), True, where, "non-interval guard: " + g.cond_text)
                        continue
                    for subj, iv in sorted(g.ivs.items()):
                        k = "%s|%s|%s" % (fn.name, code, subj)
                        ok, why = verdict(fn, code, subj, iv, R)
                        ctx.ob(rule, k, ok, where, why)
    return seen


def verdict(fn, code, subj, iv, R):
    want_tbls = (ID_CODES[code],) if code in ID_CODES else OTHER_CODES[code]
    # ---- upper bound
    if iv.hi is None:
        return False, "guard for %s has no upper bound on %s" % (code, subj)
    hitext, hinode, off = iv.hi
    cls = R.classify(hinode, fn)
    if code in CONST_UPPER:
        if hitext != CONST_UPPER[code] or off != 0:
            return False, "upper bound %s%+d is not %s" % (hitext, off, CONST_UPPER[code])
    elif want_tbls == (None,):
        if off != 0:
            return False, "guard accepts %s == %s (inclusive upper bound)" % (subj, hitext)
    else:
        if cls is None:
            return False, "upper bound `%s` cannot be shown to denote a row count / length of %s" % (hitext, "/".join(map(str, want_tbls)))
        tbl, k = cls
        if tbl not in want_tbls:
            return False, "upper bound `%s` denotes count(%s) but error code %s names %s" % (hitext, tbl, code, "/".join(want_tbls))
        if code in POSITION_CODES:
            fm = fn.name.replace("tsk_", "").replace("_table_truncate", "")
            if SING.get(fm) and SING[fm] != tbl:
                return False, "truncate position compared with count(%s) in %s" % (tbl, fn.name)
        total = off + k
        incl_ok = (fn.name, code) in INCLUSIVE or code in POSITION_CODES
        if total == 0:
            pass
        elif total == 1 and incl_ok:
            pass
        else:
            return False, ("accepted range of `%s` is [.., %s%+d): it admits %s == count(%s)%s, one past the last valid index "
                           "(arrays indexed by it have count(%s) elements)" % (subj, hitext, total, subj, tbl,
                                                                               "" if total == 1 else "%+d" % (total - 1), tbl))
        if total == 0 and incl_ok and code not in POSITION_CODES and (fn.name, code) in INCLUSIVE and fn.name == "tsk_tree_check_node":
            return False, "tsk_tree_check_node must accept the virtual root (u == num_nodes)"
    # ---- lower bound
    if code in POSITION_CODES or (fn.name, code) in INCLUSIVE and fn.name == "tsk_table_sorter_run":
        return True, "position guard: accepted [0, count]"
    lo = iv.lo
    if isinstance(lo, tuple) or lo is None:
        # unsigned subjects need no lower bound
        uns = hinode is not None and iv.hi_atom is not None and is_unsigned(iv.hi_atom.ln)
        if uns:
            return True, "unsigned subject; accepted [0, %s)" % hitext
        return False, "guard for %s has no lower bound on %s" % (code, subj)
    if iv.nullable and lo == 0:
        lo_eff = -1
    else:
        lo_eff = lo
    if lo_eff == 0:
        if (fn.name, subj) in NULLABLE and not iv.nullable:
            return False, "%s may be TSK_NULL here (%s) but the guard rejects -1" % (subj, NULLABLE[(fn.name, subj)])
        return True, "accepted [0, %s)" % hitext
    if lo_eff == -1:
        if (fn.name, subj) in NULLABLE:
            return True, "accepted [-1, %s): %s" % (hitext, NULLABLE[(fn.name, subj)])
        return False, "guard accepts %s == -1 but this reference is not NULL-able" % subj
    return False, "lower bound of accepted range is %s (expected 0%s)" % (lo_eff, " or -1" if (fn.name, subj) in NULLABLE else "")


def is_unsigned(n):
    t = (n.dty or n.ty or "") if n is not None else ""
    return "unsigned" in t or t in ("tsk_size_t", "size_t", "uint64_t", "uint32_t")


def presence(ctx, seen, rule="GUARD-PRESENT", funcs=None, P=None):
    """Every guard instance frozen in tables/guards.json still exists (count per (function, code))."""
    ctx.rule(rule, "every range guard confirmed by reading (tables/guards.json) is still present in its function")
    with open(TABLE) as fh:
        frozen = json.load(fh)["guards"]
    for ent in frozen:
        fnname, code, cnt = ent["function"], ent["code"], ent["count"]
        if funcs is not None and fnname not in funcs:
            continue
        have = seen.get((fnname, code), 0)
        via = ""
        if have < cnt and P is not None:
            # a guard extracted into a static helper that the function calls still counts (one level)
            fn = P.func(fnname)
            if fn is not None:
                from sa.expr import calls as _calls, callee as _callee
                helpers = {_callee(c) for c in _calls(fn.body)}
                for h in sorted(x for x in helpers if x):
                    hf = P.func(h, fn.tu)
                    if hf is not None and hf.static and hf.tu == fn.tu:
                        extra = len([g for g in find_guards(P, hf) if code in g.codes])
                        if extra:
                            have += extra
                            via = " (incl. helper %s)" % h
        ctx.ob(rule, "%s|%s" % (fnname, code), have >= cnt, "c/tskit (%s)" % fnname,
               "%d guard(s) raising %s in %s%s (confirmed %d)" % (have, code, fnname, via, cnt))


def freeze(P):
    """(Re)generate tables/guards.json from the current tree -- run by hand, never by a check."""
    from sa.report import Ctx
    ctx = Ctx("freeze")
    seen = analyse(ctx, P)
    os.makedirs(os.path.dirname(TABLE), exist_ok=True)
    with open(TABLE, "w") as fh:
        json.dump({"comment": "range-guard instances confirmed by reading (A2 stage 1); regenerate only after reading the diff",
                   "guards": [{"function": f, "code": c, "count": n} for (f, c), n in sorted(seen.items())]}, fh, indent=1)
    return ctx


if __name__ == "__main__":
    import sys
    sys.path.insert(0, os.path.dirname(HERE))
    sys.setrecursionlimit(100000)
    from sa.cfront import Program
    c = freeze(Program())
    for o in c.obligations:
        if not o["ok"]:
            print("VIOLATED", o["k"], o["where"], o["detail"])
    print(len(c.obligations), "obligations")
