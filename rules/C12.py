"""C12 - Metadata codecs decode what they encode and honour the schema (structural clauses)."""
from __future__ import annotations

from . import lib_codec, lib_py, lib_kind, lib_kind3, lib_kind4

LEVEL = "other"
EXPLANATION = ("Sibling agreement of the struct codec's encode/decode factories (dispatch, formats, defaults, variant order), "
               "dtype table vs struct sizes, meta-schema gates at construction, validate-before-store on every row insertion path, "
               "schema string round trip by construction. Does not decide decode(encode(x)) == x for all schemas and objects.")


def run(ctx):
    py = ctx.python()
    lib_codec.codec_pairs(ctx, py)
    lib_codec.dtype_table(ctx, py)
    lib_codec.schema_gates(ctx, py)
    lib_py.validate_before_store(ctx, py)
    lib_codec.codec_defaults(ctx, py)
    lib_py.table_name_agreement(ctx, py)
    from . import scopes
    lib_py.unused_params(ctx, py, mods=("metadata",), only=scopes.py_scope("C12"))
    lib_kind.py_lints(ctx, py, mods=("metadata",), only=scopes.py_scope("C12"))
    lib_kind3.shared_instance_escape(ctx, py)
    lib_kind4.validation_bypass(ctx, py)
    # the interchange of metadata / schema bytes through dicts (asdict, pickle, copy): guards written in the glue
    P = ctx.program()
    lib_kind.length_guard(ctx, P, lambda k, f: f.startswith("write_") or f.startswith("parse_") or "metadata" in f, tus=["module"])
    from . import lib_schema
    from sa.schema import load_schemas
    lib_schema.dict_interchange(ctx, P, load_schemas(P))
