"""C10 rules: file-format robustness (kastore.c, the reader half of tables.c)."""
from __future__ import annotations

import json
import os
import re

from sa.expr import strip, walk, callee, estr, xstr, is_assign, calls, const_int, local_aliases
from sa.guards import find_guards, dnf
from sa.cfg import CFG

HERE = os.path.dirname(os.path.abspath(__file__))
INV = os.path.join(os.path.dirname(HERE), "tables", "file_guards.json")

FILE_FUNCS_TABLES = ["read_table_cols", "read_table_ragged_cols", "read_table_properties", "read_table", "check_offsets",
                     "check_ragged_column", "tsk_table_collection_read_format_data", "tsk_table_collection_load_indexes",
                     "tsk_table_collection_load_reference_sequence", "tsk_table_collection_loadf_inited", "tsk_table_collection_loadf",
                     "tsk_table_collection_load", "tsk_table_collection_takeset_indexes", "takeset_ragged_column",
                     "takeset_optional_id_column", "cast_offset_array", "tsk_set_kas_error"]


def fread_exact(ctx, P, rule="FREAD-EXACT"):
    ctx.rule(rule, "the result of every fread is compared with the number of items requested: equality with nmemb, or, when a "
                   "single item of `size` bytes is requested, a test against 0/1 -- a short read can never pass as a full one")
    tu = P.tus["kastore"]
    n = 0
    for fn in tu.funcs.values():
        k = 0
        cfg = None
        for c in calls(fn.body):
            if callee(c) != "fread":
                continue
            a = c.kids[1:]
            nmemb = estr(a[2])
            one = const_int(a[2]) == 1
            # the variable receiving the result
            var = None
            for x in walk(fn.body):
                if is_assign(x) and any(y is c for y in walk(x.kids[1])):
                    var = estr(strip(x.kids[0]))
            key = "%s@%d" % (fn.name, k)
            k += 1
            n += 1
            if var is None:
                ctx.ob(rule, key, False, tu.loc(c), "fread result not stored")
                continue
            tests = []
            for x in walk(fn.body):
                if x.k == "BinaryOperator" and x.op in ("==", "!=", "<", "<=", ">", ">=") and x.b > c.b:
                    l, r = estr(x.kids[0]), estr(x.kids[1])
                    if l == var:
                        tests.append((x.op, r))
                    elif r == var:
                        tests.append((x.op, l))
            if one:
                ok = any((op in ("==",) and r == "0") or (op in ("!=", "<") and r == "1") for op, r in tests)
                why = "one item of `%s` bytes requested; result tested %s" % (estr(a[1]), tests[:3])
            else:
                ok = any(op in ("!=", "<") and r == nmemb for op, r in tests)
                why = "%s items requested; result tested %s%s" % (nmemb, tests[:3], "" if ok else
                                                                 ": a short read of at least one item passes as complete")
            ctx.ob(rule, key, ok, tu.loc(c), why)
    ctx.floor(rule, 5)
    return n


def offsets_cover(ctx, P, rule="OFFSETS-COVER"):
    ctx.rule(rule, "check_offsets verifies offsets[0] == 0, offsets[num_rows] == length and compares every adjacent pair "
                   "(offsets[j], offsets[j+1]) for j in [0, num_rows): the loop range and subscripts together touch indexes "
                   "0 .. num_rows, so no pair is skipped")
    tu = P.tus["tables"]
    fn = P.need("check_offsets", "tables")
    al = local_aliases(fn)
    arr = fn.params[1].name
    nrows = fn.params[0].name
    loops = [x for x in walk(fn.body) if x.k == "ForStmt"]
    ok = False
    why = "no loop over the offsets"
    for lp in loops:
        kids = lp.kids + [None] * (5 - len(lp.kids))
        init, cond, inc, body = kids[0], kids[2], kids[3], kids[4]
        m = re.fullmatch(r"\((\w+) = (\d+)\)", estr(init) if init is not None else "")
        c = strip(cond)
        if not m or c is None or c.k != "BinaryOperator" or c.op not in ("<", "<="):
            continue
        j, A = m.group(1), int(m.group(2))
        if estr(c.kids[0]) != j:
            continue
        bound = estr(c.kids[1])
        bm = re.fullmatch(r"(?:\((\w+) ([+-]) (\d+)\)|(\w+))", bound)
        if not bm:
            continue
        base = bm.group(1) or bm.group(4)
        bk = (int(bm.group(3)) * (1 if bm.group(2) == "+" else -1)) if bm.group(1) else 0
        if base != nrows:
            continue
        last_j = bk - 1 if c.op == "<" else bk          # relative to num_rows
        offs = []
        for x in walk(body):
            if x.k == "ArraySubscriptExpr" and estr(x.kids[0]) == arr:
                t = estr(x.kids[1])
                mm = re.fullmatch(r"\(%s ([+-]) (\d+)\)" % j, t)
                if t == j:
                    offs.append(0)
                elif mm:
                    offs.append(int(mm.group(2)) * (1 if mm.group(1) == "+" else -1))
        cmp_ = [x for x in walk(body) if x.k == "BinaryOperator" and x.op in (">", "<", ">=", "<=")]
        if not offs or not cmp_:
            continue
        lo = A + min(offs)
        hi = last_j + max(offs)
        adj = max(offs) - min(offs) == 1
        ok = lo == 0 and hi == 0 and adj
        why = "pairs cover indexes %d .. num_rows%+d (loop %s = %d; %s %s %s; subscripts %s)" % (lo, hi, j, A, j, c.op, bound, sorted(set(offs)))
        # strictness: decreasing offsets rejected (a > b form with a earlier)
        break
    ctx.ob(rule, "check_offsets|pairs", ok, tu.loc(fn.node), why)
    src_atoms = [xstr(x, al) for x in walk(fn.body) if x.k == "BinaryOperator" and x.op == "!="]
    ctx.ob(rule, "check_offsets|first", "(%s[0] != 0)" % arr in src_atoms, tu.loc(fn.node), "offsets[0] must be 0")
    ctx.ob(rule, "check_offsets|last", any(("%s[%s] != " % (arr, nrows)) in a for a in src_atoms), tu.loc(fn.node), "offsets[num_rows] must equal the data length")


def inventory(ctx, P, rule="FILE-GUARDS", freeze=False):
    ctx.rule(rule, "every validation guard in kastore.c and in the reader half of tables.c that was confirmed by reading "
                   "(tables/file_guards.json: function, error code, count) is still present: header magic/version/num_items/"
                   "file_size, descriptor type/offset/length/packing, column type/length/offset consistency, format name/version")
    seen = {}
    for key, funcs in (("kastore", None), ("tables", set(FILE_FUNCS_TABLES))):
        tu = P.tus[key]
        for fn in tu.funcs.values():
            if funcs is not None and fn.name not in funcs:
                continue
            for g in find_guards(P, fn):
                for code in g.codes:
                    seen[(fn.name, code)] = seen.get((fn.name, code), 0) + 1
    if freeze:
        with open(INV, "w") as fh:
            json.dump({"comment": "validation guards of the file readers, confirmed by reading",
                       "guards": [{"function": f, "code": c, "count": n} for (f, c), n in sorted(seen.items())]}, fh, indent=1)
        return seen
    with open(INV) as fh:
        frozen = json.load(fh)["guards"]
    for e in frozen:
        have = seen.get((e["function"], e["code"]), 0)
        ctx.ob(rule, "%s|%s" % (e["function"], e["code"]), have >= e["count"], "(%s)" % e["function"],
               "%d guard(s) raising %s in %s (confirmed %d)" % (have, e["code"], e["function"], e["count"]))
    return seen


KAS_RAW_OK = {
    ("tsk_table_collection_loadf_inited", "kastore_close"): "close of a fully-read store: fails only if fclose of a read-only stream "
                                                            "fails; the raw code still reaches the error exit (not a success)",
}


def error_translation(ctx, P, py, rule="FILE-ERRORS"):
    ctx.rule(rule, "file-format errors become Python exceptions: handle_library_error maps the file-format codes to "
                   "FileFormatError / VersionTooOld/New and TSK_ERR_EOF to EOFError; kastore errors are converted with "
                   "tsk_set_kas_error at every kastore_* call site in tables.c")
    tu = P.tus["module"]
    fn = P.need("handle_library_error", "module")
    src = tu.src(fn.body)
    for code, exc in (("TSK_ERR_FILE_FORMAT", "TskitFileFormatError"), ("TSK_ERR_FILE_VERSION_TOO_OLD", "TskitVersionTooOldError"),
                      ("TSK_ERR_FILE_VERSION_TOO_NEW", "TskitVersionTooNewError"), ("TSK_ERR_EOF", "PyExc_EOFError"),
                      ("KAS_ERR_BAD_FILE_FORMAT", "TskitFileFormatError")):
        ok = code in src and exc in src
        ctx.ob(rule, "handle_library_error|%s" % code, ok, tu.loc(fn.node), "%s -> %s" % (code, exc))
    t = P.tus["tables"]
    for f in t.funcs.values():
        k = 0
        for c in calls(f.body):
            nm = callee(c) or ""
            if not nm.startswith("kastore_"):
                continue
            # result assigned to ret and converted
            par_assign = None
            for x in walk(f.body):
                if is_assign(x) and any(y is c for y in walk(x.kids[1])):
                    par_assign = x
            if par_assign is None:
                k += 1
                continue
            var = estr(strip(par_assign.kids[0]))
            conv = any(callee(y) == "tsk_set_kas_error" and y.b > c.b and y.b < c.b + 900 for y in calls(f.body))
            why = "kastore error converted with tsk_set_kas_error"
            if not conv and (f.name, nm) in KAS_RAW_OK:
                conv, why = True, "exception: " + KAS_RAW_OK[(f.name, nm)]
            ctx.ob(rule, "%s->%s@%d" % (f.name, nm, k), conv, t.loc(c), why)
            k += 1


def layout_agreement(ctx, P, rule="KAS-LAYOUT"):
    ctx.rule(rule, "the kastore writer and reader agree on the byte layout of the header and of an item descriptor: for every field "
                   "the (offset, size) used by memcpy in kastore_write_header / _descriptors equals the one in kastore_read_header / "
                   "_descriptors, the size equals sizeof of the field's C type, fields do not overlap and fit in the record, and "
                   "the magic is written and compared over the same 8 bytes")
    tu = P.tus["kastore"]

    def tuples(fn, buf, writing):
        out = {}
        for c in calls(fn.body):
            if callee(c) != "memcpy":
                continue
            a = c.kids[1:]
            dst, src, n = strip(a[0]), strip(a[1]), a[2]
            side, other = (dst, src) if writing else (src, dst)
            off = None
            if side is not None and side.k == "DeclRefExpr" and side.ref == buf:
                off = 0
            elif side is not None and side.k == "BinaryOperator" and side.op == "+" and estr(side.kids[0]) == buf:
                off = const_int(side.kids[1])
            if off is None:
                continue
            field = estr(other).lstrip("&")
            o = strip(other)
            ty = None
            if o is not None and o.k == "UnaryOperator" and o.op == "&":
                ty = strip(o.kids[0]).ty
            out[field] = (off, const_int(n), ty, c)
        return out
    SIZES = {"uint8_t": 1, "uint16_t": 2, "uint32_t": 4, "uint64_t": 8, "int8_t": 1, "int32_t": 4, "int64_t": 8, "size_t": 8}
    for wname, rname, buf, total in (("kastore_write_header", "kastore_read_header", "header", "KAS_HEADER_SIZE"),
                                     ("kastore_write_descriptors", "kastore_read_descriptors", "descriptor", "KAS_ITEM_DESCRIPTOR_SIZE")):
        wf, rf = P.need(wname, "kastore"), P.need(rname, "kastore")
        w, r = tuples(wf, buf, True), tuples(rf, buf, False)
        fields = sorted(set(w) | set(r))
        ctx.ob(rule, "%s|fields" % buf, set(w) - {"KAS_MAGIC"} == set(r) - {"KAS_MAGIC"} and len(r) >= 4, tu.loc(rf.node),
               "writer fields %s, reader fields %s" % (sorted(w), sorted(r)))
        spans = []
        for f in fields:
            if f == "KAS_MAGIC":
                continue
            if f in w and f in r:
                ok = w[f][:2] == r[f][:2]
                why = "%s at offset %s, %s bytes on both sides" % (f, w[f][0], w[f][1]) if ok else \
                    "%s written at (%s, %s) but read at (%s, %s)" % (f, w[f][0], w[f][1], r[f][0], r[f][1])
                ty = (w[f][2] or r[f][2] or "")
                if ok and ty in SIZES and SIZES[ty] != w[f][1]:
                    ok, why = False, "%s is a %s (%d bytes) but %s bytes are copied" % (f, ty, SIZES[ty], w[f][1])
                ctx.ob(rule, "%s|%s" % (buf, f), ok, tu.loc(r[f][3]), why)
                spans.append((w[f][0], w[f][0] + (w[f][1] or 0), f))
        spans.sort()
        overlap = [(a, b) for a, b in zip(spans, spans[1:]) if a[1] > b[0]]
        ctx.ob(rule, "%s|no-overlap" % buf, not overlap, tu.loc(wf.node), "fields do not overlap: %s" % [(s[2], s[0], s[1]) for s in spans])
    wsrc, rsrc = tu.src(P.need("kastore_write_header", "kastore").body), tu.src(P.need("kastore_read_header", "kastore").body)
    ctx.ob(rule, "magic", "memcpy(header, KAS_MAGIC, 8)" in wsrc and "strncmp(header, KAS_MAGIC, 8)" in rsrc, tu.loc(P.need("kastore_read_header", "kastore").node),
           "magic written and compared over the same 8 bytes")
    # version tests: the major version (file_version[0], assigned from version_major) decides too-old / too-new
    rh = P.need("kastore_read_header", "kastore")
    slots = {}
    for x in walk(rh.body):
        if is_assign(x):
            l = estr(strip(x.kids[0]))
            m_ = re.fullmatch(r"self->file_version\[(\d)\]", l)
            if m_:
                slots[m_.group(1)] = estr(x.kids[1])
    major = [k_ for k_, v in slots.items() if "major" in v]
    ctx.ob(rule, "version|slots", len(major) == 1, tu.loc(rh.node), "file_version slots assigned from %s" % slots)
    vt = 0
    for x in walk(rh.body):
        if x.k == "BinaryOperator" and x.op in ("<", ">", "<=", ">=", "==", "!="):
            a, b = estr(x.kids[0]), estr(x.kids[1])
            for side, other in ((a, b), (b, a)):
                if re.fullmatch(r"KAS_FILE_VERSION_(MAJOR|MINOR)", side):
                    want = major[0] if (major and side.endswith("MAJOR")) else None
                    if want is not None:
                        vt += 1
                        ctx.ob(rule, "version|%s%s" % (x.op, side), other == "self->file_version[%s]" % want, tu.loc(x),
                               "`%s`: %s is compared with the slot that holds the major version" % (estr(x), side))
    ctx.ob(rule, "version|tests", vt >= 2, tu.loc(rh.node), "%d comparisons with KAS_FILE_VERSION_MAJOR (too old, too new)" % vt)
    # the two version errors are raised for exactly major < MAJOR and major > MAJOR, whatever the minor version is
    if major:
        def evv(n, v0, v1):
            n = strip(n)
            if n is None:
                return None
            t = estr(n)
            if t == "self->file_version[%s]" % major[0]:
                return v0
            if re.fullmatch(r"self->file_version\[\d\]", t):
                return v1
            if t == "KAS_FILE_VERSION_MAJOR":
                return 10
            if t == "KAS_FILE_VERSION_MINOR":
                return 5
            c = const_int(n)
            if c is not None:
                return c
            if n.k == "BinaryOperator":
                a, b = evv(n.kids[0], v0, v1), evv(n.kids[1], v0, v1)
                if a is None or b is None:
                    return None
                return {"<": a < b, ">": a > b, "<=": a <= b, ">=": a >= b, "==": a == b, "!=": a != b,
                        "&&": bool(a) and bool(b), "||": bool(a) or bool(b)}.get(n.op)
            return None
        for x in walk(rh.body):
            if x.k == "IfStmt" and len(x.kids) > 1 and x.kids[1] is not None:
                s_ = tu.src(x.kids[1])
                for code, want in (("KAS_ERR_VERSION_TOO_NEW", lambda v0: v0 > 10), ("KAS_ERR_VERSION_TOO_OLD", lambda v0: v0 < 10)):
                    if code in s_ and "KAS_ERR_VERSION_TOO" in s_ and s_.count("KAS_ERR_VERSION_TOO") == 1:
                        bad = [(v0, v1) for v0 in (9, 10, 11) for v1 in (4, 5, 6)
                               if evv(x.kids[0], v0, v1) is not None and bool(evv(x.kids[0], v0, v1)) != (want(v0) if code.endswith("NEW") or True else False)
                               and not (code.endswith("NEW") and v0 < 10)]
                        ctx.ob(rule, "version|%s|exact" % code, not bad, tu.loc(x),
                               "%s is raised for exactly the major versions it names" % code if not bad else
                               "`%s` does not raise %s for (major, minor) = MAJOR%+d, MINOR%+d" % (estr(x.kids[0])[:70], code, bad[0][0] - 10, bad[0][1] - 5))
    # several stores can follow one another on a stream: every absolute seek is relative to where THIS store started
    seeks = []
    for fn in tu.funcs.values():
        for c in calls(fn.body):
            if callee(c) == "fseek" and len(c.kids) >= 4 and "SEEK_SET" in tu.src(c):
                seeks.append((fn, c))
    for k, (fn, c) in enumerate(seeks):
        off = estr(c.kids[2])
        ctx.ob(rule, "seek-base|%s@%d" % (fn.name, k), "file_offset" in off, tu.loc(c),
               "fseek(…, %s, SEEK_SET): array offsets are relative to the start of this store (self->file_offset)" % off[:60])
    ctx.ob(rule, "seek-base|present", len(seeks) >= 1, tu.path, "%d absolute seek(s) in kastore.c" % len(seeks))


def read_validated(ctx, P, rule="READ-VALIDATED", floor=8):
    """Every length / type that a kastore_gets* call reports is looked at before the array is accepted."""
    ctx.rule(rule, "after every kastore_gets / kastore_gets_<type> call in the loaders, on every path on which the call succeeded and "
                   "the function goes on (to its success return or to the next column), each value the call reported through an "
                   "out-parameter (`&len`, `&type`, `&data_len`, ...) is consulted: compared in a condition, stored, or passed on.  "
                   "A path that accepts the array without looking at its length or storage type lets an altered descriptor "
                   "through (the bytes are then reinterpreted)")
    tu = P.tus["tables"]
    n = 0
    for fn in tu.funcs.values():
        sites = [c for c in calls(fn.body) if (callee(c) or "").startswith("kastore_gets")]
        if not sites:
            continue
        cfg = CFG(fn)
        errn = set()
        for nd in cfg.nodes:
            if nd.kind == "stmt" and nd.ast is not None:
                s = tu.src(nd.ast)
                if "tsk_trace_error" in s or "tsk_set_kas_error" in s or re.search(r"\bTSK_ERR_", s):
                    errn.add(nd)
        for k, c in enumerate(sites):
            call_node = None
            for nd in cfg.nodes:
                if nd.ast is not None and nd.kind in ("stmt", "cond") and any(x is c for x in walk(nd.ast)):
                    call_node = nd
                    break
            if call_node is None:
                continue
            outs = []
            for a in c.kids[1:]:
                a = strip(a)
                if a is not None and a.k == "UnaryOperator" and a.op == "&":
                    t = strip(a.kids[0])
                    if t is not None and t.k == "DeclRefExpr" and (t.ty or "") in ("size_t", "int", "tsk_size_t"):
                        outs.append(t.ref)
            for v in outs:
                def uses(nd, v=v):
                    if nd.ast is None or nd is call_node:
                        return False
                    if nd.kind in ("cond", "switch"):
                        return any(x.k == "DeclRefExpr" and x.ref == v for x in walk(nd.ast))
                    if nd.kind == "stmt":
                        a = nd.ast
                        if is_assign(a) or a.k == "CompoundAssignOperator":
                            return any(x.k == "DeclRefExpr" and x.ref == v for x in walk(a.kids[1]))
                        if a.k in ("CallExpr", "ReturnStmt", "DeclStmt"):
                            return any(x.k == "DeclRefExpr" and x.ref == v for x in walk(a))
                    return False
                users = {nd for nd in cfg.nodes if uses(nd)}
                # a later kastore_gets that overwrites v ends the obligation (it starts its own)
                dsts = {cfg.exit, call_node}
                for nd in cfg.nodes:
                    if nd is not call_node and nd.ast is not None and any(x.k == "CallExpr" and (callee(x) or "").startswith("kastore_gets") and
                                                                          any(strip(y) is not None and strip(y).k == "UnaryOperator" and estr(strip(y).kids[0]) == v
                                                                              for y in x.kids[1:]) for x in walk(nd.ast)):
                        dsts.add(nd)
                starts = [s for s, lab in call_node.succ]
                path = None
                for s in starts:
                    if s in users or s in errn:
                        continue
                    if s in dsts:
                        path = [call_node, s]
                        break
                    p = cfg.find_path(s, dsts, avoid=users | errn)
                    if p:
                        path = [call_node] + p
                        break
                n += 1
                key = "%s|%s@%d|%s" % (fn.name, callee(c), k, v)
                if path is None:
                    ctx.ob(rule, key, True, tu.loc(c), "`%s` is consulted on every continuing path" % v)
                else:
                    wit = [tu.loc(p.ast).split(":")[-1] for p in path if p.ast is not None][:8]
                    ctx.ob(rule, key, False, tu.loc(c), "`%s` reported by %s is never consulted on the path through lines %s" % (v, callee(c), " -> ".join(wit)))
    ctx.floor(rule, floor)
    return n


def no_wrap(ctx, P, rule="KAS-NO-WRAP", floor=2):
    """Bounds tests over quantities read from the file must not be able to wrap around."""
    ctx.rule(rule, "in kastore's readers a 64-bit quantity copied out of the file (memcpy(&v, <buffer> …)) is compared with a limit "
                   "ALONE on its side of the comparison (`v > limit - other`, `v > (limit - start) / size`): a test of the form "
                   "`start + len * size > limit` wraps for len >= 2^64 / size and then accepts a length that the later reads use")
    tu = P.tus["kastore"]
    n = 0
    for fn in tu.funcs.values():
        if fn.body is None:
            continue
        tainted = set()
        for c in calls(fn.body):
            if callee(c) == "memcpy" and len(c.kids) >= 3:
                d = strip(c.kids[1])
                if d is not None and d.k == "UnaryOperator" and d.op == "&":
                    v = strip(d.kids[0])
                    if v is not None and v.k == "DeclRefExpr":
                        tainted.add(v.ref)
        if not tainted:
            continue
        k = 0
        for x in walk(fn.body):
            if x.k == "BinaryOperator" and x.op in (">", ">=", "<", "<="):
                for side in x.kids[:2]:
                    s0 = strip(side)
                    if s0 is None or s0.k != "BinaryOperator" or s0.op not in ("+", "*"):
                        continue
                    names = {y.ref for y in walk(s0) if y.k == "DeclRefExpr"}
                    if names & tainted:
                        n += 1
                        ctx.ob(rule, "%s@%d" % (fn.name, k), False, tu.loc(x),
                               "`%s` adds / multiplies the file-supplied %s before comparing: it can wrap around and pass"
                               % (" ".join(tu.src(x).split())[:70], sorted(names & tainted)))
                        k += 1
                        break
                else:
                    names = {y.ref for y in walk(x) if y.k == "DeclRefExpr"}
                    if names & tainted:
                        n += 1
                        ctx.ob(rule, "%s@%d" % (fn.name, k), True, tu.loc(x), "`%s` cannot wrap" % " ".join(tu.src(x).split())[:70])
                        k += 1
    ctx.ob(rule, "instances", n >= floor, "c/subprojects/kastore/kastore.c", "%d comparisons over file-supplied quantities analysed" % n)
    return n


def keys_accounted(ctx, P, rule="KEYS-ACCOUNTED"):
    """C10 asks that an altered key region makes load raise.  A key whose bytes change is a key the loader does not know; the
    loader raises for it only if it accounts for every item of the store."""
    ctx.rule(rule, "the table-collection loader accounts for every item in the store: besides looking up the keys it knows "
                   "(kastore_gets* / kastore_containss), it compares what it consumed with the store's item count, or walks the "
                   "items and rejects a key it does not recognise.  Without that, a byte changed in the key of an OPTIONAL item "
                   "(time_units, metadata, metadata_schema, <table>/metadata_schema, reference_sequence/* …) turns the item into an "
                   "unknown one that is ignored, and the file loads with the default in its place instead of raising")
    tu = P.tus["tables"]
    entry = P.need("tsk_table_collection_loadf_inited", "tables")
    # functions reachable from the loader inside tables.c
    seen, todo = set(), [entry]
    while todo:
        f = todo.pop()
        if f.name in seen or f.body is None:
            continue
        seen.add(f.name)
        for c in calls(f.body):
            g = tu.funcs.get(callee(c) or "")
            if g is not None:
                todo.append(g)
    optional = 0
    accounted = False
    for name in sorted(seen):
        f = tu.funcs[name]
        src = tu.src(f.body)
        optional += len(re.findall(r"kastore_containss\(", src))
        if re.search(r"->\s*num_items\b|kastore_get_num_items|kastore_iter", src):
            accounted = True
    ctx.ob(rule, "tsk_table_collection_loadf_inited|optional-lookups", optional >= 5, tu.loc(entry.node),
           "%d presence tests (kastore_containss) in the %d functions of the load path: optional items exist" % (optional, len(seen)))
    ctx.ob(rule, "tsk_table_collection_loadf_inited|unconsumed-items", accounted, tu.loc(entry.node),
           "the load path compares the items it consumed with the store's item count" if accounted else
           "nothing on the load path (%d functions) looks at the store's item count or walks its keys: an item whose key was altered "
           "is silently ignored and the optional value it carried is replaced by its default" % len(seen))
    return 2
