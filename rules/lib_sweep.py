"""Sibling rule over the tree-sweep loops (Engler-style: all instances of one idiom must agree).

A sweep loop is a `while` whose body contains the two inner loops
    while (tk < M && right[O[tk]] == left) …      (edges out)
    while (tj < M && left[I[tj]]  == left) …      (edges in)
Its own condition must be `tj < M || left < sequence_length`: dropping the second disjunct stops the
sweep at the last edge insertion and silently skips the trees to the right of it."""
from __future__ import annotations

from sa.cfront import LIB_TUS
from sa.expr import strip, walk, xstr, local_aliases
from sa.guards import dnf, CountResolver


def _sweep_inner(w, al):
    """(index var, position var, bound text) if w is `while (i < N && col[ord[i]] == pos)`."""
    d = dnf(w.kids[0], al)
    if len(d) != 1 or len(d[0]) != 2:
        return None
    lt = [a for a in d[0] if a.op == "<"]
    eq = [a for a in d[0] if a.op == "=="]
    if len(lt) != 1 or len(eq) != 1:
        return None
    idx = lt[0].lhs
    e = eq[0]
    sub = e.ln if e.ln is not None and e.ln.k == "ArraySubscriptExpr" else (e.rn if e.rn is not None and e.rn.k == "ArraySubscriptExpr" else None)
    if sub is None:
        return None
    inner = strip(sub.kids[1])
    if inner is None or inner.k != "ArraySubscriptExpr" or xstr(inner.kids[1], al) != idx:
        return None
    pos = e.rhs if sub is e.ln else e.lhs
    return idx, pos, lt[0].rhs, xstr(inner.kids[0], al)


def sweep_conditions(ctx, P, rule="SWEEP-COND", floor=9, tus=None):
    ctx.rule(rule, "every tree-sweep loop over the edge insertion/removal orders continues while `tj < M || left < sequence_length` "
                   "(all sibling loops agree; a sweep that stops at the last insertion skips the trees to its right)")
    R = CountResolver(P)
    n = 0
    for key in (tus or LIB_TUS):
        tu = P.tus[key]
        for fn in tu.funcs.values():
            al = None
            k = 0
            for w in walk(fn.body):
                if w.k != "WhileStmt" or w.kids[-1] is None or w.kids[-1].k != "CompoundStmt":
                    continue
                inners = [c for c in w.kids[-1].kids if c is not None and c.k == "WhileStmt"]
                if len(inners) < 2:
                    continue
                al = al or local_aliases(fn)
                sig = [s for s in (_sweep_inner(c, al) for c in inners) if s is not None]
                if len(sig) < 2:
                    continue
                # insertion loop = the one whose index appears in the outer condition; position var shared
                pos = sig[0][1]
                d = dnf(w.kids[0], al)
                idxs = {s[0] for s in sig}
                has_idx = any(len(c) == 1 and c[0].op == "<" and c[0].lhs in idxs for c in d)
                posd = [c[0] for c in d if len(c) == 1 and c[0].op == "<" and c[0].lhs == pos]
                ok = has_idx and bool(posd) and len(d) == 2
                why = "condition `%s`" % xstr(w.kids[0], al)
                if ok:
                    cls = R.classify(posd[0].rn, fn)
                    if cls != ("seqlen", 0):
                        ok = False
                        why += ": bound of `%s` does not denote the sequence length" % pos
                else:
                    why += " is not `<index> < M || %s < sequence_length`" % pos
                n += 1
                ctx.ob(rule, "%s@%d" % (fn.name, k), ok, tu.loc(w), why)
                k += 1
    ctx.floor(rule, floor if tus is None else 2)
    return n


def sweep_inverse(ctx, P, rule="SWEEP-INVERSE", tus=None, floor=9):
    """The out-edge half and the in-edge half of every sweep loop are inverses of each other."""
    from sa.expr import walk as _walk, estr, callee, is_assign
    ctx.rule(rule, "in every tree-sweep loop the edges-out half detaches (`parent[child] = TSK_NULL`, `x -= …`, update(…, -1)) exactly "
                   "what the edges-in half attaches (`parent[child] = edge parent`, `x += …`, update(…, +1)): same arrays, same "
                   "callees, opposite signs, and each half advances its own index")
    n = 0
    for key in (tus or LIB_TUS):
        tu = P.tus[key]
        for fn in tu.funcs.values():
            al = None
            k = 0
            for w in _walk(fn.body):
                if w.k != "WhileStmt" or w.kids[-1] is None or w.kids[-1].k != "CompoundStmt":
                    continue
                inners = [c for c in w.kids[-1].kids if c is not None and c.k == "WhileStmt"]
                if len(inners) < 2:
                    continue
                al = al or local_aliases(fn)
                sig = [(c, _sweep_inner(c, al)) for c in inners]
                sig = [(c, s) for c, s in sig if s]
                if len(sig) < 2:
                    continue
                out = [c for c, s in sig if "removal" in s[3]]
                inn = [c for c, s in sig if "insertion" in s[3]]
                if len(out) != 1 or len(inn) != 1:
                    ctx.ob(rule, "%s@%d|halves" % (fn.name, k), False, tu.loc(w), "cannot identify one removal and one insertion half")
                    k += 1
                    continue

                def effects(c, idx):
                    null_sets, comp, signs, incs = [], {}, {}, []
                    for x in _walk(c.kids[-1]):
                        if is_assign(x):
                            l = strip(x.kids[0])
                            if l is not None and l.k == "ArraySubscriptExpr":
                                null_sets.append((estr(l.kids[0]), estr(x.kids[1])))
                        elif x.k == "CompoundAssignOperator" and x.op in ("+=", "-="):
                            l = strip(x.kids[0])
                            base = estr(l.kids[0]) if l is not None and l.k == "ArraySubscriptExpr" else estr(l)
                            comp.setdefault(base, set()).add(x.op)
                        elif x.k == "UnaryOperator" and x.op in ("++", "--") and estr(x.kids[0]) == idx:
                            incs.append(x.op)
                        elif x.k == "CallExpr" and callee(x):
                            for a in x.kids[1:]:
                                t = estr(a)
                                if t in ("-1", "1", "+1"):
                                    signs.setdefault(callee(x), set()).add(-1 if t == "-1" else 1)
                    return null_sets, comp, signs, incs
                so, si = [s for c, s in sig if c is out[0]][0], [s for c, s in sig if c is inn[0]][0]
                no, co, sgo, io = effects(out[0], so[0])
                ni, ci, sgi, ii = effects(inn[0], si[0])
                # (a) parent-style detach / attach on the same array
                det = {a for a, v in no if v in ("TSK_NULL", "-1")}
                att = {a for a, v in ni if v not in ("TSK_NULL", "-1")}
                ok = bool(det) and det <= att
                ctx.ob(rule, "%s@%d|detach-attach" % (fn.name, k), ok, tu.loc(w), "out half clears %s, in half sets %s" % (sorted(det), sorted(att)))
                # (b) accumulators with opposite signs (arrays updated with the same sign in both halves are span accumulators: allowed)
                for arr in sorted(set(co) & set(ci)):
                    if co[arr] == ci[arr] and len(co[arr]) == 1:
                        continue
                    okb = co[arr] == {"-="} and ci[arr] == {"+="}
                    ctx.ob(rule, "%s@%d|accumulator|%s" % (fn.name, k, arr), okb, tu.loc(w), "%s: out %s / in %s" % (arr, sorted(co[arr]), sorted(ci[arr])))
                only = (set(co) ^ set(ci))
                ctx.ob(rule, "%s@%d|accumulator-sets" % (fn.name, k), not only, tu.loc(w), "arrays accumulated in one half only: %s" % sorted(only))
                # (c) signed update calls
                for cal in sorted(set(sgo) | set(sgi)):
                    okc = (sgo.get(cal) == {-1} and sgi.get(cal) == {1}) or (sgo.get(cal) == sgi.get(cal) == {-1, 1})
                    ctx.ob(rule, "%s@%d|sign|%s" % (fn.name, k, cal), okc, tu.loc(w), "%s: out half passes %s, in half passes %s" % (cal, sorted(sgo.get(cal, [])), sorted(sgi.get(cal, []))))
                # (d) index advance
                ctx.ob(rule, "%s@%d|advance" % (fn.name, k), io == ["++"] and ii == ["++"], tu.loc(w), "each half advances its own index once (%s / %s)" % (io, ii))
                n += 1
                k += 1
    ctx.floor(rule, floor if tus is None else 2)
    return n
