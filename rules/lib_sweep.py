"""Sibling rule over the tree-sweep loops (Engler-style: all instances of one idiom must agree).

A sweep loop is a `while` whose body contains the two inner loops
    while (tk < M && right[O[tk]] == left) …      (edges out)
    while (tj < M && left[I[tj]]  == left) …      (edges in)
Its own condition must be `tj < M || left < sequence_length`: dropping the second disjunct stops the
sweep at the last edge insertion and silently skips the trees to the right of it."""
from __future__ import annotations

from sa.cfront import LIB_TUS
from sa.expr import strip, walk, xstr, local_aliases
from sa.guards import dnf, CountResolver


def _sweep_inner(w, al):
    """(index var, position var, bound text) if w is `while (i < N && col[ord[i]] == pos)`."""
    d = dnf(w.kids[0], al)
    if len(d) != 1 or len(d[0]) != 2:
        return None
    lt = [a for a in d[0] if a.op == "<"]
    eq = [a for a in d[0] if a.op == "=="]
    if len(lt) != 1 or len(eq) != 1:
        return None
    idx = lt[0].lhs
    e = eq[0]
    sub = e.ln if e.ln is not None and e.ln.k == "ArraySubscriptExpr" else (e.rn if e.rn is not None and e.rn.k == "ArraySubscriptExpr" else None)
    if sub is None:
        return None
    inner = strip(sub.kids[1])
    if inner is None or inner.k != "ArraySubscriptExpr" or xstr(inner.kids[1], al) != idx:
        return None
    pos = e.rhs if sub is e.ln else e.lhs
    return idx, pos, lt[0].rhs, xstr(inner.kids[0], al)


def sweep_conditions(ctx, P, rule="SWEEP-COND", floor=9, tus=None):
    ctx.rule(rule, "every tree-sweep loop over the edge insertion/removal orders continues while `tj < M || left < sequence_length` "
                   "(all sibling loops agree; a sweep that stops at the last insertion skips the trees to its right)")
    R = CountResolver(P)
    n = 0
    for key in (tus or LIB_TUS):
        tu = P.tus[key]
        for fn in tu.funcs.values():
            al = None
            k = 0
            for w in walk(fn.body):
                if w.k != "WhileStmt" or w.kids[-1] is None or w.kids[-1].k != "CompoundStmt":
                    continue
                inners = [c for c in w.kids[-1].kids if c is not None and c.k == "WhileStmt"]
                if len(inners) < 2:
                    continue
                al = al or local_aliases(fn)
                sig = [s for s in (_sweep_inner(c, al) for c in inners) if s is not None]
                if len(sig) < 2:
                    continue
                # insertion loop = the one whose index appears in the outer condition; position var shared
                pos = sig[0][1]
                d = dnf(w.kids[0], al)
                idxs = {s[0] for s in sig}
                has_idx = any(len(c) == 1 and c[0].op == "<" and c[0].lhs in idxs for c in d)
                posd = [c[0] for c in d if len(c) == 1 and c[0].op == "<" and c[0].lhs == pos]
                ok = has_idx and bool(posd) and len(d) == 2
                why = "condition `%s`" % xstr(w.kids[0], al)
                if ok:
                    cls = R.classify(posd[0].rn, fn)
                    if cls != ("seqlen", 0):
                        ok = False
                        why += ": bound of `%s` does not denote the sequence length" % pos
                else:
                    why += " is not `<index> < M || %s < sequence_length`" % pos
                n += 1
                ctx.ob(rule, "%s@%d" % (fn.name, k), ok, tu.loc(w), why)
                k += 1
    ctx.floor(rule, floor if tus is None else 2)
    return n
