"""C01/C06 rules over the tree state machine in trees.c (A4 on tsk_tree_t, A7 inverse and mirror pairs)."""
from __future__ import annotations

import re

from sa.expr import strip, walk, callee, estr, xstr, is_assign, calls, local_aliases
from sa.schema import Facts, factors

TOK = re.compile(r"->|\+\+|--|<=|>=|==|!=|&&|\|\||\+=|-=|[A-Za-z_]\w*|\d+|\S")


def tree_arrays(P):
    """field -> (count text, option condition text or None) from the allocations in tsk_tree_init."""
    fn = P.need("tsk_tree_init", "trees")
    F = Facts(P, fn)
    out = {}
    for l, o, r, n in F.assigns:
        m = re.fullmatch(r"self->(\w+)", l)
        if not m or o != "=":
            continue
        rhs = strip(n.kids[1]) if n.k == "BinaryOperator" else None
        if rhs is None or rhs.k != "CallExpr" or callee(rhs) not in ("tsk_malloc", "tsk_calloc"):
            continue
        args = rhs.kids[1:]
        if callee(rhs) == "tsk_malloc":
            fac = factors(args[0])
        else:
            fac = tuple(sorted([xstr(args[0], F.al), xstr(args[1], F.al)]))
        cnt = [f for f in fac if not f.startswith("sizeof")]
        sz = [f for f in fac if f.startswith("sizeof")]
        conds = [F.tu.src(i.kids[0]) for i, br in F.enclosing_ifs(n)]
        out[m.group(1)] = (cnt[0] if len(cnt) == 1 else str(cnt), conds[0] if conds else None, sz[0] if sz else None, n)
    return fn, F, out


def _opt_flag(cond):
    if cond is None:
        return None
    m = re.search(r"TSK_\w+", cond)
    return m.group(0) if m else cond


def tree_copy_clear(ctx, P, rule="TREE-STATE"):
    ctx.rule(rule, "every array tsk_tree_init allocates is (a) allocated with element size sizeof(*self-><same field>), (b) copied by "
                   "tsk_tree_copy with memcpy(dest->F, self->F, <same count> * sizeof(*self->F)) - one field name in all three "
                   "places - under the same option, (c) reset by tsk_tree_clear over the same count, (d) freed by tsk_tree_free; "
                   "every position-dependent scalar (index, interval, sites, sites_length, num_edges, tree_pos) is copied and reset")
    tu = P.tus["trees"]
    init, FI, arrays = tree_arrays(P)
    ctx.need(len(arrays) >= 12, "array allocations in tsk_tree_init (found %d)" % len(arrays))
    cp = P.need("tsk_tree_copy", "trees")
    FC = Facts(P, cp)
    cl = P.need("tsk_tree_clear", "trees")
    FL = Facts(P, cl)
    fr = P.need("tsk_tree_free", "trees")
    FF = Facts(P, fr)
    copies = {}
    for a, n in FC.calls_to("tsk_memcpy") + FC.calls_to("tsk_memmove"):
        m = re.fullmatch(r"dest->(\w+)", a[0])
        if m:
            copies[m.group(1)] = (a, n)
    memsets = {}
    for a, n in FL.calls_to("tsk_memset"):
        m = re.fullmatch(r"self->(\w+)", a[0])
        if m:
            memsets[m.group(1)] = (a, n)
    freed = {re.sub(r"^self->", "", a[0]) for a, n in FF.calls_to("tsk_safe_free") + FF.calls_to("__tsk_safe_free")}
    freed |= {re.sub(r"^&?self->", "", a[0]) for c_, a, n in FF.calls if a}
    for f, (cnt, cond, sz, node) in sorted(arrays.items()):
        # (a)
        ctx.ob(rule, "init|%s|elemsize" % f, sz == "sizeof(*self->%s)" % f, tu.loc(node),
               "allocated as %s * %s" % (cnt, sz))
        # (b)
        ent = copies.get(f)
        if ent is None:
            ctx.ob(rule, "copy|%s" % f, False, tu.loc(cp.node), "tsk_tree_copy never copies `%s`" % f)
        else:
            a, n = ent
            fac = factors(n.kids[3])
            src_ok = a[1] == "self->" + f
            sz_ok = ("sizeof(*self->%s)" % f) in fac or ("sizeof(*dest->%s)" % f) in fac
            cnt_c = [x for x in fac if not x.startswith("sizeof")]
            cnt_ok = len(cnt_c) == 1 and _same_count(cnt_c[0], cnt)
            conds = [FC.tu.src(i.kids[0]) for i, br in FC.enclosing_ifs(n)]
            flag = _opt_flag(cond)
            cond_ok = (flag is None and not conds) or (flag is not None and any(flag in c for c in conds))
            # the option word tested must be the one stored in a tree (dest->options / self->options): the `options` ARGUMENT of
            # tsk_tree_copy carries copy options such as TSK_NO_INIT, not the destination's tree options
            if cond_ok and flag is not None:
                for c_ in conds:
                    if flag in c_ and not re.search(r"(dest|self)->options\s*&", c_):
                        cond_ok = False
            ok = src_ok and sz_ok and cnt_ok and cond_ok
            why = "memcpy(dest->%s, %s, %s)" % (f, a[1], a[2])
            if not src_ok:
                why += ": source is `%s`, not self->%s" % (a[1], f)
            elif not sz_ok:
                why += ": element size is not sizeof(*self->%s)" % f
            elif not cnt_ok:
                why += ": count %s differs from the allocation count %s" % (cnt_c, cnt)
            elif not cond_ok:
                why += ": option guard %s differs from the allocation guard %s" % (conds, cond)
            ctx.ob(rule, "copy|%s" % f, ok, tu.loc(n), why)
        # (c)
        ent = memsets.get(f)
        if ent is not None:
            a, n = ent
            fac = factors(n.kids[3])
            cnt_c = [x for x in fac if not x.startswith("sizeof")]
            ok = len(cnt_c) == 1 and _same_count(cnt_c[0], cnt)
            ctx.ob(rule, "clear|%s" % f, ok, tu.loc(n), "memset over %s (allocated %s)" % (cnt_c, cnt))
        else:
            # reset by a loop (num_tracked_samples): a store self->f[j] = 0 inside a for over all nodes
            st = [n for l, o, r, n in FL.assigns if l.startswith("self->%s[" % f) and o == "="]
            ctx.ob(rule, "clear|%s" % f, bool(st), tu.loc(cl.node), "reset by %d store(s) in tsk_tree_clear" % len(st))
            # a reset loop that skips the sample nodes must be complemented by a store that re-initialises the sample nodes'
            # entries (as num_samples[u] = 1 does for num_samples): otherwise those entries survive the clear
            skipping = [n for n in st if any(re.search(r"!\s*\(?\(?flags\[\w+\] & TSK_NODE_IS_SAMPLE", tu.src(i.kids[0])) for i, br in FL.enclosing_ifs(n))]
            if skipping:
                sample_vars = {estr(x.kids[0]) for x in walk(cl.body) if x.k == "BinaryOperator" and x.op == "="
                               and re.search(r"self->samples\[", estr(x.kids[1]))}
                cover = [n for l, o, r, n in FL.assigns if o == "=" and any(l == "self->%s[%s]" % (f, v) for v in sample_vars)]
                ctx.ob(rule, "clear|%s|sample-nodes" % f, bool(cover), tu.loc(skipping[0]),
                       "the reset loop skips sample nodes and their entries are re-initialised from self->samples" if cover else
                       "self->%s is reset only for non-sample nodes and never re-initialised for sample nodes: a sample node with "
                       "children keeps the count of its last subtree when the tree returns to the null state" % f)
        # (d)
        ctx.ob(rule, "free|%s" % f, f in freed, tu.loc(fr.node), "freed in tsk_tree_free")
    for sc in ("index", "interval", "sites", "sites_length", "num_edges", "tree_pos", "root_threshold"):
        ok = any(l == "dest->" + sc and r == "self->" + sc for l, o, r, n in FC.assigns)
        ctx.ob(rule, "copy|scalar|%s" % sc, ok, tu.loc(cp.node), "dest->%s = self->%s" % (sc, sc))
    for sc, want in (("index", "-1"), ("sites", None), ("sites_length", "0"), ("num_edges", "0"), ("interval.left", "0"), ("interval.right", "0")):
        ok = any(l == "self->" + sc and o == "=" and (want is None or r == want) for l, o, r, n in FL.assigns)
        ctx.ob(rule, "clear|scalar|%s" % sc, ok, tu.loc(cl.node), "self->%s reset%s" % (sc, "" if want is None else " to " + want))
    ok = bool(FL.calls_to("tsk_tree_position_set_null"))
    ctx.ob(rule, "clear|scalar|tree_pos", ok, tu.loc(cl.node), "tree position reset to null")


def _same_count(a, b):
    norm = lambda s: s.replace("self->tree_sequence->num_samples", "num_samples").replace("(self->num_nodes + 1)", "N").replace("(num_nodes + 1)", "N")
    return norm(a) == norm(b)


def index_domains(ctx, P, rule="TREE-DOMAIN"):
    """Loop-variable / array index-domain agreement in tsk_tree_clear and friends."""
    ctx.rule(rule, "in tsk_tree_clear, an array allocated per node (N = num_nodes + 1 slots) is subscripted directly by a loop "
                   "counter only in loops bounded by num_nodes / N, and a per-sample array only in loops bounded by num_samples; "
                   "loops over samples reach node arrays through samples[j]")
    tu = P.tus["trees"]
    init, FI, arrays = tree_arrays(P)
    dom = {}
    for f, (cnt, cond, sz, node) in arrays.items():
        dom[f] = "sample" if "num_samples" in cnt else "node"
    fn = P.need("tsk_tree_clear", "trees")
    al = local_aliases(fn)
    n_checked = 0
    for lp in walk(fn.body):
        if lp.k != "ForStmt":
            continue
        kids = lp.kids + [None] * (5 - len(lp.kids))
        cond, body = strip(kids[2]), kids[4]
        if cond is None or cond.k != "BinaryOperator" or cond.op not in ("<", "<="):
            continue
        var = estr(cond.kids[0])
        bound = xstr(cond.kids[1], al)
        ldom = "sample" if "num_samples" in bound else ("node" if ("num_nodes" in bound or bound == "N") else None)
        for x in walk(body):
            if x.k == "ArraySubscriptExpr" and estr(x.kids[1]) == var:
                base = xstr(x.kids[0], al)
                m = re.fullmatch(r"self->(\w+)", base)
                if not m:
                    # flags[j] (node table column) counts as node domain
                    if base.endswith("nodes.flags"):
                        adom = "node"
                        f = "nodes.flags"
                    else:
                        continue
                else:
                    f = m.group(1)
                    adom = dom.get(f) or ("sample" if f == "samples" else None)
                if adom is None:
                    continue
                n_checked += 1
                ok = ldom == adom
                init = estr(kids[0]) if kids[0] is not None else ""
                start_ok = init == "(%s = 0)" % var
                why = "per-%s array indexed by a counter ranging over [0, %s)" % (adom, bound)
                if not ok:
                    why = "per-%s array `%s` is indexed by `%s`, which only ranges over [0, %s): the %s entries beyond are never reset" % (adom, f, var, bound, adom)
                elif not start_ok:
                    ok = False
                    why = "loop starts with `%s`, not at 0: the leading entries of per-%s array `%s` are never reset" % (init, adom, f)
                ctx.ob(rule, "tsk_tree_clear|%s[%s]|bound=%s" % (f, var, bound), ok, tu.loc(x), why)
    ctx.ob(rule, "tsk_tree_clear|instances", n_checked >= 3, tu.loc(fn.node), "%d direct loop-indexed accesses analysed" % n_checked)


# ---------------------------------------------------------------------------------------------
def _stmts(P, fn, skip_null_init=True):
    """Canonical token lists of the effectful statements / conditions of fn, in order."""
    tu = P.tu_of(fn)
    out = []

    def rec(s, depth=0):
        if s is None:
            return
        if s.mac == "tsk_bug_assert":
            return
        k = s.k
        if k == "CompoundStmt":
            for c in s.kids:
                rec(c)
        elif k == "DeclStmt":
            for c in s.kids:
                if c is not None and c.k == "VarDecl" and c.kids and c.kids[-1] is not None and "restrict" not in (c.ty or "") \
                        and not (c.ty or "").startswith("const"):
                    out.append(("decl", "%s = %s" % (c.name, estr(c.kids[-1])), c))
        elif k == "IfStmt":
            cond = estr(s.kids[0])
            if skip_null_init and cond == "(self->index == -1)" and not out_has_effect(out):
                return
            out.append(("if", cond, s))
            rec(s.kids[1])
            if len(s.kids) > 2 and s.kids[2] is not None:
                out.append(("else", "", s))
                rec(s.kids[2])
            out.append(("endif", "", s))
        elif k == "WhileStmt":
            out.append(("while", estr(s.kids[0]), s))
            rec(s.kids[-1])
            out.append(("endwhile", "", s))
        elif k == "ReturnStmt":
            return
        elif k in ("BinaryOperator", "CompoundAssignOperator", "UnaryOperator", "CallExpr"):
            out.append(("stmt", estr(s), s))
        elif k in ("ParenExpr", "ImplicitCastExpr", "CStyleCastExpr"):
            rec(s.kids[-1])
    def out_has_effect(o):
        return any(t[0] in ("stmt",) for t in o)
    rec(fn.body)
    return out


MIRROR_MULTI = [
    (["breakpoints", "[", "(", "self", "->", "index", "+", "1", ")", "]"], ["breakpoints", "[", "self", "->", "index", "]"]),
    (["breakpoints", "[", "(", "index", "+", "1", ")", "]"], ["breakpoints", "[", "index", "]"]),
    (["(", "self", "->", "index", "==", "num_trees", ")"], ["(", "self", "->", "index", "==", "-", "1", ")"]),
    (["(", "j", "<", "M", ")"], ["(", "j", ">=", "0", ")"]),
    (["interval", ".", "left"], ["interval", ".", "right"]),
    (["+", "1"], ["-", "1"]),
]
MIRROR_SINGLE = {"left_coords": "right_coords", "left_order": "right_order", "left_current_index": "right_current_index",
                 "left": "right", "TSK_DIR_FORWARD": "TSK_DIR_REVERSE", "++": "--", "<=": ">=", "<": ">", "+=": "-="}


def mirror_tokens(toks):
    single = dict(MIRROR_SINGLE)
    single.update({v: k for k, v in MIRROR_SINGLE.items()})
    multi = MIRROR_MULTI + [(b, a) for a, b in MIRROR_MULTI]
    out = []
    i = 0
    while i < len(toks):
        hit = False
        for pat, rep in multi:
            if toks[i:i + len(pat)] == pat:
                out.extend(rep)
                i += len(pat)
                hit = True
                break
        if hit:
            continue
        out.append(single.get(toks[i], toks[i]))
        i += 1
    return out


def mirror_pairs(ctx, P, rule="TREE-MIRROR"):
    ctx.rule(rule, "the forward and backward halves of the tree-position cursor are exact mirror images under the reflection "
                   "x -> L - x (left<->right coordinates and orders, j++<->j--, j<M <-> j>=0, <= <-> >=, +1 <-> -1, "
                   "FORWARD<->REVERSE, breakpoints[i+1]<->breakpoints[i], index==num_trees <-> index==-1); the null-state "
                   "initialisation block is compared against its explicit table.  A sibling cross-check: it reports when one "
                   "side is edited and the other is not")
    tu = P.tus["trees"]
    for fa, fb in (("tsk_tree_position_next", "tsk_tree_position_prev"),
                   ("tsk_tree_position_seek_forward", "tsk_tree_position_seek_backward")):
        A = P.need(fa, "trees")
        B = P.need(fb, "trees")
        sa = _stmts(P, A)
        sb = _stmts(P, B)
        ma = {}
        for kind, text, node in sa:
            if kind in ("endif", "endwhile", "else"):
                continue
            t = " ".join(mirror_tokens(TOK.findall(text)))
            ma.setdefault((kind, t), []).append(node)
        mb = {}
        for kind, text, node in sb:
            if kind in ("endif", "endwhile", "else"):
                continue
            t = " ".join(TOK.findall(text))
            mb.setdefault((kind, t), []).append(node)
        keys = set(ma) | set(mb)
        for k in sorted(keys):
            na, nb = len(ma.get(k, [])), len(mb.get(k, []))
            if na == nb:
                ctx.ob(rule, "%s~%s|%s %s" % (fa, fb, k[0], k[1]), True, tu.loc(mb[k][0]), "mirrored")
            elif nb > na:
                ctx.ob(rule, "%s~%s|%s %s" % (fa, fb, k[0], k[1]), False, tu.loc(mb[k][0]),
                       "`%s` in %s has no mirror image in %s" % (k[1], fb, fa))
            else:
                node = ma[k][0]
                ctx.ob(rule, "%s~%s|%s %s" % (fa, fb, k[0], k[1]), False, tu.loc(node),
                       "`%s` in %s mirrors to `%s`, which %s does not contain" % (estr(node) if node.k not in ("IfStmt", "WhileStmt") else estr(node.kids[0]), fa, k[1], fb))
        # null-state initialisation blocks
        for f, want in ((A, {"self->interval.right": "0", "self->in.stop": "0", "self->out.stop": "0", "self->direction": "TSK_DIR_FORWARD"}),
                        (B, {"self->index": "num_trees", "self->interval.left": "sequence_length", "self->in.stop": "(M - 1)",
                             "self->out.stop": "(M - 1)", "self->direction": "TSK_DIR_REVERSE"})):
            blk = None
            for s in f.body.kids:
                if s is not None and s.k == "IfStmt" and estr(s.kids[0]) == "(self->index == -1)":
                    blk = s
                    break
            got = {}
            if blk is not None:
                for x in walk(blk.kids[1]):
                    if is_assign(x):
                        got[estr(x.kids[0])] = estr(x.kids[1])
            ctx.ob(rule, "%s|null-init" % f.name, got == want, tu.loc(blk) if blk is not None else tu.loc(f.node),
                   "null-state initialisation %s (expected %s)" % (got, want))


def inverse_pairs(ctx, P, rule="TREE-INVERSE"):
    ctx.rule(rule, "edge insertion and removal are exact inverses: the same arrays are updated with += / -= (++ / --) of the same "
                   "operands, edge[c] is set / cleared, both walk the same ancestor path under the same option tests and both "
                   "refresh the sample lists; likewise insert_branch / remove_branch")
    tu = P.tus["trees"]
    for fa, fb, sets in (("tsk_tree_insert_edge", "tsk_tree_remove_edge", [("self->edge[c]", "edge_id", "TSK_NULL")]),
                         ("tsk_tree_insert_branch", "tsk_tree_remove_branch", [("parent[c]", "p", "TSK_NULL")])):
        A = P.func(fa, "trees")
        B = P.func(fb, "trees")
        ctx.need(A is not None and B is not None, "%s / %s" % (fa, fb))
        FA, FB = Facts(P, A), Facts(P, B)
        inv = {"+=": "-=", "-=": "+="}
        ca = sorted((l, inv[o], r) for l, o, r, n in FA.assigns if o in inv)
        cb = sorted((l, o, r) for l, o, r, n in FB.assigns if o in inv)
        ctx.ob(rule, "%s~%s|compound" % (fa, fb), ca == cb and (bool(ca) or fa.endswith("branch")), tu.loc(B.node),
               "accumulators updated inversely: %s" % cb if ca == cb else "insert side %s vs remove side %s" % (ca, cb))
        ia = sorted((t, {"++": "--", "--": "++"}[o]) for t, o, n in FA.incs)
        ib = sorted((t, o) for t, o, n in FB.incs)
        ctx.ob(rule, "%s~%s|incdec" % (fa, fb), ia == ib, tu.loc(B.node), "counters: insert %s / remove %s" % (FA.incs and [(t, o) for t, o, n in FA.incs], ib))
        for lhs, va, vb in sets:
            oka = FA.has_assign(lhs, va) is not None
            okb = FB.has_assign(lhs, vb) is not None
            ctx.ob(rule, "%s~%s|%s" % (fa, fb, lhs), oka and okb, tu.loc(B.node), "%s = %s on insert, = %s on remove" % (lhs, va, vb))
        # option-guarded structure: same set of conditions
        conds_a = sorted(xstr(x.kids[0], FA.al) for x in walk(A.body) if x.k in ("IfStmt", "WhileStmt") and "options" in xstr(x.kids[0], FA.al))
        conds_b = sorted(xstr(x.kids[0], FB.al) for x in walk(B.body) if x.k in ("IfStmt", "WhileStmt") and "options" in xstr(x.kids[0], FB.al))
        ctx.ob(rule, "%s~%s|option-tests" % (fa, fb), conds_a == conds_b, tu.loc(B.node), "option tests %s / %s" % (conds_a, conds_b))
        # calls made by both (helper names with insert<->remove swapped)
        def callset(F, swap):
            out = []
            for c_, a, n in F.calls:
                if c_ is None or c_.startswith("tsk_bug") or c_ in ("fprintf", "abort"):
                    continue
                nm = c_
                if swap:
                    nm = nm.replace("insert_branch", "@@").replace("remove_branch", "insert_branch").replace("@@", "remove_branch")
                out.append(nm)
            return sorted(set(out))
        sa_, sb_ = callset(FA, True), callset(FB, False)
        ctx.ob(rule, "%s~%s|calls" % (fa, fb), sa_ == sb_, tu.loc(B.node), "helper calls %s / %s" % (callset(FA, False), sb_))


def transitions(ctx, P, rule="TREE-STEP"):
    ctx.rule(rule, "tsk_tree_next / tsk_tree_prev: on a valid step the out-edge loop (remove_edge over tree_pos.out) precedes the "
                   "in-edge loop (insert_edge over tree_pos.in), both iterate [start, stop) of the cursor with the matching "
                   "direction, and tsk_tree_update_index_and_interval follows; the invalid step clears the tree; seek dispatches "
                   "null-state seeks to seek_from_null")
    tu = P.tus["trees"]
    for name, step in (("tsk_tree_next", "tsk_tree_position_next"), ("tsk_tree_prev", "tsk_tree_position_prev")):
        fn = P.need(name, "trees")
        F = Facts(P, fn)
        src_calls = [(c_, n) for c_, a, n in F.calls]
        pos = {c_: n.b for c_, n in src_calls}
        ok_step = step in pos
        rm = [n for c_, n in src_calls if c_ == "tsk_tree_remove_edge"]
        ins = [n for c_, n in src_calls if c_ == "tsk_tree_insert_edge"]
        upd = [n for c_, n in src_calls if c_ == "tsk_tree_update_index_and_interval"]
        clr = [n for c_, n in src_calls if c_ == "tsk_tree_clear"]
        ok = ok_step and rm and ins and upd and clr and pos[step] < rm[0].b < ins[0].b < upd[0].b
        ctx.ob(rule, "%s|order" % name, bool(ok), tu.loc(fn.node), "position step, remove out-edges, insert in-edges, update index/interval")
        # loops use the right cursor ranges
        loops = [x for x in walk(fn.body) if x.k == "ForStmt"]
        texts = [F.tu.src(x)[:400] for x in loops]
        ok_out = any("tree_pos.out.start" in t and "tree_pos.out.stop" in t and "tsk_tree_remove_edge" in t for t in texts)
        ok_in = any("tree_pos.in.start" in t and "tree_pos.in.stop" in t and "tsk_tree_insert_edge" in t for t in texts)
        ctx.ob(rule, "%s|ranges" % name, ok_out and ok_in, tu.loc(fn.node), "out loop over tree_pos.out.[start,stop) removes; in loop over tree_pos.in.[start,stop) inserts")
        for lp in loops:
            kids = lp.kids + [None] * (5 - len(lp.kids))
            cond, inc = estr(kids[2]) if kids[2] is not None else "", estr(kids[3]) if kids[3] is not None else ""
            fwd = name == "tsk_tree_next"
            okd = ((" != " in cond) or (fwd and " < " in cond) or ((not fwd) and " > " in cond)) and (inc.endswith("++") if fwd else inc.endswith("--"))
            ctx.ob(rule, "%s|loop-direction|%s" % (name, "out" if ".out." in cond else "in"), okd, tu.loc(lp), "loop `%s; %s` runs %s" % (cond, inc, "forward" if fwd else "backward"))
    fn = P.need("tsk_tree_seek", "trees")
    F = Facts(P, fn)
    ok = bool(F.calls_to("tsk_tree_seek_from_null")) or bool(F.calls_to("tsk_tree_seek_from_null_index"))
    ctx.ob(rule, "tsk_tree_seek|dispatch", ok, tu.loc(fn.node), "null-state seeks go through seek_from_null")


def edge_call_args(ctx, P, rule="TREE-EDGE-ARGS", floor=4):
    ctx.rule(rule, "every call that applies an edge to a tree names ONE edge: tsk_tree_insert_edge(self, <parent>[e], <child>[e], e) "
                   "and tsk_tree_remove_edge(self, <parent>[e], <child>[e]) subscript the edge table's parent and child columns "
                   "with the same expression e, the edge id recorded for the child is that same e, and e is read from the "
                   "insertion / removal order (never the position j in that order)")
    tu = P.tus["trees"]
    n = 0
    for fn in tu.funcs.values():
        if fn.body is None:
            continue
        k = 0
        for c in calls(fn.body):
            nm = callee(c)
            if nm not in ("tsk_tree_insert_edge", "tsk_tree_remove_edge"):
                continue
            a = [strip(x) for x in c.kids[1:]]
            key = "%s|%s@%d" % (fn.name, nm, k)
            k += 1
            n += 1
            if len(a) < 3 or a[1] is None or a[2] is None or a[1].k != "ArraySubscriptExpr" or a[2].k != "ArraySubscriptExpr":
                ctx.ob(rule, key, False, tu.loc(c), "parent / child arguments are not column subscripts: %s" % [estr(x) for x in c.kids[1:]])
                continue
            pcol, pidx = estr(a[1].kids[0]), estr(a[1].kids[1])
            ccol, cidx = estr(a[2].kids[0]), estr(a[2].kids[1])
            ok = "parent" in pcol and "child" in ccol and pidx == cidx
            why = "%s[%s], %s[%s]" % (pcol, pidx, ccol, cidx)
            if ok and nm == "tsk_tree_insert_edge":
                eid = estr(a[3]) if len(a) > 3 and a[3] is not None else None
                ok = eid == pidx
                why += ", edge id %s" % eid
            if ok:
                # e itself must come out of an order array: e = order[j]
                d = [x for x in walk(fn.body) if x.k == "BinaryOperator" and x.op == "=" and estr(x.kids[0]) == pidx]
                ok = bool(d) and all(strip(x.kids[1]) is not None and strip(x.kids[1]).k == "ArraySubscriptExpr" and
                                     re.search(r"order|^[IO]$", estr(strip(x.kids[1]).kids[0])) for x in d)
                why += "; %s = %s" % (pidx, sorted({estr(x.kids[1]) for x in d}))
            ctx.ob(rule, key, ok, tu.loc(c), why)
    ctx.floor(rule, floor)
    return n
