"""C11 - Editing operations change only what they document and preserve everything else (structural clauses)."""
from __future__ import annotations

from . import scopes, lib_mem, lib_kind, lib_kind3, lib_kind4
from . import lib_py, lib_schema, lib_module

LEVEL = "other"
EXPLANATION = ("Column completeness of every in-place table rebuild in the Python editors, half-open interval membership, row-"
               "forwarding (metadata travels with re-emitted rows) and argument/parameter agreement in the C editors, editors work "
               "on a copy and return through the validity gate, byte lengths of metadata come from the object. Does not decide that "
               "trees inside retained intervals are unchanged.")
EDITORS = ["keep_intervals", "delete_intervals", "delete_sites", "ltrim", "rtrim", "trim", "split_edges", "decapitate", "extend_haplotypes"]


def run(ctx):
    py = ctx.python()
    P = ctx.program()
    ps, ms = scopes.py_scope("C11"), scopes.module_scope("C11")
    ced = lambda f: f in ("tsk_table_collection_delete_older", "tsk_treeseq_split_edges", "tsk_treeseq_extend_haplotypes",
                          "tsk_treeseq_slide_mutation_nodes_up", "extend_haplotypes_iter") or f.startswith("haplotype_extender")
    lib_py.setcols_complete(ctx, py)
    lib_py.half_open(ctx, py)
    lib_py.gate_before_return(ctx, py, EDITORS)
    lib_py.kw_forward(ctx, py, mods=("trees", "tables"), only=ps)
    lib_py.unused_params(ctx, py, mods=("trees", "tables", "util", "intervals"), only=lambda m, q: ps(m, q) or m in ("intervals",))
    lib_kind.py_lints(ctx, py, mods=("trees", "tables", "util", "intervals"), only=lambda m, q: ps(m, q) or m in ("intervals",))
    lib_kind3.shared_instance_escape(ctx, py)
    lib_kind4.shift_kind(ctx, py)
    lib_py.ll_positional(ctx, py, P, only=ps)
    lib_schema.argname(ctx, P, funcs=ced)
    lib_schema.row_forwarding(ctx, P, funcs=ced)
    lib_module.bytes_length(ctx, P, only=ms)
    lib_module.parsed_used(ctx, P, only=ms)
    lib_module.format_types(ctx, P, only=ms)
    lib_mem.c_lints(ctx, ctx.program(), scopes.lib_scope("C11"))
    from . import lib_kind5
    lib_kind5.sort_bookmark(ctx, ctx.program())
    lib_kind5.py_nan_coord(ctx, py)
    lib_kind5.validate_before_clear(ctx, ctx.program())
