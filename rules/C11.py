"""C11 - Editing operations change only what they document and preserve everything else (structural clauses)."""
from __future__ import annotations

from . import lib_py, lib_schema, lib_guards, lib_module
from sa.schema import load_schemas

LEVEL = "other"
EXPLANATION = ("Column completeness of every in-place table rebuild in the Python editors, row-forwarding (metadata travels with "
               "re-emitted rows) and argument/parameter agreement in the C editors, editors work on a copy and return through "
               "the validity gate. Does not decide that trees inside retained intervals are unchanged.")
EDITORS = ["simplify", "keep_intervals", "delete_intervals", "delete_sites", "ltrim", "rtrim", "trim", "subset", "union",
           "split_edges", "decapitate", "extend_haplotypes"]


def run(ctx):
    py = ctx.python()
    P = ctx.program()
    lib_py.setcols_complete(ctx, py)
    lib_py.gate_before_return(ctx, py, EDITORS)
    lib_py.kw_forward(ctx, py, mods=("trees", "tables"))
    lib_py.unused_params(ctx, py, mods=("trees", "tables", "util", "intervals"))
    lib_schema.argname(ctx, P)
    lib_schema.row_forwarding(ctx, P)
    lib_py.half_open(ctx, py)
    lib_module.bytes_length(ctx, P)
    lib_module.parsed_used(ctx, P)
