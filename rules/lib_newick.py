"""C18 rules: bounded writes in the C newick converter (A10), fast/general path agreement, label pairing."""
from __future__ import annotations

import ast
import re

from sa.cfg import CFG
from sa.expr import strip, walk, callee, estr, xstr, is_assign, calls
from sa.pyfront import call_name, params_of
from sa.schema import Facts

LT1, LT, LE, UNK = 3, 2, 1, 0     # s+1 < B  =>  s < B  =>  s <= B


def _typestate(cfg, buf, size, cur):
    def edge_fact(node, lab):
        if node.kind != "cond" or node.ast is None:
            return None
        t = estr(node.ast)
        if t == "(%s >= %s)" % (cur, size) and lab is False:
            return LT
        if t == "(%s < %s)" % (cur, size) and lab is True:
            return LT
        if t == "((%s + 1) >= %s)" % (cur, size) and lab is False:
            return LT1
        return None

    def transfer(node, st):
        a = node.ast
        if a is None or node.kind not in ("stmt",):
            return st
        for x in walk(a):
            if x.k == "UnaryOperator" and x.op == "++" and estr(x.kids[0]) == cur:
                st = {LT1: LT, LT: LE}.get(st, UNK)
            elif x.k == "CompoundAssignOperator" and estr(x.kids[0]) == cur:
                st = UNK
            elif is_assign(x) and estr(x.kids[0]) == cur:
                st = LE if estr(x.kids[1]) == "0" else UNK
            elif x.k == "VarDecl" and x.name == cur and x.kids and x.kids[-1] is not None:
                st = LE if estr(x.kids[-1]) == "0" else UNK
        return st
    state = {n: None for n in cfg.nodes}
    state[cfg.entry] = UNK
    work = [cfg.entry]
    while work:
        n = work.pop()
        out = transfer(n, state[n])
        for s_, lab in n.succ:
            v = out
            ef = edge_fact(n, lab)
            if ef is not None:
                v = max(v, ef)
            old = state[s_]
            new = v if old is None else min(old, v)
            if new != old:
                state[s_] = new
                work.append(s_)
    return state


def typestate_stores(cfg, buf, size, cur):
    """[bool] per store buf[cur] in CFG order: is `cur < size` established when the store executes?"""
    state = _typestate(cfg, buf, size, cur)
    out = []
    for n in cfg.nodes:
        if n.ast is None or n.kind != "stmt":
            continue
        for x in walk(n.ast):
            if is_assign(x):
                l = strip(x.kids[0])
                if l is not None and l.k == "ArraySubscriptExpr" and estr(l.kids[0]) == buf and estr(l.kids[1]) == cur:
                    out.append((x.b, (state[n] or UNK) >= LT))
    return [v for _, v in sorted(out)]


def bounded_writes(ctx, P, rule="NEWICK-BOUNDED"):
    ctx.rule(rule, "in tsk_newick_converter_run every store buffer[s] is reached only with s < buffer_size established since the "
                   "last change of s, buffer[s + 1] only with s + 1 < buffer_size, and every snprintf writes at buffer + s with "
                   "size buffer_size - s while s <= buffer_size (typestate over the CFG: `if (s >= buffer_size) error` establishes "
                   "s < B on fall-through, s++ weakens one step, s += r loses the bound)")
    tu = P.tus["convert"]
    fn = P.need("tsk_newick_converter_run", "convert")
    cfg = CFG(fn)
    buf, size, cur = "buffer", "buffer_size", "s"

    def edge_fact(node, lab):
        if node.kind != "cond" or node.ast is None:
            return None
        t = estr(node.ast)
        if t == "(%s >= %s)" % (cur, size) and lab is False:
            return LT
        if t == "(%s < %s)" % (cur, size) and lab is True:
            return LT
        if t == "((%s + 1) >= %s)" % (cur, size) and lab is False:
            return LT1
        return None

    def transfer(node, st):
        a = node.ast
        if a is None or node.kind not in ("stmt",):
            return st
        for x in walk(a):
            if x.k == "UnaryOperator" and x.op == "++" and estr(x.kids[0]) == cur:
                st = {LT1: LT, LT: LE}.get(st, UNK)
            elif x.k == "CompoundAssignOperator" and estr(x.kids[0]) == cur:
                st = UNK
            elif is_assign(x) and estr(x.kids[0]) == cur:
                st = LE if estr(x.kids[1]) == "0" else UNK      # 0 <= B for an unsigned size
            elif x.k == "VarDecl" and x.name == cur and x.kids and x.kids[-1] is not None:
                st = LE if estr(x.kids[-1]) == "0" else UNK
        return st
    state = {n: None for n in cfg.nodes}
    state[cfg.entry] = UNK
    work = [cfg.entry]
    while work:
        n = work.pop()
        out = transfer(n, state[n])
        for s_, lab in n.succ:
            v = out
            ef = edge_fact(n, lab)
            if ef is not None:
                v = max(v, ef)
            old = state[s_]
            new = v if old is None else min(old, v)
            if new != old:
                state[s_] = new
                work.append(s_)
    nst = 0
    for n in cfg.nodes:
        if n.ast is None or n.kind != "stmt":
            continue
        st = state[n] if state[n] is not None else UNK
        for x in walk(n.ast):
            if is_assign(x):
                l = strip(x.kids[0])
                if l is not None and l.k == "ArraySubscriptExpr" and estr(l.kids[0]) == buf:
                    idx = estr(l.kids[1])
                    need = LT if idx == cur else (LT1 if idx == "(%s + 1)" % cur else None)
                    nst += 1
                    ok = need is not None and st >= need
                    ctx.ob(rule, "store|%s[%s]@%d" % (buf, idx, nst), ok, tu.loc(x),
                           "bound %s established" % ("s<B" if need == LT else "s+1<B") if ok else
                           "store %s[%s] reachable without `%s < %s` being established after the last change of %s" % (buf, idx, idx, size, cur))
            if x.k == "CallExpr" and callee(x) == "snprintf":
                a = [estr(y) for y in x.kids[1:3]]
                nst += 1
                ok = a[0] == "(%s + %s)" % (buf, cur) and a[1] == "(%s - %s)" % (size, cur) and st >= LE
                ctx.ob(rule, "snprintf@%d" % nst, ok, tu.loc(x), "snprintf(%s, %s, …) with %s" % (a[0], a[1], "s<=B" if st >= LE else "no bound on s"))
    ctx.ob(rule, "instances", nst >= 6, tu.loc(fn.node), "%d stores / format calls analysed" % nst)
    # every snprintf result is tested for < 0 and s re-checked afterwards (ERR-CHECK covers the first part)
    F = Facts(P, fn)
    okt = all(any(l == "r" for l, o, r, n in F.assigns) for _ in [0])
    # root guard / virtual root: time[] has num_nodes entries
    src = tu.src(fn.body)
    ctx.ob(rule, "stack-bound", "tsk_tree_get_size_bound" in "".join(tu.src(f.body) for f in tu.funcs.values()), tu.loc(fn.node),
           "traversal stack sized by tsk_tree_get_size_bound")


def path_agreement(ctx, P, py, rule="NEWICK-PATHS"):
    ctx.rule(rule, "the fast (C) and general (Python) newick paths agree by construction: sample labels n<id> / legacy labels id+1 on "
                   "leaves, branch length format `:` + fixed precision, branch lengths only on non-root nodes (emitted per child), "
                   "precision default 0 iff discrete_time else 17 decided with `is None`, path selection covers exactly "
                   "{default or legacy labels} and lengths included; nexus names trees by interval and calls the same as_newick; "
                   "FASTA / NEXUS rows pair alignments() with samples()")
    tu = P.tus["convert"]
    fn = P.need("tsk_newick_converter_run", "convert")
    src = tu.src(fn.body)
    F = Facts(P, fn)
    ctx.ob(rule, "C|label-format", '"%d" : "n%d"' in src.replace("\n", " "), tu.loc(fn.node), 'label format ms ? "%d" : "n%d"')
    ctx.ob(rule, "C|ms-label", any(l == "label" and r in ("(v + 1)", "((int)v + 1)") for l, o, r, n in F.assigns) or "(int) v + 1" in src, tu.loc(fn.node), "legacy label = v + 1 on leaves")
    ctx.ob(rule, "C|sample-label", "flags[v] & TSK_NODE_IS_SAMPLE" in src, tu.loc(fn.node), "default label on sample nodes")
    ctx.ob(rule, "C|branch-format", '":%.*f"' in src, tu.loc(fn.node), 'branch length format ":%.*f"')
    from sa.expr import calls as _calls, callee as _callee
    prints = [c for c in _calls(fn.body) if any(x.k == "DeclRefExpr" and x.ref == "branch_length" for a in c.kids[1:] for x in walk(a))]
    badp = [c for c in prints if not ('":%.*f"' in tu.src(c) and any("precision" in estr(a) for a in c.kids[1:]))]
    ctx.ob(rule, "C|branch-format-every-path", bool(prints) and not badp, tu.loc(badp[0]) if badp else tu.loc(fn.node),
           "every call that prints branch_length uses \":%.*f\" with the requested precision (as the Python path does)" if not badp else
           "`%s` prints the branch length without the fixed-precision format the Python path uses" % " ".join(tu.src(badp[0]).split())[:90])
    bl = [n for l, o, r, n in F.assigns if l == "branch_length"]
    okb = bool(bl) and any("(u != root_parent)" in xstr(i.kids[0], F.al) for i, br in F.enclosing_ifs(bl[0]))
    ctx.ob(rule, "C|branch-nonroot", okb, tu.loc(fn.node), "branch length emitted only when the node is not the chosen root")
    ctx.ob(rule, "C|branch-value", any(l == "branch_length" and r in ("(time[u] - time[v])", "(self->tree->tree_sequence->tables->nodes.time[u] - self->tree->tree_sequence->tables->nodes.time[v])") for l, o, r, n in F.assigns),
           tu.loc(fn.node), "branch length = time[parent] - time[node]")
    m = py.mod("trees")
    fa = py.func("trees", "Tree.as_newick")
    s = ast.unparse(fa)
    ctx.ob(rule, "py|default-labels", "{u: f'n{u}' for u in self.tree_sequence.samples()}" in s, m.loc(fa), "default labels n<id> for samples")
    ctx.ob(rule, "py|legacy-labels", "{u: f'{u + 1}' for u in self.leaves()}" in s, m.loc(fa), "legacy labels id+1 on leaves")
    ctx.ob(rule, "py|precision-default", "if precision is None:" in s and "precision = 0 if self.tree_sequence.discrete_time else 17" in s, m.loc(fa),
           "precision defaults (with `is None`) to 0 iff discrete_time else 17")
    ctx.ob(rule, "py|path-select", "if include_branch_lengths and node_labels in [LEGACY_MS_LABELS, None]:" in s, m.loc(fa), "fast path iff lengths included and labels default/legacy")
    ctx.ob(rule, "py|fast-args", "legacy_ms_labels=node_labels == LEGACY_MS_LABELS" in s and "root=root" in s and "precision=precision" in s, m.loc(fa), "fast path receives root, precision, legacy flag")
    # the buffer handed to the C path is sized from the widest branch length that can be printed, i.e. from a DIFFERENCE of times
    # (root time minus the smallest node time), not from the root's absolute time: node times may be negative
    ff = py.func("trees", "Tree._as_newick_fast")
    logs = [c for c in ast.walk(ff) if isinstance(c, ast.Call) and ast.unparse(c.func) in ("math.log10", "np.log10", "numpy.log10")]

    def expanded(e, depth=3):
        t = ast.unparse(e)
        if depth > 0:
            for nme in [x.id for x in ast.walk(e) if isinstance(x, ast.Name)]:
                for a_ in ast.walk(ff):
                    if isinstance(a_, ast.Assign) and any(isinstance(t_, ast.Name) and t_.id == nme for t_ in a_.targets):
                        t += " " + expanded(a_.value, depth - 1)
        return t
    # the digit count of a branch length is taken either from log10(x) or from len(str(int(x))): x is the "width source"
    lens = [c for c in ast.walk(ff) if isinstance(c, ast.Call) and ast.unparse(c.func) == "len" and c.args
            and isinstance(c.args[0], ast.Call) and ast.unparse(c.args[0].func) == "str"]
    sources = [c.args[0] for c in logs if c.args] + [c.args[0].args[0] for c in lens if c.args[0].args]
    width_args = [expanded(e) for e in sources if "num_nodes" not in ast.unparse(e)]
    okw = bool(width_args) and all(re.search(r"self\.time\(root\)\s*-", w) and re.search(r"min", w) for w in width_args)
    ctx.ob(rule, "py|fast-buffer-width", okw, m.loc(logs[0]) if logs else m.loc(ff),
           "digits of a branch length are estimated from time(root) minus the smallest node time" if okw else
           "the buffer for the C path is sized from `%s`: a branch length is a difference of times, and with negative node times it "
           "has more digits than the root's time (TSK_ERR_BUFFER_OVERFLOW on the fast path only)" % (width_args[0][:80] if width_args else "?"))
    # ... and the count is exact: ceil(log10(x)) is 0 for every x below 10 and one short for 10, 100, …; the accepted forms are
    # len(str(int(x))) and floor(log10(x)) + 1
    ceil_logs = [c for c in ast.walk(ff) if isinstance(c, ast.Call) and ast.unparse(c.func) in ("math.ceil", "np.ceil")
                 and c.args and any(l_ is y for l_ in logs for y in ast.walk(c.args[0]))]
    ctx.ob(rule, "py|fast-buffer-digits", not ceil_logs, m.loc(ceil_logs[0]) if ceil_logs else m.loc(ff),
           "digit counts in the buffer estimate are exact (len(str(int(x))) / floor(log10(x)) + 1)" if not ceil_logs else
           "`%s` undercounts digits (0 for every value below 10, one short for powers of ten): the C path gets a buffer that is too "
           "small for chains of labelled nodes" % ast.unparse(ceil_logs[0])[:60])
    tm = py.mod("text_formats")
    bn = tm.funcs.get("_build_newick")
    if bn is None:
        # the general path was restructured (e.g. made iterative): the recursive shape witnesses do not apply; what must still
        # hold is that the chosen root never gets a branch length: the ':' suffix is appended per child of a children loop, or
        # under a test that compares the node with `root` (a parent-is-NULL test gives a non-root subtree root a spurious length)
        bn = py.func("text_formats", "build_newick")
        colon = [c for c in ast.walk(bn) if isinstance(c, ast.Constant) and isinstance(c.value, str) and c.value.startswith(":")]
        ctx.need(bool(colon), "text_formats.build_newick: branch length suffix")
        par = {}
        for x in ast.walk(bn):
            for ch in ast.iter_child_nodes(x):
                par[id(ch)] = x
        okc = True
        for c in colon:
            x, good = c, False
            while id(x) in par:
                x = par[id(x)]
                if isinstance(x, ast.For) and "children(" in ast.unparse(x.iter):
                    good = True
                if isinstance(x, ast.If) and any(isinstance(n, ast.Name) and n.id == "root" for n in ast.walk(x.test)):
                    good = True
            okc = okc and good
        ctx.ob(rule, "py|branch-per-child", okc, tm.loc(colon[0]),
               "branch lengths are appended per child or under a comparison with `root` (the chosen root never gets one)" if okc else
               "a branch length is appended under a test that does not mention `root`: a subtree root with a parent gets a spurious length")
        okf = any(isinstance(c, ast.Call) and isinstance(c.func, ast.Attribute) and c.func.attr == "format" and isinstance(c.func.value, ast.Constant)
                  and c.func.value.value == ":{0:.{1}f}" and len(c.args) == 2 and ast.unparse(c.args[1]) == "precision" for c in ast.walk(bn))
        ctx.ob(rule, "py|branch-format", okf, tm.loc(bn), "':{0:.{1}f}'.format(<branch length>, precision)")
    else:
        # the ':' branch length append must be inside the loop over children
        loops = [l for l in ast.walk(bn) if isinstance(l, ast.For) and "tree.children(node)" in ast.unparse(l.iter)]
        ctx.ob(rule, "py|children-loop", len(loops) == 1, tm.loc(bn), "one loop over tree.children(node)")
        inside = set()
        for l in loops:
            for x in ast.walk(l):
                inside.add(id(x))
        colon = [c for c in ast.walk(bn) if isinstance(c, ast.Constant) and isinstance(c.value, str) and c.value.startswith(":")]
        ok = bool(colon) and all(id(c) in inside for c in colon)
        ctx.ob(rule, "py|branch-per-child", ok, tm.loc(colon[0] if colon else bn),
               "branch lengths are appended per child inside the children loop (the chosen root never gets one)" if ok else
               "a branch length is appended outside the per-child loop: a subtree root with a parent gets a spurious length")
        # name-independent: ':{0:.{1}f}'.format(X, precision) where X is tree.branch_length(<loop variable>) or a local defined so
        okf = False
        for c in ast.walk(bn):
            if isinstance(c, ast.Call) and isinstance(c.func, ast.Attribute) and c.func.attr == "format" and isinstance(c.func.value, ast.Constant) \
                    and c.func.value.value == ":{0:.{1}f}" and len(c.args) == 2 and ast.unparse(c.args[1]) == "precision":
                x = c.args[0]
                child = loops[0].target.id if loops and isinstance(loops[0].target, ast.Name) else None
                want = "tree.branch_length(%s)" % child
                if ast.unparse(x) == want:
                    okf = True
                elif isinstance(x, ast.Name):
                    ds = [a for a in ast.walk(bn) if isinstance(a, ast.Assign) and any(isinstance(t, ast.Name) and t.id == x.id for t in a.targets)]
                    okf = len(ds) == 1 and ast.unparse(ds[0].value) == want
        ctx.ob(rule, "py|branch-format", okf, tm.loc(bn), "':{0:.{1}f}'.format(tree.branch_length(child), precision)")
        ctx.ob(rule, "py|branch-cond", all(ast.unparse(i.test) in ("include_branch_lengths", "tree.is_leaf(node)") for i in ast.walk(bn) if isinstance(i, ast.If)),
               tm.loc(bn), "branch length depends only on include_branch_lengths")

    for name in ("write_fasta", "write_nexus"):
        f = py.func("text_formats", name)
        # structural, name-independent: a loop over zip(ts.samples(), <alignments>) whose label uses the first target
        ok = False
        ok2 = False
        aln_vars = set()
        for a in ast.walk(f):
            if isinstance(a, ast.Assign) and isinstance(a.value, ast.Call) and call_name(a.value) == "ts.alignments":
                kws = {k.arg: ast.unparse(k.value) for k in a.value.keywords}
                ok2 = kws.get("reference_sequence") == "reference_sequence" and kws.get("missing_data_character") == "missing_data_character"
                aln_vars |= {t.id for t in a.targets if isinstance(t, ast.Name)}
        for lp in ast.walk(f):
            if isinstance(lp, ast.For) and isinstance(lp.iter, ast.Call) and call_name(lp.iter) == "zip" and len(lp.iter.args) == 2:
                a0, a1 = lp.iter.args
                if ast.unparse(a0) == "ts.samples()" and isinstance(a1, ast.Name) and a1.id in aln_vars \
                        and isinstance(lp.target, ast.Tuple) and len(lp.target.elts) == 2 and isinstance(lp.target.elts[0], ast.Name):
                    uid = lp.target.elts[0].id
                    labels = [j for j in ast.walk(lp) if isinstance(j, ast.JoinedStr) and ast.unparse(j) == "f'n{%s}'" % uid]
                    ok = bool(labels)
        ctx.ob(rule, "%s|sample-pairing" % name, ok, tm.loc(f), "rows pair zip(ts.samples(), alignments) and are labelled n<sample id>")
        ctx.ob(rule, "%s|alignments" % name, ok2, tm.loc(f), "sequences come from ts.alignments(...) with the options forwarded")
    nx = ast.unparse(py.func("text_formats", "write_nexus"))
    ctx.ob(rule, "nexus|taxlabels", "' '.join((f'n{u}' for u in ts.samples()))" in nx, tm.loc(py.func("text_formats", "write_nexus")), "TAXLABELS list every sample as n<id>")
    ctx.ob(rule, "nexus|tree-label", "tree.interval.left" in nx and "tree.interval.right" in nx and "f't{start_interval}^{end_interval}'" in nx, tm.loc(py.func("text_formats", "write_nexus")), "trees named t<left>^<right>")
    ctx.ob(rule, "nexus|newick", "tree.as_newick(precision=time_precision)" in nx, tm.loc(py.func("text_formats", "write_nexus")), "same as_newick strings")
    # the DATA block is on by default whenever there are SITES (a site without mutations still has a column: the ancestral state)
    wn = py.func("text_formats", "write_nexus")
    dflt = [a for a in ast.walk(wn) if isinstance(a, ast.Assign) and any(isinstance(t, ast.Name) and t.id == "include_alignments" for t in a.targets)]
    okd = bool(dflt) and all("num_sites" in ast.unparse(a.value) and "num_mutations" not in ast.unparse(a.value) for a in dflt)
    ctx.ob(rule, "nexus|default-alignments", okd, tm.loc(dflt[0] if dflt else wn),
           "alignments are included by default when the tree sequence has sites" if okd else
           "the default for include_alignments is `%s`: it must depend on num_sites, not on mutations" % (ast.unparse(dflt[0].value)[:60] if dflt else "?"))
    wt = ast.unparse(py.func("text_formats", "wrap_text"))
    ok = "yield text[offset:offset + width]" in wt and "offset += width" in wt and "if offset != len(text):" in wt and "yield text[offset:]" in wt \
        and "N = len(text) // width" in wt and "width = len(text) if width == 0 else width" in wt
    ctx.ob(rule, "wrap_text|partition", ok, tm.loc(py.func("text_formats", "wrap_text")), "slices [offset, offset+width) advance by width and the tail is emitted: the lines partition the text")


NONE_TRUTHY_OK = {("trees", "TreeSequence.variants", "copy"), ("genotypes", "Variant.frequencies", "remove_missing")}


def none_defaults(ctx, py, mods=("trees", "tables", "text_formats", "vcf", "genotypes", "stats"), rule="PY-NONE-DEFAULT", only=None):
    ctx.rule(rule, "a parameter whose default is None is defaulted with `is None`, never by truthiness (`if not p` / `p or d`), so a "
                   "legal falsy value such as precision=0 is honoured (boolean options excepted by name)")
    n = 0
    for mn in mods:
        m = py.mod(mn)
        for qn, fn in m.funcs.items():
            if only is not None and not only(mn, qn):
                continue
            names, kwonly, defaults = params_of(fn)
            nonep = {p for p, d in defaults.items() if isinstance(d, ast.Constant) and d.value is None}
            if not nonep:
                continue
            bad = []
            for x in ast.walk(fn):
                t = None
                if isinstance(x, (ast.If, ast.IfExp)):
                    t = x.test
                    if isinstance(t, ast.UnaryOp) and isinstance(t.op, ast.Not):
                        t = t.operand
                    if isinstance(t, ast.Name) and t.id in nonep and (mn, qn, t.id) not in NONE_TRUTHY_OK:
                        bad.append((t.id, x))
                if isinstance(x, ast.BoolOp) and isinstance(x.op, ast.Or) and isinstance(x.values[0], ast.Name) and x.values[0].id in nonep:
                    bad.append((x.values[0].id, x))
            n += 1
            ctx.ob(rule, "%s.%s" % (mn, qn), not bad, m.loc(bad[0][1] if bad else fn),
                   "None defaults tested with `is None`" if not bad else "`%s` (default None) is tested by truthiness: a falsy legal value is replaced by the default" % bad[0][0])
    return n
