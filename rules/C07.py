"""C07 - sort and repair tools reorder without changing content; result loads (structural clauses)."""
from __future__ import annotations

from . import scopes, lib_mem, lib_kind, lib_kind4
from . import lib_order, lib_schema, lib_gate, lib_module, lib_py, lib_sweep

LEVEL = "other"
EXPLANATION = ("Comparator chains are well formed and equal the documented key orders; sort keys are filled from the right "
               "columns; sorters forward every row field and read permuted metadata from the saved copy starting at the bookmark; "
               "repair tools enter through the integrity gate; the mutation-parent/time sweeps keep the full termination "
               "condition; Python/C option plumbing of sort bookmarks. Does not decide idempotence or 'same trees and genotypes'.")


def run(ctx):
    P = ctx.program()
    py = ctx.python()
    ps, ms = scopes.py_scope("C07"), scopes.module_scope("C07")
    sorter = lambda f: f.startswith("tsk_table_sorter_") or f in ("tsk_table_collection_sort", "tsk_table_collection_canonicalise",
                                                                  "tsk_table_collection_deduplicate_sites", "tsk_table_collection_compute_mutation_parents",
                                                                  "tsk_table_collection_compute_mutation_times", "tsk_table_collection_build_index")
    lib_order.comparators(ctx, P)
    lib_order.sorter_keys(ctx, P)
    lib_order.bookmark_cursor(ctx, P)
    lib_order.sorter_run(ctx, P)
    lib_order.memcpy_alias(ctx, P, funcs=sorter)
    lib_schema.argname(ctx, P, tus=("tables",), funcs=sorter)
    lib_schema.row_forwarding(ctx, P, tus=("tables",), funcs=sorter)
    lib_gate.gate(ctx, P, only={"tsk_table_collection_sort", "tsk_table_collection_canonicalise", "tsk_table_collection_build_index",
                                "tsk_table_collection_deduplicate_sites", "tsk_table_collection_compute_mutation_parents",
                                "tsk_table_collection_compute_mutation_times", "tsk_table_sorter_init",
                                "tsk_table_collection_individual_topological_sort"})
    lib_sweep.sweep_conditions(ctx, P, tus=["tables"])
    lib_sweep.sweep_inverse(ctx, P, tus=["tables"])
    lib_module.parsed_used(ctx, P, only=ms)
    lib_py.kw_forward(ctx, py, mods=("tables",), only=ps)
    lib_py.unused_params(ctx, py, mods=("tables",), only=ps)
    lib_kind.py_lints(ctx, py, mods=("tables",), only=ps)
    lib_kind4.full_sort(ctx, py)
    lib_kind4.sort_last(ctx, py)
    lib_py.ll_positional(ctx, py, P, only=ps)
    lib_mem.c_lints(ctx, ctx.program(), scopes.lib_scope("C07"))
    from . import lib_kind5
    lib_kind5.sort_bookmark(ctx, ctx.program())
