"""C03 - Decoded genotypes follow nearest-mutation inheritance and missing-data rules (structural clauses)."""
from __future__ import annotations

from . import scopes, lib_mem, lib_kind
from . import lib_variant, lib_module, lib_py, lib_guards, lib_vcf

LEVEL = "other"
EXPLANATION = ("Event order and conditions in tsk_variant_decode, unconditional child pushes in the genotype traversals, the missing-"
               "data marker visits every root, isolated_as_missing polarity end to end (C flag, module keyword, deprecated Python "
               "alias, option forwarding), exact sample-list guards. Does not decide nearest-mutation inheritance or agreement of "
               "the five entry points at value level.")


def run(ctx):
    P = ctx.program()
    py = ctx.python()
    ps, ms = scopes.py_scope("C03"), scopes.module_scope("C03")
    lib_variant.variant_decode(ctx, P)
    lib_variant.traversal_push(ctx, P, tus=["genotypes"])
    lib_vcf.mark_missing(ctx, P)
    lib_module.options_plumbing(ctx, P, funcs={"Variant_init"})
    lib_module.flags_consumed(ctx, P, funcs={"Variant_init"})
    lib_module.array_flags(ctx, P, only=ms)
    lib_module.parsed_used(ctx, P, only=ms)
    lib_py.alias_polarity(ctx, py)
    lib_py.kw_forward(ctx, py, mods=("trees", "genotypes"), only=ps)
    lib_py.unused_params(ctx, py, mods=("trees", "genotypes"), only=ps)
    lib_kind.py_lints(ctx, py, mods=("trees", "genotypes"), only=ps)
    lib_py.ll_positional(ctx, py, P, only=ps)
    funcs = {"variant_init_samples_and_index_map"}
    seen = lib_guards.analyse(ctx, P, funcs=funcs)
    lib_guards.presence(ctx, seen, funcs=funcs, P=P)
    lib_py.decode_every(ctx, py)
    lib_kind.py_searchsorted(ctx, py, [("trees", "TreeSequence.variants"), ("trees", "TreeSequence._haplotypes_array")])
    lib_variant.variant_copy(ctx, P)
    lib_kind.alignments_window(ctx, py)
    lib_kind.py_copy_state(ctx, py, [("genotypes", "Variant")])
    lib_variant.sample_walks(ctx, P, tus=("genotypes",), floor=1)
    lib_module.name_agreement(ctx, P, classes=("Variant",), floor=5)
    lib_module.module_every_path(ctx, P, classes=("Variant",), floor=1)
    lib_module.owned_arrays(ctx, P)          # Variant.genotypes is a read-only view of the decoder's buffer
    lib_py.facade_names(ctx, py, P, classes=(("genotypes", "Variant"),), floor=5)
    lib_mem.c_lints(ctx, ctx.program(), scopes.lib_scope("C03"))
    from . import lib_kind5
    lib_kind5.variant_samples_pair(ctx, ctx.program())
    lib_kind5.memset_args(ctx, ctx.program())
    lib_kind5.utf8_size(ctx, ctx.program())
