"""C18 - Newick, Nexus and FASTA exports encode the trees and sequences faithfully (structural clauses)."""
from __future__ import annotations

from . import scopes, lib_newick, lib_guards, lib_module, lib_py, lib_variant, lib_err, lib_mem, lib_kind

LEVEL = "other"
EXPLANATION = ("Bounded writes in the C newick converter (typestate), exact root / precision / buffer guards, agreement of the fast "
               "and general newick paths on labels, branch format and root handling, None-defaults decided with `is None`, sample/"
               "alignment pairing in FASTA and NEXUS, wrap_text partition, unconditional child pushes. Does not decide that the "
               "Python buffer-size estimate is an upper bound nor parse-back equality.")


def run(ctx):
    P = ctx.program()
    py = ctx.python()
    lib_newick.bounded_writes(ctx, P)
    lib_newick.path_agreement(ctx, P, py)
    ps, ms = scopes.py_scope("C18"), scopes.module_scope("C18")
    lib_newick.none_defaults(ctx, py, only=ps)
    lib_variant.traversal_push(ctx, P, tus=["convert"])
    funcs = {"tsk_newick_converter_run"}
    seen = lib_guards.analyse(ctx, P, funcs=funcs)
    lib_guards.presence(ctx, seen, funcs=funcs, P=P)
    lib_module.options_plumbing(ctx, P, funcs={"Tree_get_newick"})
    lib_module.flags_consumed(ctx, P, funcs={"Tree_get_newick"})
    lib_module.parsed_used(ctx, P, only=ms)
    lib_err.discipline(ctx, P, ["convert"])
    lib_py.kw_forward(ctx, py, mods=("trees", "text_formats"), only=ps)
    lib_py.unused_params(ctx, py, mods=("trees", "text_formats"), only=ps)
    lib_kind.py_lints(ctx, py, mods=("trees", "text_formats"), only=ps)
    # module guards of Tree_get_newick: precision in [0, 17], buffer_size > 0
    tu = P.tus["module"]
    fn = P.need("Tree_get_newick", "module")
    src = tu.src(fn.body)
    rule = "NEWICK-ARGS"
    ctx.rule(rule, "Tree_get_newick rejects precision outside [0, 17] and buffer_size <= 0 before allocating and calling the converter")
    import re
    ctx.ob(rule, "precision", re.search(r"precision\s*<\s*0\s*\|\|\s*precision\s*>\s*17", src) is not None, tu.loc(fn.node), "precision < 0 || precision > 17 rejected")
    ctx.ob(rule, "buffer_size", re.search(r"buffer_size\s*<=\s*0", src) is not None, tu.loc(fn.node), "buffer_size <= 0 rejected")
    lib_kind.discrete_flags(ctx, ctx.program())
    lib_mem.c_lints(ctx, ctx.program(), scopes.lib_scope("C18"))
