"""A5: order-spec extraction from comparators and agreement with the documented key orders / the gate."""
from __future__ import annotations

import re

from sa.expr import strip, walk, estr, xstr, is_assign, callee, local_aliases
from sa.schema import Facts

# documented key orders (docs/data-model.md, table sorting requirements; Appendix C of DESIGN.md)
EXPECTED = {
    "cmp_edge": [("time", "asc"), ("parent", "asc"), ("child", "asc"), ("left", "asc")],
    "cmp_site": [("position", "asc"), ("id", "asc")],
    "cmp_mutation": [("site", "asc"), ("time", "desc"), ("id", "asc")],
    "cmp_mutation_canonical": [("mut.site", "asc"), ("mut.time", "desc"), ("num_descendants", "desc"), ("mut.node", "asc"), ("mut.id", "asc")],
    "cmp_migration": [("time", "asc"), ("source", "asc"), ("dest", "asc"), ("left", "asc"), ("node", "asc")],
    "cmp_individual_canonical": [("num_descendants", "desc"), ("first_node", "asc"), ("ind.id", "asc")],
    "cmp_index_sort": [("first", "asc"), ("second", "asc"), ("third", "asc"), ("fourth", "asc")],
}
KNOWN_TIME_GUARDED = {"cmp_mutation": 1, "cmp_mutation_canonical": 1}   # chain position guarded by !unknown(a) && !unknown(b)


def _field(n, var):
    """`var->a.b` -> 'a.b' (None if not rooted at var)."""
    n = strip(n)
    parts = []
    while n is not None and n.k == "MemberExpr":
        parts.append(n.name)
        n = strip(n.kids[0])
    if n is not None and n.k == "DeclRefExpr" and n.ref == var:
        return ".".join(reversed(parts))
    return None


def extract_chain(P, fn):
    """[(field, dir, node, problems)] for each `(a.f > b.f) - (a.f < b.f)` step in source order."""
    # the two operands: locals initialised from the parameters
    names = []
    for x in walk(fn.body):
        if x.k == "VarDecl" and x.kids and x.kids[-1] is not None:
            init = strip(x.kids[-1])
            if init is not None and init.k == "DeclRefExpr" and init.refkind == "ParmVarDecl":
                names.append((x.name, init.ref))
    pa = fn.params[0].name if fn.params else "a"
    va = [v for v, p in names if p == pa]
    vb = [v for v, p in names if p != pa]
    if not va or not vb:
        return None
    va, vb = va[0], vb[0]
    steps = []
    for x in walk(fn.body):
        if x.k == "BinaryOperator" and x.op == "-":
            l, r = strip(x.kids[0], casts=True), strip(x.kids[1], casts=True)
            if l is None or r is None or l.k != "BinaryOperator" or r.k != "BinaryOperator":
                continue
            if l.op not in ("<", ">") or r.op not in ("<", ">"):
                continue
            la, lb = _field(l.kids[0], va), _field(l.kids[1], vb)
            ra, rb = _field(r.kids[0], va), _field(r.kids[1], vb)
            probs = []
            if None in (la, lb, ra, rb):
                probs.append("operands are not (a-side field, b-side field) in both halves: %s" % estr(x))
            elif not (la == lb == ra == rb):
                probs.append("the two halves compare different fields: %s" % estr(x))
            if l.op == r.op:
                probs.append("both halves use `%s`" % l.op)
            direction = "asc" if l.op == ">" else "desc"
            steps.append((la, direction, x, probs))
    return steps


def comparators(ctx, P, rule="ORDER-CMP", only=None):
    ctx.rule(rule, "every sort comparator is a well-formed lexicographic chain (each step `(a.f > b.f) - (a.f < b.f)` uses one "
                   "field on both sides and opposite operators, later steps only under ret == 0) and its (field, direction) "
                   "sequence equals the documented key order")
    tu = P.tus["tables"]
    for name, exp in EXPECTED.items():
        if only is not None and name not in only:
            continue
        fn = P.func(name, "tables")
        ctx.need(fn is not None, "comparator %s" % name)
        steps = extract_chain(P, fn)
        if steps is None:
            ctx.ob(rule, name + "|shape", False, tu.loc(fn.node), "operands not recognised")
            continue
        for i, (f, d, node, probs) in enumerate(steps):
            ctx.ob(rule, "%s|step%d|wellformed" % (name, i), not probs, tu.loc(node), "; ".join(probs) or "%s %s" % (f, d))
        got = [(f, d) for f, d, _, _ in steps]
        ctx.ob(rule, name + "|chain", got == exp, tu.loc(fn.node), "chain %s; documented %s" % (got, exp))
        # steps after the first are guarded by ret == 0
        F = Facts(P, fn)
        for i, (f, d, node, probs) in enumerate(steps[1:], 1):
            conds = [xstr(j.kids[0], F.al) for j, br in F.enclosing_ifs(node)]
            ok = any("(ret == 0)" in c for c in conds)
            if name in KNOWN_TIME_GUARDED and i == KNOWN_TIME_GUARDED[name]:
                ok = ok and any(c.count("tsk_is_unknown_time") == 2 for c in conds)
            ctx.ob(rule, "%s|step%d|guard" % (name, i), ok, tu.loc(node), "tie-break guarded by %s" % conds)


def sorter_keys(ctx, P, rule="ORDER-KEYS"):
    ctx.rule(rule, "the sort keys are filled from the right columns: edge sort time = node_time[parent]; index sort keys are "
                   "(left, time[parent], parent, child) for insertion and (right, -time[parent], -parent, -child) for removal, "
                   "stored to edge_insertion_order / edge_removal_order respectively; qsort uses the matching comparator and element size")
    tu = P.tus["tables"]
    fn = P.need("tsk_table_sorter_sort_edges", "tables")
    F = Facts(P, fn)
    ok = F.has_assign("e->time", "node_time[e->parent]") is not None or F.has_assign("e->time", "self->tables->nodes.time[e->parent]") is not None
    ctx.ob(rule, "sort_edges|time-key", ok, tu.loc(fn.node), "e->time = node_time[e->parent]")
    for f_ in ("left", "right", "parent", "child"):
        ok = any(l == "e->" + f_ and r.endswith("%s[k]" % f_) for l, o, r, n in F.assigns) and \
            any(l.endswith("%s[k]" % f_) and r == "e->" + f_ for l, o, r, n in F.assigns)
        ctx.ob(rule, "sort_edges|roundtrip|%s" % f_, ok, tu.loc(fn.node), "%s copied out to the sort buffer and back" % f_)
    # qsort comparator / element size agreement everywhere
    for key in ("tables",):
        for g in P.tus[key].funcs.values():
            k = 0
            for c in walk(g.body):
                if c.k == "CallExpr" and callee(c) == "qsort":
                    a = c.kids[1:]
                    cmpf = strip(a[3])
                    size = estr(a[2])
                    base_ty = (strip(a[0]).ty or "") if strip(a[0]) is not None else ""
                    elem = base_ty.replace("*", "").replace("const", "").strip()
                    okc = True
                    why = "qsort(%s, …, %s, %s)" % (estr(a[0]), size, estr(a[3]))
                    if size not in ("sizeof(%s)" % elem, "sizeof(*%s)" % estr(a[0])):
                        okc, why = False, "element size %s does not match array of %s" % (size, elem)
                    want = QSORT_CMP.get((g.name, elem))
                    if want and cmpf is not None and cmpf.ref not in want:
                        okc, why = False, "%s sorted with %s (expected %s)" % (elem, cmpf.ref, "/".join(want))
                    ctx.ob(rule, "%s|qsort@%d" % (g.name, k), okc, P.tus[key].loc(c), why)
                    k += 1
    fn = P.need("tsk_table_collection_build_index", "tables")
    F = Facts(P, fn)
    seq = [(l, r) for l, o, r, n in F.assigns if l.startswith("sort_buff[j].") or l.startswith("self->indexes.edge_")]
    want = [("sort_buff[j].first", "self->edges.left[j]"), ("sort_buff[j].second", "time[parent]"), ("sort_buff[j].third", "parent"),
            ("sort_buff[j].fourth", "self->edges.child[j]"), ("self->indexes.edge_insertion_order[j]", "sort_buff[j].index"),
            ("sort_buff[j].first", "self->edges.right[j]"), ("sort_buff[j].second", "-time[parent]"), ("sort_buff[j].third", "-parent"),
            ("sort_buff[j].fourth", "-self->edges.child[j]"), ("self->indexes.edge_removal_order[j]", "sort_buff[j].index")]
    seq2 = [(l, r.replace("self->nodes.time", "time")) for l, r in seq if not l.endswith(".index") and "tsk_malloc" not in r]
    ctx.ob(rule, "build_index|keys", seq2 == want, tu.loc(fn.node), "index keys in order: %s" % seq2 if seq2 != want else "insertion/removal keys as documented")


QSORT_CMP = {
    ("tsk_table_sorter_sort_edges", "edge_sort_t"): ("cmp_edge",),
    ("tsk_table_sorter_sort_migrations", "migration_sort_t"): ("cmp_migration",),
    ("tsk_table_sorter_sort_sites", "tsk_site_t"): ("cmp_site",),
    ("tsk_table_sorter_sort_mutations", "tsk_mutation_t"): ("cmp_mutation",),
    ("tsk_table_sorter_sort_mutations_canonical", "mutation_canonical_sort_t"): ("cmp_mutation_canonical",),
    ("tsk_table_sorter_sort_individuals_canonical", "individual_canonical_sort_t"): ("cmp_individual_canonical",),
    ("tsk_table_collection_build_index", "index_sort_t"): ("cmp_index_sort",),
}


def bookmark_cursor(ctx, P, rule="ORDER-BOOKMARK"):
    ctx.rule(rule, "sorters that start at a bookmark (`start`) write the ragged metadata of the sorted rows beginning at "
                   "metadata_offset[start]: the write cursor that indexes `->metadata + cursor` is initialised from the offset "
                   "of row `start`, never from 0 (which would overwrite the unsorted prefix)")
    tu = P.tus["tables"]
    for name in ("tsk_table_sorter_sort_edges", "tsk_table_sorter_sort_migrations"):
        fn = P.need(name, "tables")
        F = Facts(P, fn)
        # cursor: second operand of `X->metadata + cursor` used as memcpy destination
        cursors = set()
        for a, n in F.calls_to("tsk_memcpy") + F.calls_to("tsk_memmove"):
            d = strip(n.kids[1])
            if d is not None and d.k == "BinaryOperator" and d.op == "+" and estr(d.kids[0]).endswith("->metadata"):
                c = strip(d.kids[1])
                if c is not None and c.k == "DeclRefExpr":
                    cursors.add(c.ref)
        ctx.ob(rule, name + "|cursor", len(cursors) == 1, tu.loc(fn.node), "metadata write cursor(s): %s" % sorted(cursors))
        for cur in cursors:
            inits = [r for l, o, r, n in F.assigns if l == cur and o == "="]
            ok = bool(inits) and all("metadata_offset[start]" in r for r in inits)
            ctx.ob(rule, "%s|%s-init" % (name, cur), ok, tu.loc(fn.node),
                   "`%s` initialised with %s" % (cur, inits))
        # the offset of every sorted row is rewritten whenever the table has metadata at all (an empty row still needs its offset)
        for l, o, r, nn in F.assigns:
            if o == "=" and re.search(r"(->|\.)metadata_offset\[\w+\]$", l) and not re.match(r"^(e|m)->", l):
                conds = [estr(i.kids[0]) for i, br in F.enclosing_ifs(nn)]
                okg = all(c == "has_metadata" for c in conds)
                ctx.ob(rule, name + "|offset-store-guard", okg, tu.loc(nn), "`%s = %s` under %s (no condition other than has_metadata: an empty row still needs its offset)" % (l, r, conds))
        # the copy-back reads each row's bytes from where THAT row was (the offset and length saved in the sort record), and the
        # write cursor advances by the length just written
        for a, n in F.calls_to("tsk_memcpy") + F.calls_to("tsk_memmove"):
            d, sr = strip(n.kids[1]), strip(n.kids[2])
            if d is None or sr is None or not (d.k == "BinaryOperator" and d.op == "+" and estr(d.kids[0]).endswith("->metadata")):
                continue
            so = strip(sr.kids[1]) if sr.k == "BinaryOperator" and sr.op == "+" else None
            oks = so is not None and so.k == "MemberExpr" and so.name == "metadata_offset"
            ctx.ob(rule, name + "|copy-back-source", bool(oks), tu.loc(n),
                   "copy-back reads from `%s`" % estr(sr) if oks else
                   "copy-back reads from `%s`: the source offset must be the sorted record's own saved metadata_offset, not the write cursor" % estr(sr))
            ln = strip(n.kids[3])
            okl = ln is not None and ln.k == "MemberExpr" and ln.name == "metadata_length" and so is not None and so.k == "MemberExpr" \
                and estr(ln.kids[0]) == estr(so.kids[0])
            ctx.ob(rule, name + "|copy-back-length", bool(okl), tu.loc(n), "length `%s` belongs to the same sort record as the source offset" % (estr(ln) if ln is not None else None))
            for cur in cursors:
                adv = [(o, r) for l, o, r, nn in F.assigns if l == cur and o == "+="]
                oka = bool(adv) and ln is not None and all(r == estr(ln) for o, r in adv)
                ctx.ob(rule, "%s|%s-advance" % (name, cur), oka, tu.loc(n), "`%s` advances by %s" % (cur, adv))


def memcpy_alias(ctx, P, rule="MEMCPY-ALIAS", tus=("tables",), funcs=None):
    ctx.rule(rule, "no tsk_memcpy copies within one table column (destination and source based on the same column path), and in the "
                   "sorters no tsk_memmove either: permuting rows in place must read from the saved copy, otherwise earlier writes "
                   "clobber later sources (memmove only makes ONE overlapping copy safe, not a permutation)")
    from sa.expr import local_aliases
    n = 0
    for key in tus:
        tu = P.tus[key]
        for fn in tu.funcs.values():
            if funcs is not None and not funcs(fn.name):
                continue
            al = None
            k = 0
            for c in walk(fn.body):
                if c.k == "CallExpr" and callee(c) in ("tsk_memcpy", "tsk_memmove", "memcpy", "memmove") and \
                        (callee(c) in ("tsk_memcpy", "memcpy") or re.search(r"sort", fn.name)):
                    al = al or local_aliases(fn)
                    def base(e):
                        e = strip(e)
                        while e is not None and e.k == "BinaryOperator" and e.op in ("+", "-"):
                            e = strip(e.kids[0])
                        if e is not None and e.k == "UnaryOperator" and e.op == "&":
                            e = strip(e.kids[0])
                            while e is not None and e.k == "ArraySubscriptExpr":
                                e = strip(e.kids[0])
                        return xstr(e, al) if e is not None else ""
                    d, s = base(c.kids[1]), base(c.kids[2])
                    if not d or not s:
                        continue
                    n += 1
                    ok = d != s
                    ctx.ob(rule, "%s@%d" % (fn.name, k), ok, tu.loc(c), "memcpy(%s…, %s…)" % (d, s) if ok else
                           "tsk_memcpy reads and writes the same column `%s`" % d)
                    k += 1
    return n


def sorter_run(ctx, P, rule="ORDER-RUN"):
    ctx.rule(rule, "tsk_table_sorter_run performs every sorting step unless exactly its documented skip condition holds: edges iff a "
                   "sort_edges hook is set, migrations iff the migration table is non-empty, sites and mutations iff not skip_sites "
                   "(the bookmark says they are already sorted) - no step depends on another table being non-empty")
    tu = P.tus["tables"]
    fn = P.need("tsk_table_sorter_run", "tables")
    F = Facts(P, fn)
    want = {"sort_edges": ["(self->sort_edges != NULL)"], "tsk_table_sorter_sort_migrations": ["(self->tables->migrations.num_rows > 0)"],
            "tsk_table_sorter_sort_sites": ["!skip_sites"], "sort_mutations": ["!skip_sites"]}
    found = {}
    for x in walk(fn.body):
        if x.k == "CallExpr":
            nm = callee(x)
            if nm is None:
                f0 = strip(x.kids[0])
                nm = f0.name if f0 is not None and f0.k == "MemberExpr" else None
            if nm in want:
                found[nm] = ([estr(i.kids[0]) for i, br in F.enclosing_ifs(x)], x)
    for nm, w in want.items():
        ent = found.get(nm)
        ok = ent is not None and ent[0] == w
        ctx.ob(rule, nm, ok, tu.loc(ent[1]) if ent else tu.loc(fn.node), "%s runs under %s (expected %s)" % (nm, ent[0] if ent else None, w))
    # every error exit that depends only on the bookmark precedes the first statement that changes the tables (drop_index)
    body_src = tu.src(fn.body)
    drop = body_src.find("tsk_table_collection_drop_index")
    late = [m_.start() for m_ in re.finditer(r"TSK_ERR_SORT_OFFSET_NOT_SUPPORTED|TSK_ERR_\w+_OUT_OF_BOUNDS", body_src) if drop != -1 and m_.start() > drop]
    ctx.ob(rule, "args-before-mutation", drop != -1 and not late, tu.loc(fn.node),
           "the bookmark is validated before the index is dropped and any row is moved" if (drop != -1 and not late) else
           "a bookmark error (%s) is raised after tsk_table_collection_drop_index: a rejected sort() has already dropped the index and "
           "reordered rows" % (re.search(r"TSK_ERR_\w+", body_src[late[0]:]).group(0) if late else "?"))
    # skip_sites is set only when BOTH bookmarks stand at the end of their tables (a default bookmark of 0 equals the row count of
    # an EMPTY mutation table, so either one alone is not evidence that the sites are sorted)
    for x in walk(fn.body):
        if x.k == "IfStmt" and x.kids[1] is not None and re.search(r"skip_sites\s*=\s*true", tu.src(x.kids[1])) \
                and not any(y.k == "IfStmt" and y.kids[1] is not None and re.search(r"skip_sites\s*=\s*true", tu.src(y.kids[1]))
                            for y in walk(x.kids[1])):
            c = strip(x.kids[0])
            txt = " ".join(tu.src(x.kids[0]).split())
            both = c is not None and c.k == "BinaryOperator" and c.op == "&&" and "sites" in estr(c.kids[0]) + estr(c.kids[1]) \
                and "start->sites" in txt and "start->mutations" in txt and "||" not in txt
            ctx.ob(rule, "skip_sites|both-bookmarks", both, tu.loc(x), "skip_sites requires `%s`" % txt[:90] if both else
                   "skip_sites is set under `%s`: it must require the site AND the mutation bookmark at their row counts" % txt[:90])
