"""C02 - Only table collections meeting the data-model requirements become tree sequences (structural clauses)."""
from __future__ import annotations

import ast

from sa.pyfront import call_name
from . import scopes, lib_gatefn, lib_guards, lib_err, lib_sweep, lib_mem, lib_py, lib_kind
from sa.cfront import LIB_TUS

LEVEL = "other"
EXPLANATION = ("The validity gate is on every construction path (must-pass-through in tsk_treeseq_init, single constructor), "
               "TSK_CHECK_TREES implies every ordering/index check, each data-model requirement is enforced by a guard rejecting "
               "exactly the stated relation under exactly its flag, guards are exact and present, errors propagate to a Python "
               "exception, gate functions take const tables. Does not decide the 'only if' direction for the algorithmic checks.")


def run(ctx):
    P = ctx.program()
    py = ctx.python()
    lib_gatefn.treeseq_init(ctx, P)
    lib_gatefn.gate_dispatch(ctx, P)
    lib_gatefn.gate_spec(ctx, P)
    lib_gatefn.gate_loops(ctx, P)
    from . import lib_kind3
    lib_kind3.error_codes(ctx, P)
    from . import lib_kind2
    lib_kind2.guard_seqlen(ctx, P)
    gate = set(lib_gatefn.GATE_FUNCS) | {"check_offsets", "tsk_treeseq_init"}
    seen = lib_guards.analyse(ctx, P, funcs=gate)
    lib_guards.presence(ctx, seen, funcs=gate, P=P)
    E = lib_err.discipline(ctx, P, ["tables", "trees"], funcs=gate | {"tsk_treeseq_load", "tsk_treeseq_loadf", "tsk_table_collection_check_offsets"})
    # Python: tree_sequence() validates the index the collection carries
    m = py.mod("tables")
    fn = py.func("tables", "TableCollection.tree_sequence")
    rule = "PY-TS-CONSTRUCT"
    ctx.rule(rule, "TableCollection.tree_sequence() builds an index only when none exists and hands the collection to "
                   "TreeSequence.load_tables(self) without asking the C layer to rebuild (replace) the stored index, so a stale "
                   "index is validated, not hidden; load/load_text reach the same constructor")
    rets = [r for r in ast.walk(fn) if isinstance(r, ast.Return) and isinstance(r.value, ast.Call)]
    ok = bool(rets)
    why = "returns TreeSequence.load_tables(self)"
    for r in rets:
        c = r.value
        if not (call_name(c) or "").endswith("TreeSequence.load_tables"):
            ok, why = False, "returns %s" % ast.unparse(c)[:80]
        elif any(k.arg == "build_indexes" for k in c.keywords) or len(c.args) != 1:
            ok, why = False, "passes %s: the stored index is rebuilt instead of validated" % ast.unparse(c)
    ctx.ob(rule, "tree_sequence|load_tables", ok, m.loc(rets[0] if rets else fn), why)
    bi = [c for c in ast.walk(fn) if isinstance(c, ast.Call) and call_name(c) == "self.build_index"]
    okb = True
    for c in bi:
        okb = False
        for i in ast.walk(fn):
            if isinstance(i, ast.If) and any(x is c for x in ast.walk(i)) and "not self.has_index()" in ast.unparse(i.test):
                okb = True
    ctx.ob(rule, "tree_sequence|build_index-guard", okb, m.loc(fn), "build_index() only under `not self.has_index()`")
    tm = py.mod("trees")
    lt = py.func("trees", "TreeSequence.load_tables")
    src = ast.unparse(lt)
    ctx.ob(rule, "load_tables|ll", "ts.load_tables(tables._ll_tables" in src or "load_tables(tables._ll_tables" in src, tm.loc(lt),
           "TreeSequence.load_tables hands the low-level tables to _tskit.TreeSequence.load_tables")
    lib_mem.c_lints(ctx, ctx.program(), scopes.lib_scope("C02"))
    # Python: the text / dict / file entry points hand the caller's data to the gate unchanged
    ps = scopes.py_scope("C02")
    lib_py.unused_params(ctx, py, mods=("trees", "tables"), only=ps)
    lib_kind.py_lints(ctx, py, mods=("trees", "tables"), only=ps)
    lib_kind.py_tokenise_siblings(ctx, py)
