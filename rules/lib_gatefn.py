"""C02 rules over the integrity gate itself (tsk_table_collection_check_* in tables.c)."""
from __future__ import annotations

import re

from sa.cfg import CFG
from sa.expr import strip, walk, callee, estr, xstr, is_assign, calls, local_aliases, is_upper_macro
from sa.guards import find_guards, single_def, dnf
from sa.schema import Facts

GATE_FUNCS = ["tsk_table_collection_check_integrity", "tsk_table_collection_check_offsets",
              "tsk_table_collection_check_node_integrity", "tsk_table_collection_check_edge_integrity",
              "tsk_table_collection_check_site_integrity", "tsk_table_collection_check_mutation_integrity",
              "tsk_table_collection_check_migration_integrity", "tsk_table_collection_check_individual_integrity",
              "tsk_table_collection_check_index_integrity", "tsk_table_collection_check_tree_integrity"]

IMPLIED = ["TSK_CHECK_EDGE_ORDERING", "TSK_CHECK_SITE_ORDERING", "TSK_CHECK_SITE_DUPLICATES", "TSK_CHECK_MUTATION_ORDERING",
           "TSK_CHECK_MIGRATION_ORDERING", "TSK_CHECK_INDEXES"]

# The data-model requirements, encoded once.  (function suffix, error code, rejected relation, flag or None, sentence)
# Relations are over table columns, with loop indexes abstracted to [.] and single-definition locals expanded.
SPEC = [
    ("integrity", "TSK_ERR_BAD_SEQUENCE_LENGTH", "sequence_length <= 0", None, "sequence_length must be > 0"),
    ("node_integrity", "TSK_ERR_TIME_NONFINITE", "!tsk_isfinite(nodes.time[.])", None, "node times are finite"),
    ("node_integrity", "TSK_ERR_POPULATION_OUT_OF_BOUNDS", "nodes.population[.] >= populations.num_rows", "TSK_NO_CHECK_POPULATION_REFS", "node population in range"),
    ("node_integrity", "TSK_ERR_INDIVIDUAL_OUT_OF_BOUNDS", "nodes.individual[.] >= individuals.num_rows", None, "node individual in range"),
    ("edge_integrity", "TSK_ERR_NULL_PARENT", "edges.parent[.] == TSK_NULL", None, "edge parent not NULL"),
    ("edge_integrity", "TSK_ERR_NULL_CHILD", "edges.child[.] == TSK_NULL", None, "edge child not NULL"),
    ("edge_integrity", "TSK_ERR_GENOME_COORDS_NONFINITE", "!tsk_isfinite(edges.left[.])", None, "edge left finite"),
    ("edge_integrity", "TSK_ERR_GENOME_COORDS_NONFINITE", "!tsk_isfinite(edges.right[.])", None, "edge right finite"),
    ("edge_integrity", "TSK_ERR_LEFT_LESS_ZERO", "edges.left[.] < 0", None, "left >= 0"),
    ("edge_integrity", "TSK_ERR_RIGHT_GREATER_SEQ_LENGTH", "edges.right[.] > sequence_length", None, "right <= L"),
    ("edge_integrity", "TSK_ERR_BAD_EDGE_INTERVAL", "edges.left[.] >= edges.right[.]", None, "left < right"),
    ("edge_integrity", "TSK_ERR_BAD_NODE_TIME_ORDERING", "nodes.time[edges.child[.]] >= nodes.time[edges.parent[.]]", None,
     "parents strictly older than children"),
    ("site_integrity", "TSK_ERR_BAD_SITE_POSITION", "!tsk_isfinite(sites.position[.])", None, "site position finite"),
    ("site_integrity", "TSK_ERR_BAD_SITE_POSITION", "sites.position[.] < 0", None, "site position >= 0"),
    ("site_integrity", "TSK_ERR_BAD_SITE_POSITION", "sites.position[.] >= sequence_length", None, "site position < L"),
    ("site_integrity", "TSK_ERR_DUPLICATE_SITE_POSITION", "sites.position[.-1] == sites.position[.]", "TSK_CHECK_SITE_DUPLICATES", "unique site positions"),
    ("site_integrity", "TSK_ERR_UNSORTED_SITES", "sites.position[.-1] > sites.position[.]", "TSK_CHECK_SITE_ORDERING", "sites sorted by position"),
    ("mutation_integrity", "TSK_ERR_MUTATION_PARENT_EQUAL", "mutations.parent[.] == .", None, "a mutation is not its own parent"),
    ("mutation_integrity", "TSK_ERR_TIME_NONFINITE", "!tsk_isfinite(mutations.time[.])", None, "known mutation times finite"),
    ("mutation_integrity", "TSK_ERR_MUTATION_TIME_YOUNGER_THAN_NODE", "mutations.time[.] < nodes.time[mutations.node[.]]", None, "mutation not younger than its node"),
    ("mutation_integrity", "TSK_ERR_MUTATION_PARENT_DIFFERENT_SITE", "mutations.site[mutations.parent[.]] != mutations.site[.]", None, "parent mutation at the same site"),
    ("mutation_integrity", "TSK_ERR_MUTATION_TIME_OLDER_THAN_PARENT_MUTATION", "mutations.time[.] > mutations.time[mutations.parent[.]]", None, "mutation not older than parent mutation"),
    ("mutation_integrity", "TSK_ERR_UNSORTED_MUTATIONS", "mutations.site[.-1] > mutations.site[.]", "TSK_CHECK_MUTATION_ORDERING", "mutations sorted by site"),
    ("mutation_integrity", "TSK_ERR_MUTATION_PARENT_AFTER_CHILD", "mutations.parent[.] > .", "TSK_CHECK_MUTATION_ORDERING", "parent mutation before child"),
    ("migration_integrity", "TSK_ERR_TIME_NONFINITE", "!tsk_isfinite(migrations.time[.])", None, "migration time finite"),
    ("migration_integrity", "TSK_ERR_UNSORTED_MIGRATIONS", "migrations.time[.-1] > migrations.time[.]", "TSK_CHECK_MIGRATION_ORDERING", "migrations sorted by time"),
    ("migration_integrity", "TSK_ERR_GENOME_COORDS_NONFINITE", "!tsk_isfinite(migrations.left[.])", None, "migration left finite"),
    ("migration_integrity", "TSK_ERR_GENOME_COORDS_NONFINITE", "!tsk_isfinite(migrations.right[.])", None, "migration right finite"),
    ("migration_integrity", "TSK_ERR_LEFT_LESS_ZERO", "migrations.left[.] < 0", None, "left >= 0"),
    ("migration_integrity", "TSK_ERR_RIGHT_GREATER_SEQ_LENGTH", "migrations.right[.] > sequence_length", None, "right <= L"),
    ("migration_integrity", "TSK_ERR_BAD_EDGE_INTERVAL", "migrations.left[.] >= migrations.right[.]", None, "left < right"),
    ("individual_integrity", "TSK_ERR_INDIVIDUAL_SELF_PARENT", "individuals.parents[.] == .", None, "an individual is not its own parent"),
    ("individual_integrity", "TSK_ERR_UNSORTED_INDIVIDUALS", "individuals.parents[.] >= .", "TSK_CHECK_INDIVIDUAL_ORDERING", "parents before children"),
    ("tree_integrity", "TSK_ERR_BAD_EDGES_CONTRADICTORY_CHILDREN", None, None, "a child has one parent at a time"),
    ("tree_integrity", "TSK_ERR_MUTATION_TIME_OLDER_THAN_PARENT_NODE", None, None, "mutation younger than its node's parent"),
    ("tree_integrity", "TSK_ERR_TABLES_BAD_INDEXES", None, None, "indexes consistent with the edges"),
    ("edge_integrity", "TSK_ERR_EDGES_NOT_SORTED_PARENT_TIME", None, "TSK_CHECK_EDGE_ORDERING", "edges sorted by parent time"),
    ("edge_integrity", "TSK_ERR_EDGES_NONCONTIGUOUS_PARENTS", None, "TSK_CHECK_EDGE_ORDERING", "edges of one parent contiguous"),
    ("edge_integrity", "TSK_ERR_EDGES_NOT_SORTED_CHILD", None, "TSK_CHECK_EDGE_ORDERING", "edges sorted by child within parent"),
    ("edge_integrity", "TSK_ERR_EDGES_NOT_SORTED_LEFT", None, "TSK_CHECK_EDGE_ORDERING", "edges sorted by left within child"),
    ("edge_integrity", "TSK_ERR_DUPLICATE_EDGES", None, "TSK_CHECK_EDGE_ORDERING", "no duplicate edges"),
    ("index_integrity", "TSK_ERR_TABLES_NOT_INDEXED", None, None, "tables are indexed"),
]


def _canon_text(node, fn, depth=0):
    """Canonical relation text: single-definition locals expanded, `self->` dropped, loop indexes abstracted."""
    def expand(n, d):
        if n is not None and is_upper_macro(n) and n.k != "DeclRefExpr":
            return n.mac
        n = strip(n)
        if n is None:
            return ""
        if is_upper_macro(n) and n.k != "DeclRefExpr":
            return n.mac
        if n.k == "DeclRefExpr" and n.refkind == "VarDecl" and d < 4:
            sd = single_def(fn, n.ref)
            if sd is not None:
                s = strip(sd)
                if s is not None and s.k in ("ArraySubscriptExpr", "MemberExpr"):
                    return expand(s, d + 1)
            return n.ref
        if n.k == "DeclRefExpr":
            return n.ref or ""
        if n.k == "MemberExpr":
            b = expand(n.kids[0], d)
            return (b + ("->" if n.arrow else ".") + n.name)
        if n.k == "ArraySubscriptExpr":
            return "%s[%s]" % (expand(n.kids[0], d), expand(n.kids[1], d))
        if n.k == "BinaryOperator":
            return "(%s %s %s)" % (expand(n.kids[0], d), n.op, expand(n.kids[1], d))
        if n.k == "UnaryOperator":
            return (expand(n.kids[0], d) + n.op) if n.post else (n.op + expand(n.kids[0], d))
        if n.k == "CallExpr":
            return "%s(%s)" % (estr(n.kids[0]), ", ".join(expand(a, d) for a in n.kids[1:]))
        return estr(n)
    t = expand(node, depth)
    return abstract(t)


def abstract(t):
    t = t.replace("self->", "")
    t = re.sub(r"\[\(([a-z_]\w*) - 1\)\]", "[.-1]", t)
    t = re.sub(r"\[([a-z])\]", "[.]", t)          # single-letter loop counters
    t = re.sub(r"\[(mutation|site|e)\]", "[.]", t)
    t = re.sub(r"(?<![\w\]\.>])\b([jk])\b(?![\w\[\(])", ".", t)   # bare loop counter as an operand
    return t


def _atoms(g, fn):
    """Set of canonical atom texts in the guard's rejected region (plus flipped forms)."""
    FL = {"<": ">", ">": "<", "<=": ">=", ">=": "<=", "==": "==", "!=": "!="}
    out = set()
    for conj in g.dnf:
        for a in conj:
            if a.op in FL:
                l = _canon_text(a.ln, fn)
                r = _canon_text(a.rn, fn)
                out.add("%s %s %s" % (l, a.op, r))
                out.add("%s %s %s" % (r, FL[a.op], l))
            elif a.op in ("true", "false"):
                t = _canon_text(a.ln, fn)
                out.add(("!" if a.op == "false" else "") + t)
    return out


def gate_spec(ctx, P, rule="GATE-SPEC"):
    ctx.rule(rule, "each structural requirement of the data model is enforced in the integrity gate by a guard that rejects "
                   "exactly the stated relation (over table columns, locals expanded, loop indexes abstracted), raises the "
                   "stated error code, and is conditional on exactly its own option flag")
    tu = P.tus["tables"]
    cache = {}
    for suffix, code, rel, flag, sentence in SPEC:
        name = "tsk_table_collection_check_" + suffix
        fn = P.need(name, "tables")
        if name not in cache:
            F = Facts(P, fn)
            gs = find_guards(P, fn)
            cache[name] = (F, gs)
        F, gs = cache[name]
        cands = [g for g in gs if code in g.codes]
        key = "%s|%s|%s" % (suffix, code, rel or "present")
        if not cands:
            ctx.ob(rule, key, False, tu.loc(fn.node), "no guard raises %s in %s: requirement dropped (%s)" % (code, name, sentence))
            continue
        hit = None
        if rel is None:
            hit = cands[0]
        else:
            for g in cands:
                if rel in _atoms(g, fn):
                    hit = g
                    break
        if hit is None:
            ctx.ob(rule, key, False, tu.loc(cands[0].ifn),
                   "%s guards reject %s, none rejects `%s` (%s)" % (code, [sorted(_atoms(g, fn))[:4] for g in cands], rel, sentence))
            continue
        # flag dependence
        conds = [F.tu.src(i.kids[0]) for i, br in F.enclosing_ifs(hit.ifn)] + [F.tu.src(hit.ifn.kids[0])]
        flags_found = set()
        for c in conds:
            for ident in re.findall(r"[A-Za-z_]\w*", c):
                if ident.startswith("TSK_CHECK_") or ident.startswith("TSK_NO_CHECK_"):
                    flags_found.add(ident)
                else:
                    sd = single_def(fn, ident)
                    if sd is not None:
                        for m in re.findall(r"TSK_(?:NO_)?CHECK_\w+", F.tu.src(sd)):
                            flags_found.add(m)
        # reach: apart from its flag, the guard may only sit under conditions over the variables it itself tests (the NULL test
        # of the reference it is about to dereference); a condition over ANOTHER variable narrows the requirement to some rows
        def expand(text, depth=0):
            out = set()
            for ident in re.findall(r"[A-Za-z_]\w*", text):
                sd = single_def(fn, ident) if depth < 4 else None
                if sd is not None:
                    out |= expand(F.tu.src(sd), depth + 1)
                else:
                    out.add(ident)
            return out
        own_ids = expand(F.tu.src(hit.ifn.kids[0]))
        foreign = []
        for c in conds[:-1]:
            ids = expand(c)
            if any(i.startswith("TSK_CHECK_") or i.startswith("TSK_NO_CHECK_") for i in ids):
                continue        # the option flag: decided by the flag clause below
            extra = {i for i in ids - own_ids if not i.startswith(("TSK_", "tsk_")) and i not in ("options", "self", "j", "k", "i")}
            if extra:
                foreign.append((c, sorted(extra)))
        if rel is not None:
            ctx.ob(rule, key + "|reach", not foreign, tu.loc(hit.ifn),
                   "reached for every row (enclosing conditions test only the guard's own variables)" if not foreign else
                   "the guard for %s sits under `%s`, a condition over %s that the requirement does not mention: rows for which it is "
                   "false are never checked" % (code, " ".join(foreign[0][0].split())[:60], foreign[0][1]))
        want = {flag} if flag else set()
        ok = flags_found == want
        ctx.ob(rule, key, ok, tu.loc(hit.ifn),
               "%s; rejects `%s`%s" % (sentence, rel or "(algorithmic)", (" under " + flag) if flag else " unconditionally") if ok else
               "guard for %s is conditional on %s but should depend on %s" % (code, sorted(flags_found) or "nothing", sorted(want) or "nothing"))


def gate_dispatch(ctx, P, rule="GATE-DISPATCH"):
    ctx.rule(rule, "tsk_table_collection_check_integrity: TSK_CHECK_TREES implies all six ordering/index flags; every sub-check is "
                   "called unconditionally or under exactly its own flag, on `self` with `options`, its result is tested, and the "
                   "index check precedes the tree check; all gate functions take const tables")
    tu = P.tus["tables"]
    fn = P.need("tsk_table_collection_check_integrity", "tables")
    F = Facts(P, fn)
    where = tu.loc(fn.node)
    implied = None
    for l, o, r, n in F.assigns:
        if l == "options" and o == "|=":
            conds = [tu.src(i.kids[0]) for i, br in F.enclosing_ifs(n)]
            if any("TSK_CHECK_TREES" in c for c in conds):
                implied = (tu.src(n), n)
    for fl in IMPLIED:
        ctx.ob(rule, "implies|" + fl, implied is not None and re.search(r"\b%s\b" % fl, implied[0]) is not None,
               tu.loc(implied[1]) if implied else where, "TSK_CHECK_TREES implies %s" % fl)
    want = {"tsk_table_collection_check_offsets": None, "tsk_table_collection_check_node_integrity": None,
            "tsk_table_collection_check_edge_integrity": None, "tsk_table_collection_check_site_integrity": None,
            "tsk_table_collection_check_mutation_integrity": None, "tsk_table_collection_check_migration_integrity": None,
            "tsk_table_collection_check_individual_integrity": None,
            "tsk_table_collection_check_index_integrity": "TSK_CHECK_INDEXES",
            "tsk_table_collection_check_tree_integrity": "TSK_CHECK_TREES"}
    cfg = CFG(fn)
    order = {}
    for cal, flag in want.items():
        hits = F.calls_to(cal)
        if not hits:
            ctx.ob(rule, "call|" + cal, False, where, "%s is never called" % cal)
            continue
        a, node = hits[0]
        conds = [tu.src(i.kids[0]) for i, br in F.enclosing_ifs(node)]
        okc = (not conds) if flag is None else (len(conds) == 1 and re.search(r"options\s*&\s*%s\b" % flag, conds[0]) is not None)
        oka = a[0] == "self" and (len(a) == 1 or a[1] == "options")
        ctx.ob(rule, "call|" + cal, okc and oka, tu.loc(node),
               "%s(%s) %s" % (cal, ", ".join(a), "unconditionally" if flag is None else "under " + flag) if okc and oka else
               "%s(%s) under %s (expected %s)" % (cal, ", ".join(a), conds or "no condition", flag or "no condition"))
        order[cal] = node.b
    if "tsk_table_collection_check_index_integrity" in order and "tsk_table_collection_check_tree_integrity" in order:
        # CFG order: tree check not reachable without passing the index check when both flags are set -> approximate by dominance
        a = _node_of(cfg, F.calls_to("tsk_table_collection_check_index_integrity")[0][1])
        b = _node_of(cfg, F.calls_to("tsk_table_collection_check_tree_integrity")[0][1])
        ok = a is not None and b is not None and b in cfg.reach(a) and a not in cfg.reach(b)
        ctx.ob(rule, "order|index-before-tree", ok, where, "index integrity is checked before the tree sweep dereferences the indexes")
    for g in GATE_FUNCS:
        f = P.need(g, "tables")
        ok = bool(f.params) and "const tsk_table_collection_t *" in (f.params[0].ty or "")
        ctx.ob(rule, "const|" + g, ok, tu.loc(f.node), "first parameter is `const tsk_table_collection_t *` (rows untouched)")


def _node_of(cfg, ast):
    for n in cfg.nodes:
        if n.ast is None or n.kind == "join":
            continue
        for x in walk(n.ast):
            if x is ast:
                return n
    return None


def treeseq_init(ctx, P, rule="TS-GATE"):
    ctx.rule(rule, "tsk_treeseq_init: every path to a tsk_treeseq_init_* helper (and to a success return) passes "
                   "tsk_table_collection_check_integrity(self->tables, … TSK_CHECK_TREES …) whose negative result leads to the "
                   "error exit; only tsk_treeseq_init / tsk_treeseq_free assign a tree sequence's tables / num_trees")
    tu = P.tus["trees"]
    fn = P.need("tsk_treeseq_init", "trees")
    cfg = CFG(fn)
    gates = [c for c in calls(fn.body) if callee(c) == "tsk_table_collection_check_integrity"]
    ok = len(gates) >= 1
    ctx.ob(rule, "gate-call", ok, tu.loc(fn.node), "%d call(s) to the integrity gate" % len(gates))
    if not ok:
        return
    g = gates[0]
    a = [estr(x) for x in g.kids[1:]]
    ctx.ob(rule, "gate-args", a[0] == "self->tables" and "TSK_CHECK_TREES" in tu.src(g.kids[2]), tu.loc(g),
           "check_integrity(%s, %s): must check the tables the tree sequence keeps, with TSK_CHECK_TREES" % (a[0], tu.src(g.kids[2])))
    gn = _node_of(cfg, g)
    helpers = [c for c in calls(fn.body) if (callee(c) or "").startswith("tsk_treeseq_init_")]
    ctx.ob(rule, "helpers", len(helpers) >= 4, tu.loc(fn.node), "%d tsk_treeseq_init_* helpers" % len(helpers))
    for h in helpers:
        hn = _node_of(cfg, h)
        okh = hn is not None and not cfg.path_exists(cfg.entry, hn, avoid={gn})
        ctx.ob(rule, "dominates|" + callee(h), okh, tu.loc(h), "integrity gate dominates %s" % callee(h))
    # result tested: cond node on the assigned variable, error edge leaves without reaching helpers
    from sa.errprop import ErrProp
    var = None
    for x in walk(fn.body):
        if is_assign(x) and any(c is g for c in walk(x.kids[1])):
            var = estr(strip(x.kids[0]))
    okv = False
    if var:
        for n in cfg.nodes:
            if n.kind == "cond" and n.ast is not None and estr(n.ast).startswith("(%s < 0" % var) or \
                    (n.kind == "cond" and n.ast is not None and estr(n.ast) in ("(%s < 0)" % var, "(%s != 0)" % var)):
                tgt = [s for s, lab in n.succ if lab is True]
                if tgt and helpers:
                    hn = _node_of(cfg, helpers[0])
                    okv = hn not in cfg.reach(tgt[0])
    ctx.ob(rule, "gate-result", okv, tu.loc(g), "negative result of the gate (`%s`) leads to the error exit" % var)
    # who writes ->tables / ->num_trees of a tsk_treeseq_t
    for key in ("trees", "tables", "genotypes", "stats", "haplotype_matching", "convert", "core"):
        t = P.tus[key]
        for f in t.funcs.values():
            for x in walk(f.body):
                if is_assign(x) or x.k == "CompoundAssignOperator":
                    l = strip(x.kids[0])
                    if l is not None and l.k == "MemberExpr" and l.name in ("tables", "num_trees") and \
                            "tsk_treeseq_t" in (l.kids[0].ty or ""):
                        okw = f.name in ("tsk_treeseq_init", "tsk_treeseq_free")
                        ctx.ob(rule, "writes|%s|%s" % (f.name, l.name), okw, t.loc(x),
                               "%s assigns tsk_treeseq_t.%s%s" % (f.name, l.name, "" if okw else ": only tsk_treeseq_init may construct a tree sequence"))


def gate_loops(ctx, P, rule="GATE-LOOPS"):
    ctx.rule(rule, "the row loops of the integrity gate visit every row: no gate function contains a `break`, and "
                   "tsk_is_unknown_time compares the complete 64-bit pattern of the value with the unknown-time constant (no bit "
                   "is masked off, so only the exact sentinel is exempt from the finiteness checks)")
    tu = P.tus["tables"]
    for g in GATE_FUNCS:
        fn = P.need(g, "tables")
        br = [x for x in walk(fn.body) if x.k == "BreakStmt"]
        ctx.ob(rule, "no-break|" + g, not br, tu.loc(br[0]) if br else tu.loc(fn.node),
               "no break" if not br else "a `break` leaves a validation loop early: the remaining rows are never checked")
    cu = P.tus["core"]
    fn = P.func("tsk_is_unknown_time", "core")
    ctx.need(fn is not None, "tsk_is_unknown_time")
    rets = [x for x in walk(fn.body) if x.k == "ReturnStmt"]
    txt = estr(rets[-1].kids[0]) if rets else ""
    ok = bool(re.fullmatch(r"\(\w+\.i == TSK_UNKNOWN_TIME_HEX\)", txt))
    ctx.ob(rule, "tsk_is_unknown_time", ok, cu.loc(fn.node), "returns `%s`" % txt)
