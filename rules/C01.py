"""C01 - Marginal trees are exactly what the node and edge tables say (structural clauses)."""
from __future__ import annotations

from . import scopes, lib_mem, lib_kind, lib_kind4
from . import lib_tree, lib_guards, lib_order, lib_py, lib_module, lib_variant

LEVEL = "other"
EXPLANATION = ("Necessary structural conditions of 'tree state equals the parent map': inverse agreement of edge insertion/removal, "
               "transition order, index sort keys and comparator, tree state copy/clear completeness, unconditional child pushes in "
               "the traversals, exact node-argument guards, NULL tests before NULL-able indexes and option forwarding in the Python "
               "views. Does not decide that the forest equals the edge set for every table collection.")


def run(ctx):
    P = ctx.program()
    py = ctx.python()
    ps, ms = scopes.py_scope("C01"), scopes.module_scope("C01")
    lib_tree.inverse_pairs(ctx, P)
    lib_tree.transitions(ctx, P)
    lib_tree.edge_call_args(ctx, P)
    lib_tree.mirror_pairs(ctx, P)
    lib_tree.tree_copy_clear(ctx, P)
    lib_tree.index_domains(ctx, P)
    lib_order.sorter_keys(ctx, P)
    lib_order.comparators(ctx, P, only={"cmp_index_sort", "cmp_edge"})
    lib_variant.traversal_push(ctx, P, tus=["trees"])
    funcs = {"tsk_tree_check_node", "tsk_tree_seek", "tsk_tree_seek_index", "tsk_tree_set_tracked_samples"}
    seen = lib_guards.analyse(ctx, P, funcs=funcs)
    lib_guards.presence(ctx, seen, funcs=funcs, P=P)
    lib_module.module_guards(ctx, P, only=ms)
    lib_module.parsed_used(ctx, P, only=ms)
    lib_py.immutable_treeseq(ctx, py)       # breakpoints and the other cached arrays are handed out read-only
    lib_py.null_index(ctx, py)
    lib_py.unused_params(ctx, py, mods=("trees",), only=ps)
    lib_kind.py_lints(ctx, py, mods=("trees",), only=ps)
    lib_kind4.root_threshold(ctx, py)
    lib_kind4.diff_order(ctx, py)
    lib_kind4.virtual_root_lists(ctx, py)
    # the sweep of tsk_treeseq_init_trees assigns each mutation's edge: its two halves must be inverses
    from . import lib_sweep
    lib_sweep.sweep_inverse(ctx, P, tus=["trees"], floor=3)
    lib_kind.py_copy_state(ctx, py, [("trees", "Tree")])
    lib_py.kw_forward(ctx, py, mods=("trees",), only=ps)
    lib_variant.sample_walks(ctx, P, tus=("trees",), floor=2)
    lib_module.name_agreement(ctx, P, classes=("Tree",), floor=40)
    lib_module.module_every_path(ctx, P, classes=("Tree",), floor=10)
    lib_py.facade_names(ctx, py, P, classes=(("trees", "Tree"),), floor=40)
    lib_mem.c_lints(ctx, ctx.program(), scopes.lib_scope("C01"))
    from . import lib_kind5
    lib_kind5.tree_reset_unconditional(ctx, ctx.program())
