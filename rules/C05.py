"""C05 - Storage and interchange are lossless (structural clauses)."""
from __future__ import annotations

from . import scopes, lib_mem, lib_kind
from sa.schema import load_schemas
from . import lib_schema, lib_module, lib_py, lib_file

LEVEL = "other"
EXPLANATION = ("Schema completeness of equals/copy/dump/load for every column of every table and for the collection-level items, "
               "writer key set == reader key set, read_format_data applies what it reads, unbuffered stream protocol, option "
               "forwarding of equals/assert_equals. Does not decide byte equality for every input.")


def run(ctx):
    P = ctx.program()
    py = ctx.python()
    ps, ms = scopes.py_scope("C05"), scopes.module_scope("C05")
    S = load_schemas(P)
    ctx.need(len(S) == 8, "eight table structs")
    lib_schema.equals(ctx, P, S)
    lib_schema.dump_load(ctx, P, S)
    lib_schema.append_columns(ctx, P, S)
    lib_schema.collection(ctx, P)
    lib_schema.read_format(ctx, P)
    lib_file.layout_agreement(ctx, P)
    lib_schema.dict_interchange(ctx, P, S)
    io = lambda f: any(t in f for t in ("_copy", "_load", "_dump", "_set_columns", "_takeset_columns", "_append_columns", "read_", "write_"))
    lib_schema.argname(ctx, P, tus=("tables",), funcs=io)
    lib_module.setvbuf_before_load(ctx, P)
    lib_module.array_flags(ctx, P, only=ms)
    lib_module.parsed_used(ctx, P, only=ms)
    lib_module.options_plumbing(ctx, P, funcs={f for f in ("IndividualTable_equals", "NodeTable_equals", "EdgeTable_equals", "MigrationTable_equals",
                                                           "SiteTable_equals", "MutationTable_equals", "PopulationTable_equals", "ProvenanceTable_equals",
                                                           "TableCollection_equals", "TableCollection_load", "TreeSequence_load")})
    lib_py.kw_forward(ctx, py, mods=("trees", "tables"), only=ps)
    lib_py.unused_params(ctx, py, mods=("trees", "tables", "util"), only=ps)
    lib_kind.py_lints(ctx, py, mods=("trees", "tables", "util"), only=ps)
    lib_kind.py_copy_state(ctx, py, [("trees", "TreeSequence"), ("tables", "BaseTable"), ("tables", "TableCollection"), ("trees", "Tree"), ("genotypes", "Variant")])
    lib_kind.dict_atomic(ctx, P)
    lib_kind.length_guard(ctx, P, lambda k, f: f.startswith("write_") or f.startswith("parse_") or f.startswith("TableCollection_"), tus=["module"])
    lib_mem.c_lints(ctx, ctx.program(), scopes.lib_scope("C05"))
    from . import lib_kind5
    lib_kind5.lwt_omit_default(ctx, ctx.program())
    lib_kind5.schema_raw(ctx, ctx.python())
