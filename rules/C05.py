"""C05 - Storage and interchange are lossless (structural clauses)."""
from __future__ import annotations

from sa.schema import load_schemas
from . import lib_schema, lib_module, lib_py

LEVEL = "other"
EXPLANATION = ("Schema completeness of equals/copy/dump/load for every column of every table and for the collection-level items, "
               "writer key set == reader key set, read_format_data applies what it reads, unbuffered stream protocol, option "
               "forwarding of equals/assert_equals. Does not decide byte equality for every input.")


def run(ctx):
    P = ctx.program()
    py = ctx.python()
    S = load_schemas(P)
    ctx.need(len(S) == 8, "eight table structs")
    lib_schema.equals(ctx, P, S)
    lib_schema.dump_load(ctx, P, S)
    lib_schema.append_columns(ctx, P, S)
    lib_schema.collection(ctx, P)
    lib_schema.read_format(ctx, P)
    lib_schema.argname(ctx, P)
    lib_module.setvbuf_before_load(ctx, P)
    lib_module.array_flags(ctx, P)
    lib_py.kw_forward(ctx, py, mods=("trees", "tables"))
    lib_py.unused_params(ctx, py, mods=("trees", "tables", "util"))
