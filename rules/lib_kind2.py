"""Lints written in anticipation of the fourth seeding round: 2-D row arithmetic and ragged-offset arithmetic.

ROW-LEN       every GET_2D_ROW(A, L, r) on one array uses one row length L, and L is a factor of A's allocation
OFFSET-DIFF   a row length read from a ragged column is offset[x + 1] - offset[x] on ONE offset array
"""
from __future__ import annotations

import re

from sa.cfront import LIB_TUS
from sa.expr import macro_args, strip, walk, estr, callee, calls, callname

_ROW = re.compile(r"\bGET_2D_ROW\s*\(")


def _norm(t):
    return re.sub(r"\s+", "", t)


def row_len(ctx, P, scope, rule="ROW-LEN", tus=None):
    ctx.rule(rule, "two-dimensional arrays are addressed with one row length: within a function every GET_2D_ROW(A, L, row) on the "
                   "same array A uses the same L, and where A is allocated in that function (`A = tsk_calloc(R * L, …)` / "
                   "`tsk_malloc(R * L * sizeof …)`) L is one of the factors of the allocation count.  A row taken with the length of "
                   "a sibling array (state_dim for result_dim, num_weights for num_weights + 1) addresses another row's cells")
    n = 0
    for key in (tus or LIB_TUS):
        tu = P.tus[key]
        for fn in tu.funcs.values():
            if fn.body is None or not scope(key, fn.name):
                continue
            src = tu.src(fn.body)
            if "GET_2D_ROW" not in src:
                continue
            text = tu.text_of(fn.body.file)
            uses = {}
            for m in _ROW.finditer(src):
                a = macro_args(src[m.start():])
                if len(a) != 3:
                    continue
                uses.setdefault(_norm(a[0]), []).append((_norm(a[1]), m.start()))
            allocs = {}
            for x in walk(fn.body):
                if x.k in ("BinaryOperator", "VarDecl") and (x.k == "VarDecl" or x.op == "="):
                    lhs = x.name if x.k == "VarDecl" else estr(x.kids[0])
                    r = strip(x.kids[-1]) if x.kids else None
                    if r is None or r.k != "CallExpr" or callee(r) not in ("tsk_malloc", "tsk_calloc", "malloc", "calloc"):
                        continue
                    allocs[_norm(lhs or "")] = _norm(" ".join(tu.src(r).split()))
            for arr, us in sorted(uses.items()):
                lens = sorted({l for l, _ in us})
                n += 1
                line = text[:fn.body.b + us[0][1]].count("\n") + 1
                where = "%s:%d" % (fn.body.file, line)
                if len(lens) > 1:
                    ctx.ob(rule, "%s|%s" % (fn.name, arr), False, where, "`%s` is addressed with row lengths %s in one function" % (arr, lens))
                    continue
                ok, why = True, "row length %s" % lens[0]
                if arr in allocs:
                    cnt = allocs[arr]
                    def terms(t):
                        return sorted(x for x in re.split(r"\+", t.strip("()")) if x)
                    inner = cnt[cnt.find("(") + 1:]
                    facs = [f_ for f_ in re.split(r"\*|,", inner) if f_ and "sizeof" not in f_]
                    ok = any(terms(f_.strip("()")) == terms(lens[0]) for f_ in facs) or lens[0].strip("()") in cnt
                    why = "row length %s is a factor of the allocation `%s`" % (lens[0], cnt[:70]) if ok else \
                        "row length %s does not occur in the allocation `%s`" % (lens[0], cnt[:70])
                ctx.ob(rule, "%s|%s" % (fn.name, arr), ok, where, why)
    return n


def offset_diff(ctx, P, scope, rule="OFFSET-DIFF", tus=None):
    ctx.rule(rule, "the length of row x of a ragged column is `offset[x + 1] - offset[x]`: every subtraction of two elements of "
                   "*_offset arrays subtracts elements of the SAME array at indexes x + 1 and x")
    n = 0
    for key in (tus or LIB_TUS):
        tu = P.tus[key]
        for fn in tu.funcs.values():
            if fn.body is None or not scope(key, fn.name):
                continue
            k = 0
            for x in walk(fn.body):
                if x.k == "BinaryOperator" and x.op == "-":
                    a, b = strip(x.kids[0]), strip(x.kids[1])
                    if a is None or b is None or a.k != "ArraySubscriptExpr" or b.k != "ArraySubscriptExpr":
                        continue
                    ba, bb = estr(a.kids[0]), estr(b.kids[0])
                    if "offset" not in ba and "offset" not in bb:
                        continue
                    ia, ib = estr(a.kids[1]), estr(b.kids[1])
                    n += 1
                    ok = ba == bb and ia in ("(%s + 1)" % ib, "%s + 1" % ib, "(1 + %s)" % ib)
                    ctx.ob(rule, "%s@%d" % (fn.name, k), ok, tu.loc(x), "`%s`" % estr(x))
                    k += 1
    return n


def null_fill(ctx, P, scope, rule="NULL-FILL", tus=None):
    """An id array whose elements are tested against TSK_NULL starts out as TSK_NULL (0xff bytes), not as zeros."""
    from sa.expr import const_int
    ctx.rule(rule, "an array whose elements are compared with TSK_NULL is initialised with the 0xff / TSK_NULL byte pattern wherever "
                   "it is bulk-initialised: it is never only zero-filled (tsk_calloc, memset 0), because 0 is a valid id and an "
                   "untouched entry would read as 'row 0' instead of 'none'.  Struct members are matched across the translation "
                   "unit, locals within their function")
    n = 0
    for key in (tus or LIB_TUS):
        tu = P.tus[key]
        fills, nulls, where = {}, {}, {}
        for fn in tu.funcs.values():
            if fn.body is None:
                continue

            def name_of(e):
                e = strip(e)
                if e is None:
                    return None
                if e.k == "MemberExpr":
                    return "." + (e.name or "")
                if e.k == "DeclRefExpr":
                    return fn.name + ":" + (e.ref or "")
                return None
            for x in walk(fn.body):
                if x.k == "BinaryOperator" and x.op == "=":
                    r = strip(x.kids[1])
                    if r is not None and r.k == "CallExpr" and callee(r) in ("tsk_calloc", "calloc"):
                        nm = name_of(x.kids[0])
                        if nm:
                            fills.setdefault(nm, set()).add("zero")
                            where.setdefault(nm, x)
                if x.k == "CallExpr" and callee(x) in ("tsk_memset", "memset") and len(x.kids) >= 4:
                    nm = name_of(x.kids[1])
                    v, t = const_int(x.kids[2]), estr(x.kids[2])
                    if nm:
                        kind = "zero" if v == 0 else "ff" if (v in (255, -1) or "0xff" in t.lower() or "TSK_NULL" in t) else "other"
                        fills.setdefault(nm, set()).add(kind)
                        where.setdefault(nm, x)
                if x.k == "BinaryOperator" and x.op in ("==", "!="):
                    for a, b in ((x.kids[0], x.kids[1]), (x.kids[1], x.kids[0])):
                        if estr(b) in ("TSK_NULL", "-1"):
                            aa = strip(a)
                            if aa is not None and aa.k == "ArraySubscriptExpr":
                                nm = name_of(aa.kids[0])
                                if nm:
                                    nulls.setdefault(nm, (fn, x))
        # an array that holds ids (it is tested against TSK_NULL somewhere) is never tested with `> 0`, `!= 0`, `== 0`, `<= 0`:
        # id 0 is a valid id, "none" is TSK_NULL
        for fn2 in tu.funcs.values():
            if fn2.body is None or not scope(key, fn2.name):
                continue
            kz = 0
            for x2 in walk(fn2.body):
                if x2.k == "BinaryOperator" and x2.op in (">", "<=", "==", "!="):
                    for a, b in ((x2.kids[0], x2.kids[1]), (x2.kids[1], x2.kids[0])):
                        if const_int(b) == 0 and estr(b) in ("0",):
                            aa = strip(a)
                            if aa is not None and aa.k == "ArraySubscriptExpr":
                                base = strip(aa.kids[0])
                                nm2 = None
                                if base is not None and base.k == "MemberExpr":
                                    nm2 = "." + (base.name or "")
                                elif base is not None and base.k == "DeclRefExpr":
                                    nm2 = fn2.name + ":" + (base.ref or "")
                                ety = (aa.ty or "")
                                if nm2 in nulls and ety in ("tsk_id_t", "int", "int32_t", "const tsk_id_t"):
                                    n += 1
                                    ctx.ob(rule, "%s|zero-test|%s@%d" % (fn2.name, nm2.split(":")[-1].lstrip("."), kz), False, tu.loc(x2),
                                           "`%s` tests an id against 0: id 0 is a valid id and TSK_NULL (-1) means none" % estr(x2))
                                    kz += 1
        for fn2 in tu.funcs.values():
            if fn2.body is None or not scope(key, fn2.name):
                continue
            nullcmp = set()
            for x2 in walk(fn2.body):
                if x2.k == "BinaryOperator" and x2.op in ("==", "!=", "<", ">", ">=", "<="):
                    for a, b in ((x2.kids[0], x2.kids[1]), (x2.kids[1], x2.kids[0])):
                        aa = strip(a)
                        if estr(b) in ("TSK_NULL", "-1") and aa is not None and aa.k == "DeclRefExpr" and (aa.ty or "") in ("tsk_id_t", "const tsk_id_t"):
                            nullcmp.add(aa.ref)
            kz = 0
            for x2 in walk(fn2.body):
                if x2.k == "BinaryOperator" and x2.op in (">", "<=", "==", "!="):
                    for a, b in ((x2.kids[0], x2.kids[1]), (x2.kids[1], x2.kids[0])):
                        aa = strip(a)
                        if const_int(b) == 0 and estr(b) == "0" and aa is not None and aa.k == "DeclRefExpr" and aa.ref in nullcmp:
                            n += 1
                            ctx.ob(rule, "%s|zero-test|%s@%d" % (fn2.name, aa.ref, kz), False, tu.loc(x2),
                                   "`%s` tests the id `%s` against 0 although the same function treats TSK_NULL as 'none': id 0 is a valid id" % (estr(x2), aa.ref))
                            kz += 1
        for nm, (fn, x) in sorted(nulls.items()):
            if nm not in fills or not scope(key, fn.name):
                continue
            n += 1
            kinds = fills[nm]
            ok = not ("zero" in kinds and "ff" not in kinds)
            ctx.ob(rule, "%s|%s" % (key, nm), ok, tu.loc(where[nm]),
                   "%s is initialised with %s and tested against TSK_NULL" % (nm.lstrip("."), sorted(kinds)) if ok else
                   "%s is only zero-filled but its elements are compared with TSK_NULL (%s): an untouched entry reads as id 0"
                   % (nm.lstrip("."), tu.loc(x)))
    return n


# success shortcuts confirmed by reading: (function, condition) -> why skipping the rest is right
SHORTCUT_OK = {
    ("tsk_table_collection_deduplicate_sites", "(self->sites.num_rows == 0)"): "no sites: nothing to deduplicate (all later loops range over the sites)",
    ("check_sites", "(num_sites == 0)"): "empty list is valid; the last-element test below would index [n - 1]",
    ("check_positions", "(num_positions == 0)"): "empty list is valid; the last-element test below would index [n - 1]",
    ("simplifier_record_edge", "skip"): "edge deliberately not recorded when the caller asked to skip it",
    ("tsk_treeseq_kc_distance", "(ret != TSK_TREE_OK)"): "tree iteration finished (TSK_TREE_OK marks a valid tree)",
    ("compute_two_tree_branch_state_update", "(b_len == 0)"): "b_len multiplies every contribution added below: all of them are zero",
}


def success_shortcuts(ctx, P, scope, rule="SHORTCUT", tus=None):
    from sa.expr import is_assign
    ctx.rule(rule, "an early SUCCESS exit (`if (cond) goto out;` / `return ret;` with no error assigned) bypasses everything the other "
                   "rules establish about the main path.  Each one is either confirmed by reading (frozen with its reason), or is of "
                   "the form `X == 0` for a count X such that every loop after it is bounded by X (the skipped code is vacuous).  "
                   "`if (M == 0 || n < 2) goto out;` in front of a sweep that also handles edgeless trees is reported")
    n = 0
    for key in (tus or [k for k in LIB_TUS if k in ("tables", "trees", "genotypes", "stats", "convert")]):
        tu = P.tus[key]
        for fn in tu.funcs.values():
            if fn.body is None or not scope(key, fn.name) or (fn.ret or "").strip() not in ("int", "tsk_id_t"):
                continue
            k = 0
            for x in walk(fn.body):
                if x.k != "IfStmt" or len(x.kids) < 2 or x.kids[1] is None:
                    continue
                then = x.kids[1]
                stm = [y for y in walk(then) if y.k in ("GotoStmt", "ReturnStmt")]
                if not stm or any(is_assign(y) or y.k == "CallExpr" for y in walk(then)):
                    continue
                s = tu.src(then)
                if "TSK_ERR" in s or "KAS_ERR" in s:
                    continue
                cond = estr(x.kids[0])
                if re.search(r"\bret\w* (!=|<|>) 0|\berr\w* (!=|<) 0|== NULL|\bret_id < 0", cond):
                    continue
                if re.search(r"\((ret|err)\w* = ", cond) and re.search(r"\) (!=|<|>) 0\)?$", cond):
                    continue        # `if ((ret = f()) != 0) goto out;`: an error exit
                if stm[0].k == "ReturnStmt":
                    rv = estr(stm[0].kids[0]) if stm[0].kids else ""
                    if rv not in ("ret", "0", "(0)"):
                        continue
                # is `ret` still 0 here?  (an error assigned just before and tested elsewhere is not a success exit)
                n += 1
                key_ = "%s|%s" % (fn.name, cond)
                if (fn.name, cond) in SHORTCUT_OK:
                    ctx.ob(rule, key_, True, tu.loc(x), "confirmed: " + SHORTCUT_OK[(fn.name, cond)])
                    continue
                c = strip(x.kids[0])
                ok, why = False, "`if %s` leaves %s early with success; not of the form `<count> == 0`" % (cond, fn.name)
                if c is not None and c.k == "BinaryOperator" and c.op == "==" and "0" in (estr(c.kids[0]), estr(c.kids[1])):
                    X = estr(c.kids[1]) if estr(c.kids[0]) == "0" else estr(c.kids[0])
                    loops = [l for l in walk(fn.body) if l.k in ("ForStmt", "WhileStmt", "DoStmt") and l.b > x.e]
                    open_ = [l for l in loops if X not in (estr(l.kids[2]) if l.k == "ForStmt" and len(l.kids) > 2 and l.kids[2] is not None
                                                           else estr(l.kids[0]) if l.k == "WhileStmt" else "")
                             and not any(l.b > o.b and l.e <= o.e for o in loops if o is not l)]
                    ok = not open_
                    why = "every later loop is bounded by %s: skipping is vacuous" % X if ok else \
                        "`if %s` skips a loop at %s that is not bounded by %s: work is skipped that the empty case still needs" % (cond, tu.loc(open_[0]), X)
                ctx.ob(rule, key_, ok, tu.loc(x), why)
                k += 1
    return n


def ragged_range(ctx, P, scope, rule="RAGGED-RANGE", tus=None):
    ctx.rule(rule, "a loop over the elements of row j of a ragged column runs from offset[j] to offset[j + 1] of the SAME offset array "
                   "(or to start + length): `for (k = off[j]; k < <row length>; k++)` treats a length as an absolute end and skips "
                   "every row but the first")
    n = 0
    for key in (tus or LIB_TUS):
        tu = P.tus[key]
        for fn in tu.funcs.values():
            if fn.body is None or not scope(key, fn.name):
                continue
            k = 0
            for lp in walk(fn.body):
                if lp.k != "ForStmt" or len(lp.kids) < 3 or lp.kids[0] is None or lp.kids[2] is None:
                    continue
                i, c = strip(lp.kids[0]), strip(lp.kids[2])
                if i is None or c is None or not (i.k == "BinaryOperator" and i.op == "=") or not (c.k == "BinaryOperator" and c.op in ("<", "!=")):
                    continue
                st = strip(i.kids[1])
                if st is None or st.k != "ArraySubscriptExpr" or "offset" not in estr(st.kids[0]):
                    continue
                arr, idx = estr(st.kids[0]), estr(st.kids[1])
                end = strip(c.kids[1])
                et = estr(end) if end is not None else ""
                ok = False
                if end is not None and end.k == "ArraySubscriptExpr" and estr(end.kids[0]) == arr and estr(end.kids[1]) in ("(%s + 1)" % idx, "%s + 1" % idx):
                    ok = True
                elif end is not None and end.k == "BinaryOperator" and end.op == "+" and (estr(st) in (estr(end.kids[0]), estr(end.kids[1]))):
                    ok = True
                elif end is not None and end.k == "MemberExpr" and arr.endswith("_offset") and et == arr[:-len("_offset")] + "_length":
                    ok = True       # from row j to the end of the column
                elif end is not None and end.k == "DeclRefExpr":
                    # a local: must be defined as offset[j + 1] or start + length
                    ds = [x for x in walk(fn.body) if x.k == "BinaryOperator" and x.op == "=" and estr(x.kids[0]) == end.ref]
                    def _end_ok(v):
                        v = strip(v)
                        if v is None:
                            return False
                        if v.k == "ArraySubscriptExpr":
                            return estr(v.kids[0]) == arr and estr(v.kids[1]) in ("(%s + 1)" % idx, "%s + 1" % idx)
                        if v.k == "BinaryOperator" and v.op == "+":
                            return estr(st) in (estr(v.kids[0]), estr(v.kids[1]))
                        return False
                    ok = bool(ds) and all(_end_ok(x.kids[1]) for x in ds)
                n += 1
                ctx.ob(rule, "%s@%d|%s" % (fn.name, k, arr), ok, tu.loc(lp),
                       "row %s of %s: [%s, %s)" % (idx, arr, estr(st), et) if ok else
                       "loop starts at %s but ends at `%s`, which is not %s[%s + 1]" % (estr(st), et, arr, idx))
                k += 1
    return n


def min_init(ctx, P, scope, rule="MIN-INIT", tus=None):
    """first = MIN(j, first) over j in [0, N): the value that stands for 'none yet' must be >= N."""
    from sa.guards import CountResolver
    from .lib_mem import _loop_counter
    ctx.rule(rule, "a running minimum over row ids (`x = TSK_MIN(j, x)` with j the counter of a loop over N rows) is initialised with "
                   "a value outside the id range, i.e. >= N (N itself, resolved through locals, fields and casts): N - 1 is a valid "
                   "id and makes 'no row refers to this' indistinguishable from 'the last row does'")
    R = CountResolver(P)
    n = 0
    for key in (tus or LIB_TUS):
        tu = P.tus[key]
        for fn in tu.funcs.values():
            if fn.body is None or not scope(key, fn.name):
                continue
            src = tu.src(fn.body)
            if "TSK_MIN" not in src:
                continue
            k = 0
            for lp in walk(fn.body):
                if lp.k != "ForStmt" or len(lp.kids) < 5 or lp.kids[2] is None:
                    continue
                j = _loop_counter(lp)
                cond = strip(lp.kids[2])
                if not j or cond is None or cond.k != "BinaryOperator" or cond.op != "<":
                    continue
                bcls = R.classify(cond.kids[1], fn)
                if bcls is None:
                    continue
                for x in walk(lp.kids[4]):
                    if not (x.k == "BinaryOperator" and x.op == "="):
                        continue
                    rs = " ".join(tu.src(x.kids[1]).split())
                    m = re.match(r"TSK_MIN\((.*)\)$", rs)
                    if not m:
                        continue
                    args = macro_args("TSK_MIN(" + m.group(1) + ")")
                    tgt_src = " ".join(tu.src(x.kids[0]).split())
                    if len(args) != 2 or j not in [a.strip() for a in args] or tgt_src not in [a.strip() for a in args]:
                        continue
                    field = re.sub(r"^.*(\.|->)", "", tgt_src)
                    # initial stores to the same field / variable outside this loop
                    inits = [y for y in walk(fn.body) if y.k == "BinaryOperator" and y.op == "=" and not (lp.b <= y.b <= lp.e)
                             and re.sub(r"^.*(\.|->)", "", " ".join(tu.src(y.kids[0]).split())) == field]
                    for y in inits:
                        cls = R.classify(y.kids[1], fn)
                        n += 1
                        if cls is None:
                            ctx.ob(rule, "%s|%s@%d" % (fn.name, field, k), True, tu.loc(y), "initial value `%s` is not a row count (not judged)" % estr(y.kids[1]))
                        else:
                            ok = cls[0] == bcls[0] and cls[1] >= bcls[1]
                            ctx.ob(rule, "%s|%s@%d" % (fn.name, field, k), ok, tu.loc(y),
                                   "`%s` starts at count(%s)%+d, outside the ids 0 .. count(%s)%+d the loop offers" % (field, cls[0], cls[1], bcls[0], bcls[1] - 1) if ok else
                                   "`%s` starts at count(%s)%+d, which is an id the loop over count(%s)%+d rows can offer (or another table's count)"
                                   % (field, cls[0], cls[1], bcls[0], bcls[1]))
                        k += 1
    return n


def const_index_guard(ctx, P, scope, rule="CONST-INDEX", tus=None):
    from sa.expr import const_int
    ctx.rule(rule, "where a function rejects some values of `obj->F_length` with an error exit and afterwards reads `obj->F[c]` at a "
                   "constant index c, the rejecting condition is true for every length 0 .. c (evaluated exactly over the "
                   "comparison / && / || structure of the condition): `mutations_length > 1` lets a site without mutations "
                   "through to `mutations[0]`")

    def ev(node, lenname, L):
        node = strip(node)
        if node is None:
            return None
        c = const_int(node)
        if c is not None:
            return c
        if node.k == "MemberExpr" and estr(node) == lenname:
            return L
        if node.k == "UnaryOperator" and node.op == "!":
            v = ev(node.kids[0], lenname, L)
            return None if v is None else int(not v)
        if node.k == "BinaryOperator":
            a, b = ev(node.kids[0], lenname, L), ev(node.kids[1], lenname, L)
            op = node.op
            if op == "||":
                if a == 1 or b == 1 or a is True or b is True:
                    return 1
                return None if (a is None or b is None) else int(bool(a) or bool(b))
            if op == "&&":
                if a == 0 or b == 0:
                    return 0
                return None if (a is None or b is None) else int(bool(a) and bool(b))
            if a is None or b is None:
                return None
            return {"==": a == b, "!=": a != b, "<": a < b, "<=": a <= b, ">": a > b, ">=": a >= b}.get(op) if op in ("==", "!=", "<", "<=", ">", ">=") else None
        return None
    n = 0
    for key in (tus or LIB_TUS):
        tu = P.tus[key]
        for fn in tu.funcs.values():
            if fn.body is None or not scope(key, fn.name):
                continue
            k = 0
            done = set()
            for x in walk(fn.body):
                if x.k != "ArraySubscriptExpr":
                    continue
                c = const_int(x.kids[1])
                b = strip(x.kids[0])
                if c is None or b is None or b.k != "MemberExpr":
                    continue
                lenname = "%s%s%s_length" % (estr(b.kids[0]), "->" if b.arrow else ".", b.name)
                if (lenname, c) in done:
                    continue
                guards = []
                for g in walk(fn.body):
                    if g.k == "IfStmt" and g.e <= x.b and len(g.kids) > 1 and g.kids[1] is not None and lenname in estr(g.kids[0]):
                        s = tu.src(g.kids[1])
                        if ("TSK_ERR_" in s or "tsk_trace_error" in s) and any(y.k in ("GotoStmt", "ReturnStmt") for y in walk(g.kids[1])):
                            guards.append(g)
                if not guards:
                    continue
                done.add((lenname, c))
                n += 1
                bad = [L for L in range(0, c + 1) if not any(ev(g.kids[0], lenname, L) == 1 for g in guards)]
                ctx.ob(rule, "%s|%s[%d]" % (fn.name, estr(b), c), not bad, tu.loc(x),
                       "lengths 0..%d are rejected before %s[%d] is read" % (c, estr(b), c) if not bad else
                       "%s == %s passes the check(s) %s and %s[%d] is then read" % (lenname, bad[0], [estr(g.kids[0]) for g in guards], estr(b), c))
                k += 1
    return n


def ownership_handoff(ctx, P, scope, rule="OWNERSHIP-HANDOFF", tus=None):
    from sa.cfg import CFG
    ctx.rule(rule, "a local pointer that the function frees during cleanup and also hands over to the caller (`*dest = p`, "
                   "`obj->f = p`) is set to NULL after the hand-over on every path that can still reach the free: otherwise the "
                   "buffer now owned by the table is freed here and again by its owner")
    n = 0
    for key in (tus or LIB_TUS):
        tu = P.tus[key]
        for fn in tu.funcs.values():
            if fn.body is None or not scope(key, fn.name):
                continue
            frees = {}
            for c in walk(fn.body):
                if c.k == "CallExpr" and callee(c) in ("tsk_safe_free", "__tsk_safe_free", "free", "tsk_free") and len(c.kids) > 1:
                    a = strip(c.kids[1])
                    while a is not None and a.k in ("UnaryOperator", "CStyleCastExpr") and a.kids:
                        a = strip(a.kids[-1])
                    if a is not None and a.k == "DeclRefExpr" and a.refkind in (None, "VarDecl") and a.ref:
                        frees.setdefault(a.ref, []).append(c)
            if not frees:
                continue
            hand = []
            for x in walk(fn.body):
                if x.k == "BinaryOperator" and x.op == "=":
                    r = strip(x.kids[1])
                    while r is not None and r.k == "CStyleCastExpr" and r.kids:
                        r = strip(r.kids[-1])
                    l = strip(x.kids[0])
                    if r is not None and r.k == "DeclRefExpr" and r.ref in frees and l is not None and l.k in ("UnaryOperator", "MemberExpr", "ArraySubscriptExpr"):
                        # the destination must belong to the caller: its root is a parameter reached through a pointer
                        root, through_ptr = l, False
                        while root is not None and root.k in ("UnaryOperator", "MemberExpr", "ArraySubscriptExpr", "ParenExpr", "ImplicitCastExpr"):
                            if (root.k == "UnaryOperator" and root.op == "*") or (root.k == "MemberExpr" and root.arrow) or root.k == "ArraySubscriptExpr":
                                through_ptr = True
                            root = strip(root.kids[0]) if root.kids else None
                        params = {p_.name for p_ in fn.params}
                        if root is not None and root.k == "DeclRefExpr" and through_ptr and (root.ref in params or "*" in (root.ty or "")):
                            hand.append((r.ref, x))
            if not hand:
                continue
            cfg = CFG(fn)

            def node_of(c):
                for nd in cfg.nodes:
                    if nd.ast is not None and nd.kind in ("stmt", "cond") and any(y is c for y in walk(nd.ast)):
                        return nd
                return None
            for k, (name, x) in enumerate(hand):
                hn = node_of(x)
                fnodes = {node_of(c) for c in frees[name]} - {None}
                nulls = {nd for nd in cfg.nodes if nd.kind == "stmt" and nd.ast is not None and nd.ast.k == "BinaryOperator" and nd.ast.op == "="
                         and estr(nd.ast.kids[0]) == name and estr(nd.ast.kids[1]) in ("NULL", "((void *)0)", "0")}
                # a re-assignment from an allocation also ends the obligation
                nulls |= {nd for nd in cfg.nodes if nd.kind == "stmt" and nd.ast is not None and nd.ast.k == "BinaryOperator" and nd.ast.op == "="
                          and estr(nd.ast.kids[0]) == name and nd is not hn}
                if hn is None or not fnodes:
                    continue
                n += 1
                wit = None
                for s_, _lab in hn.succ:
                    if s_ in nulls:
                        continue
                    if s_ in fnodes:
                        wit = [hn, s_]
                        break
                    p = cfg.find_path(s_, fnodes, avoid=nulls)
                    if p:
                        wit = [hn] + p
                        break
                ctx.ob(rule, "%s|%s@%d" % (fn.name, name, k), wit is None, tu.loc(x),
                       "`%s` is NULLed after `%s` before any free can see it" % (name, estr(x)[:60]) if wit is None else
                       "after `%s` a path reaches the free of `%s` (lines %s) without `%s = NULL`: double free" %
                       (estr(x)[:60], name, " -> ".join(tu.loc(p_.ast).split(":")[-1] for p_ in wit if p_.ast is not None)[:60], name))
    return n


NAN_CODES = ("TSK_ERR_SEEK_OUT_OF_BOUNDS", "TSK_ERR_BAD_WINDOWS", "TSK_ERR_POSITION_OUT_OF_BOUNDS", "TSK_ERR_BAD_PARAM_VALUE")


def guard_nan(ctx, P, rule="GUARD-NAN", tus=("trees",), funcs=None):
    """Range guards over caller-supplied genome coordinates (double) must be true for NaN."""
    from sa.guards import find_guards
    ctx.rule(rule, "a guard that protects a tree sweep from a caller-supplied genome coordinate (seek position, window breakpoints, "
                   "two-locus positions: error codes SEEK_OUT_OF_BOUNDS, BAD_WINDOWS, POSITION_OUT_OF_BOUNDS) rejects NaN: for every "
                   "double-typed parameter (or element of a double array parameter inside the loop over it) that such guards test, "
                   "at least one of them evaluates to TRUE when that value is NaN (every ordered comparison with NaN is false, so "
                   "`x < 0 || x >= L` lets NaN through and the sweep that follows never terminates, asserts, or reads unset memory; "
                   "`!(x >= 0 && x < L)` and `!(w[j] < w[j + 1])` do not)")

    def nan_eval(n, names):
        n = strip(n)
        if n is None:
            return None
        if n.k == "UnaryOperator" and n.op == "!":
            v = nan_eval(n.kids[0], names)
            return None if v is None else (not v)
        if n.k == "BinaryOperator" and n.op in ("||", "&&"):
            a, b = nan_eval(n.kids[0], names), nan_eval(n.kids[1], names)
            if n.op == "||":
                return True if (a is True or b is True) else False if (a is False and b is False) else None
            return False if (a is False or b is False) else True if (a is True and b is True) else None
        if n.k == "BinaryOperator" and n.op in ("<", "<=", ">", ">=", "==", "!="):
            touched = any(any(y.k == "DeclRefExpr" and y.ref in names for y in walk(k_)) for k_ in n.kids[:2])
            if not touched:
                return None
            return n.op == "!="
        if n.k == "CallExpr":
            c = callee(n) or ""
            touched = any(y.k == "DeclRefExpr" and y.ref in names for y in walk(n))
            if touched and "isfinite" in c:
                return False
            if touched and "isnan" in c:
                return True
        return None
    n = 0
    for key in tus:
        tu = P.tus[key]
        for fn in tu.funcs.values():
            if fn.body is None or (funcs is not None and fn.name not in funcs):
                continue
            gs = [g for g in find_guards(P, fn) if set(g.codes) & set(NAN_CODES)]
            if not gs:
                continue
            dparams = [p_ for p_ in fn.params if re.fullmatch(r"(const )?double( \*(restrict)?)?", (p_.ty or "").strip()) or (p_.ty or "").strip() in ("const double *", "double *", "double")]
            for p_ in dparams:
                if re.fullmatch(r"sequence_length|L", p_.name or ""):
                    continue        # the bound, taken from the tree sequence, not a caller-supplied coordinate
                is_ptr = "*" in (p_.ty or "")
                mine = [g for g in gs if any(y.k == "DeclRefExpr" and y.ref == p_.name for y in walk(g.ifn.kids[0]))]
                if not mine:
                    continue
                ok = False
                for g in mine:
                    if is_ptr:
                        # only guards whose subscript is not a constant generalise over the elements
                        subs = [y for y in walk(g.ifn.kids[0]) if y.k == "ArraySubscriptExpr" and estr(y.kids[0]) == p_.name]
                        from sa.expr import const_int
                        if not subs or all(const_int(y.kids[1]) is not None or estr(y.kids[1]) in ("num_windows", "num_positions") for y in subs):
                            continue
                    if nan_eval(g.ifn.kids[0], {p_.name}) is True:
                        ok = True
                n += 1
                ctx.ob(rule, "%s|%s" % (fn.name, p_.name), ok, tu.loc(mine[0].ifn),
                       "a NaN in `%s` is rejected" % p_.name if ok else
                       "no guard on `%s` is true for NaN (%s): a NaN coordinate passes validation" % (p_.name, "; ".join(estr(g.ifn.kids[0])[:50] for g in mine[:3])))
    ctx.floor(rule, 3 if funcs is None else len(funcs))
    return n


def validate_all(ctx, P, scope, rule="VALIDATE-ALL", tus=None):
    """A loop that can reject its input (its body has an error exit `tsk_trace_error(...)` … `goto out`) examines every element:
    a `break` that belongs to that loop stops the validation at the first element matching some OTHER condition (a NULL
    entry, a sentinel), and whatever follows it is accepted unexamined."""
    ctx.rule(rule, "a loop whose body has an error exit (ret = tsk_trace_error(…); goto out) has no `break` of its own: validation "
                   "loops examine every element; skipping one element is `continue` or a nested `if`, never `break` (which would "
                   "accept the rest of the list unexamined)")
    n = 0

    def own_breaks(node):
        out = []
        for k in (node.kids or []):
            if k is None or k.k in ("ForStmt", "WhileStmt", "DoStmt", "SwitchStmt"):
                continue
            if k.k == "BreakStmt":
                out.append(k)
            out += own_breaks(k)
        return out
    for key in (tus or LIB_TUS):
        tu = P.tus[key]
        for fn in tu.funcs.values():
            if fn.body is None or not scope(key, fn.name):
                continue
            k = 0
            for lp in walk(fn.body):
                if lp.k not in ("ForStmt", "WhileStmt") or not lp.kids or lp.kids[-1] is None:
                    continue
                src = tu.src(lp.kids[-1])
                if "tsk_trace_error" not in src or "goto out" not in src:
                    continue
                br = own_breaks(lp.kids[-1])
                n += 1
                ctx.ob(rule, "%s@%d" % (fn.name, k), not br, tu.loc(br[0] if br else lp),
                       "validating loop examines every element" if not br else
                       "`break` in a validating loop: the elements after the one that triggers it are never checked")
                k += 1
    return n


# (function, local): an out-parameter result that is legitimately ignored, confirmed by reading
OUT_UNREAD_OK = {
    ("ancestor_mapper_merge_ancestors", "num_flushed_edges"): "link_ancestors never filters nodes: there is no node to take back when no edge was output",
}


def out_unread(ctx, P, scope, rule="OUT-UNREAD", tus=None):
    """A scalar local whose only uses are `&v` arguments: the callee reports something through it and the caller never looks."""
    ctx.rule(rule, "a scalar local that is handed to a libtskit function by address (an out-parameter: a count, an id, a flag) is read "
                   "afterwards; a result that is requested and never consulted means the decision that depends on it is missing "
                   "(simplifier_merge_ancestors takes a node back when num_flushed_edges == 0; a sibling that asks for the count and "
                   "ignores it keeps the node)")
    n = 0
    scal = re.compile(r"^(tsk_size_t|tsk_id_t|int|double|size_t|bool|tsk_flags_t|unsigned int|\w+ \*|const \w+ \*)$")
    for key in (tus or LIB_TUS):
        if key == "module":
            continue
        tu = P.tus[key]
        for fn in tu.funcs.values():
            if fn.body is None or not scope(key, fn.name):
                continue
            locs = {d.name: d for d in walk(fn.body) if d.k == "VarDecl" and d.name and scal.match(d.ty or "")}
            if not locs:
                continue
            addr = {}
            for c in walk(fn.body):
                if c.k != "CallExpr":
                    continue
                for a in c.kids[1:]:
                    a0 = strip(a)
                    if a0 is not None and a0.k == "UnaryOperator" and a0.op == "&":
                        v = strip(a0.kids[0])
                        if v is not None and v.k == "DeclRefExpr" and v.ref in locs:
                            addr.setdefault(v.ref, []).append(c)
            for v, cs in sorted(addr.items()):
                refs = [x for x in walk(fn.body) if x.k == "DeclRefExpr" and x.ref == v]
                n += 1
                unread = len(refs) == len(cs)
                why = OUT_UNREAD_OK.get((fn.name, v))
                ctx.ob(rule, "%s|%s" % (fn.name, v), (not unread) or why is not None, tu.loc(cs[0]),
                       ("`%s` is read after %s fills it" % (v, callee(cs[0]))) if not unread else
                       ("accepted: %s" % why if why else
                        "`%s` is filled by %s and never read: whatever the caller should do with it is not done" % (v, callee(cs[0]))))
    return n


def guard_seqlen(ctx, P, rule="GUARD-SEQLEN"):
    """Every guard that raises TSK_ERR_BAD_SEQUENCE_LENGTH rejects NaN and infinity as well as values <= 0."""
    from sa.guards import find_guards
    ctx.rule(rule, "a sequence length is a finite positive number: every guard that raises TSK_ERR_BAD_SEQUENCE_LENGTH (the integrity "
                   "gate and the file reader) evaluates to TRUE when the value is NaN and when it is +infinity (`L <= 0` is false for "
                   "both; a NaN length makes an edgeless collection a tree sequence with no trees, an infinite one puts a breakpoint "
                   "at inf)")

    def ev(n, mode):
        n = strip(n)
        if n is None:
            return None
        if n.k == "UnaryOperator" and n.op == "!":
            v = ev(n.kids[0], mode)
            return None if v is None else (not v)
        if n.k == "BinaryOperator" and n.op in ("||", "&&"):
            a, b = ev(n.kids[0], mode), ev(n.kids[1], mode)
            if n.op == "||":
                return True if (a is True or b is True) else False if (a is False and b is False) else None
            return False if (a is False or b is False) else True if (a is True and b is True) else None
        if n.k == "BinaryOperator" and n.op in ("<", "<=", ">", ">=", "==", "!="):
            l, r = estr(n.kids[0]), estr(n.kids[1])
            lx, rx = bool(re.search(r"sequence_length|\bL\b", l)), bool(re.search(r"sequence_length|\bL\b", r))
            if lx == rx:
                return None
            if mode == "nan":
                return n.op == "!="
            op = n.op if lx else {"<": ">", "<=": ">=", ">": "<", ">=": "<=", "==": "==", "!=": "!="}[n.op]
            return op in (">", ">=", "!=")          # +inf compared with a finite value
        if n.k == "CallExpr":
            c = callee(n) or ""
            if re.search(r"sequence_length|\bL\b", " ".join(estr(a) for a in n.kids[1:])):
                if "isfinite" in c:
                    return False
                if "isnan" in c:
                    return mode == "nan"
        return None
    n = 0
    for key in ("tables", "trees"):
        tu = P.tus[key]
        for fn in tu.funcs.values():
            if fn.body is None:
                continue
            for k, g in enumerate(g_ for g_ in find_guards(P, fn) if "TSK_ERR_BAD_SEQUENCE_LENGTH" in g_.codes):
                cond = g.ifn.kids[0]
                vn, vi = ev(cond, "nan"), ev(cond, "inf")
                n += 1
                ok = vn is True and vi is True
                ctx.ob(rule, "%s@%d" % (fn.name, k), ok, tu.loc(g.ifn),
                       "`%s` rejects NaN and infinity" % " ".join(tu.src(cond).split())[:60] if ok else
                       "`%s` is %s for NaN and %s for +inf: a %s sequence length is accepted" % (
                           " ".join(tu.src(cond).split())[:60], vn, vi, "NaN" if vn is not True else "infinite"))
    ctx.ob(rule, "instances", n >= 2, "c/tskit/tables.c", "%d BAD_SEQUENCE_LENGTH guards analysed" % n)
    return n


def use_count(ctx, P, scope, rule="USE-COUNT", tus=None):
    """Engler-style contradiction: a per-element use counter (`used[e]++`) whose value is tested before SOME increments
    (`if (used[e] != 1) error`) is tested before all of them; the untested increment relies on a belief the tested ones check."""
    ctx.rule(rule, "a per-element use counter is checked at every increment: if a function tests `X[e]` against its expected count "
                   "before one `X[e]++`, it does so before each (in the same block, same subscript); an increment without the test "
                   "accepts an element used twice – in the tree-integrity sweep, a removal order that names one edge several times")
    n = 0
    for key in (tus or LIB_TUS):
        tu = P.tus[key]
        for fn in tu.funcs.values():
            if fn.body is None or not scope(key, fn.name):
                continue
            incs = []
            for blk in walk(fn.body):
                if blk.k != "CompoundStmt":
                    continue
                kids = [k for k in (blk.kids or []) if k is not None]
                for i, s in enumerate(kids):
                    s0 = strip(s)
                    if s0 is not None and s0.k == "UnaryOperator" and s0.op in ("++", "post++", "pre++") or \
                            (s0 is not None and s0.k == "UnaryOperator" and "++" in (s0.op or "")):
                        t = strip(s0.kids[0])
                        if t is not None and t.k == "ArraySubscriptExpr":
                            arr, idx = estr(t.kids[0]), estr(t.kids[1])
                            tested = any(k.k == "IfStmt" and re.search(r"\b%s\s*\[\s*%s\s*\]\s*(!=|==|>|<)" % (re.escape(arr), re.escape(idx)),
                                                                      " ".join(tu.src(k.kids[0]).split())) for k in kids[:i])
                            incs.append((arr, idx, tested, s))
            by_arr = {}
            for arr, idx, tested, s in incs:
                by_arr.setdefault(arr, []).append((idx, tested, s))
            for arr, lst in by_arr.items():
                if not any(t for _, t, _ in lst):
                    continue        # a plain counter, never compared: not a use counter
                for k, (idx, tested, s) in enumerate(lst):
                    n += 1
                    ctx.ob(rule, "%s|%s@%d" % (fn.name, arr, k), tested, tu.loc(s),
                           "`%s[%s]` is compared with its expected count before this increment" % (arr, idx) if tested else
                           "`%s[%s]++` without the test its sibling increments have: an element counted twice is accepted here" % (arr, idx))
    return n


def alias_guard(ctx, P, scope, rule="ALIAS-GUARD", tus=None):
    """f(T *self, const T *other, …) that appends to self while it reads other must refuse self == other."""
    ctx.rule(rule, "a library function with a mutable `self` and a `const` `other` of the SAME struct type that adds rows to self "
                   "(…_add_row / …_extend / …_append_columns on self or a table of self) tests `self == other` first: read loops "
                   "bounded by other's row counts never end, and arrays sized from them overflow, when the rows they append are "
                   "other's own (the eight tsk_<T>_table_extend functions do; any sibling that does not is reported)")
    n = 0
    for key in (tus or LIB_TUS):
        tu = P.tus[key]
        for fn in tu.funcs.values():
            if fn.body is None or not scope(key, fn.name) or len(fn.params) < 2 or getattr(fn, "static", False):
                continue        # static helpers are reached only through the public entry, which carries the test
            p0, p1 = fn.params[0], fn.params[1]
            t0 = (p0.ty or "").replace("const ", "").strip()
            t1 = (p1.ty or "").strip()
            if p0.name != "self" or p1.name != "other" or "const" in (p0.ty or "") or "const" not in t1 or t1.replace("const ", "").strip() != t0:
                continue
            src = " ".join(tu.src(fn.body).split())
            appends = re.search(r"_(add_row|extend|append_columns)\(\s*&?\s*self\b", src) is not None
            if not appends:
                continue
            n += 1
            ok = re.search(r"self\s*==\s*other|other\s*==\s*self", src) is not None
            ctx.ob(rule, fn.name, ok, tu.loc(fn.node), "refuses self == other" if ok else
                   "%s appends to self while reading other and never tests self == other" % fn.name)
    return n


ALLOCATORS = {"tsk_malloc", "tsk_calloc", "tsk_realloc", "malloc", "calloc", "realloc", "PyMem_Malloc", "PyMem_Realloc", "PyDataMem_NEW",
              "tsk_blkalloc_get"}


def alloc_err(ctx, P, scope, rule="ALLOC-ERR", tus=None):
    """Every NULL test of an allocation result leaves the function with an error: the NULL branch reaches no return without an
    error having been set (ret = <error>, PyErr_NoMemory(), handle_library_error) and does not fall through to the code that
    uses the pointer.  Allocator wrappers (functions that return the pointer) are exempt: their callers are checked instead,
    the wrappers being added to the allocator set."""
    from sa.cfg import CFG
    ctx.rule(rule, "an allocation failure is reported: on the branch where the result of tsk_malloc / tsk_calloc / tsk_realloc / "
                   "PyMem_Malloc / tsk_blkalloc_get (or of a pointer-returning wrapper of one) is NULL, every path to a return "
                   "passes an assignment of an error to `ret` (or PyErr_NoMemory / handle_library_error), unless `ret` was "
                   "initialised to an error, and the branch does not fall through to the code after the test (which would use "
                   "the NULL pointer).  A `goto out` with ret == 0 makes the caller continue with a NULL array")
    n = 0
    for key in (tus or LIB_TUS):
        tu = P.tus[key]
        # pointer-returning wrappers of allocators, transitively
        alloc = set(ALLOCATORS)
        changed = True
        while changed:
            changed = False
            for f in tu.funcs.values():
                if f.body is None or f.name in alloc or "*" not in (getattr(f, "ret", None) or tu.src(f.node).split(f.name)[0]):
                    continue
                if any(callee(c) in alloc for c in calls(f.body)) and re.search(r"alloc", f.name):
                    alloc.add(f.name)
                    changed = True
        for fn in tu.funcs.values():
            if fn.body is None or not scope(key, fn.name) or fn.name in alloc:
                continue
            sites = {}
            for x in walk(fn.body):
                if x.k == "BinaryOperator" and x.op == "=":
                    r = strip(x.kids[1])
                    if r is not None and r.k == "CallExpr" and callee(r) in alloc:
                        sites.setdefault(" ".join(tu.src(x.kids[0]).split()), []).append(x)
                elif x.k == "VarDecl" and x.kids:
                    r = strip(x.kids[-1])
                    if r is not None and r.k == "CallExpr" and callee(r) in alloc:
                        sites.setdefault(x.name, []).append(x)
            if not sites:
                continue
            cfg = CFG(fn)
            rets = [c for c in cfg.nodes if c.kind == "stmt" and c.ast is not None and c.ast.k == "ReturnStmt"]

            def sets_err(c):
                if c.ast is None or c.kind not in ("stmt", "cond"):
                    return False
                t = " ".join(tu.src(c.ast).split())
                if "PyErr_NoMemory" in t or "handle_library_error" in t or "PyErr_Set" in t:
                    return True
                m = re.search(r"\bret\s*=\s*([^;]+)", t)
                return m is not None and m.group(1).strip() not in ("0", "NULL") and not t.startswith("if")
            errn = [c for c in cfg.nodes if sets_err(c)]
            init = None
            for d in walk(fn.body):
                if d.k == "VarDecl" and d.name == "ret" and d.kids:
                    init = " ".join(tu.src(d.kids[-1]).split())
            k = 0

            def null_var(c):
                if c.kind != "cond" or c.ast is None:
                    return None
                t = " ".join(tu.src(c.ast).split()).strip("()").strip()
                m = re.fullmatch(r"(.+?)\s*==\s*NULL|NULL\s*==\s*(.+)", t)
                return (m.group(1) or m.group(2)).strip() if m else None
            # the tests that examine an allocation: the first NULL tests of the variable reachable from the allocating node
            first_tests = set()
            for var, alist in sites.items():
                for a in alist:
                    starts = [c for c in cfg.nodes if c.ast is not None and c.kind in ("stmt", "cond") and any(y is a for y in walk(c.ast))]
                    seen, todo = set(), list(starts)
                    while todo:
                        c = todo.pop()
                        if c in seen:
                            continue
                        seen.add(c)
                        if c not in starts and null_var(c) == var:
                            first_tests.add((c, var))
                            continue
                        if c not in starts and c.ast is not None and c.kind == "stmt" and re.match(r"%s\s*=[^=]" % re.escape(var), " ".join(tu.src(c.ast).split())):
                            continue        # re-assigned before any test
                        todo.extend(s_ for s_, _ in c.succ)
            tested_vars = {v_ for _, v_ in first_tests}
            for var, alist in sorted(sites.items()):
                if var in tested_vars:
                    continue
                # `*out = malloc(..); if (*out == NULL)` and `p = malloc(); if (!p)` are written differently: look for any NULL test
                e_ = re.escape(var)
                body_src = " ".join(tu.src(fn.body).split())
                # (`x != NULL` does not count: it is how the cleanup guards free(x))
                anyt = re.search(r"(%s\s*==\s*NULL|NULL\s*==\s*%s|!\s*%s\b|tsk_bug_assert\(\s*%s\s*!=\s*NULL\s*\))" % (e_, e_, e_, e_), body_src) is not None
                returned = re.search(r"return\s+(\([^)]*\)\s*)?%s\s*;" % e_, body_src) is not None
                n += 1
                ctx.ob(rule, "%s|%s|tested" % (fn.name, var), anyt or returned, tu.loc(alist[0]),
                       "the allocation of `%s` is tested (or returned to a caller that tests it)" % var if (anyt or returned) else
                       "`%s` is allocated and never compared with NULL: an allocation failure is dereferenced" % var)
            for c in cfg.nodes:
                var = null_var(c)
                if var is None or (c, var) not in first_tests:
                    continue
                nulls = [s for s, lab in c.succ if lab is True]
                cont = [s for s, lab in c.succ if lab is False]
                n += 1
                why = None
                if init in (None, "0", "NULL"):
                    for s in nulls:
                        if s in errn:
                            continue
                        p = cfg.find_path(s, set(rets), avoid=errn)
                        if p:
                            why = "the NULL branch returns without setting an error (ret stays %s)" % (init or "unset")
                            break
                if why is None and cont:
                    # chained `a == NULL || b == NULL` tests share their NULL target; only the last link has a real continuation
                    for s in nulls:
                        if s in cont:
                            continue
                        reach = cfg.reach(s, avoid=[x for x in cfg.nodes if x.kind == "join" and x.note and "label" in x.note])
                        real = [x for x in cont if x.kind != "cond" or _null_cond(tu, x) is None]
                        if any(x in reach for x in real) and s.kind != "cond":
                            why = "the NULL branch falls through to the code after the test, which uses `%s`" % var
                            break
                ctx.ob(rule, "%s|%s@%d" % (fn.name, var, k), why is None, tu.loc(c.ast),
                       "a NULL `%s` leaves %s with an error" % (var, fn.name) if why is None else why)
                k += 1
    return n


def _null_cond(tu, node):
    t = " ".join(tu.src(node.ast).split()).strip("()").strip() if node.ast is not None else ""
    return True if re.fullmatch(r".+?\s*==\s*NULL|NULL\s*==\s*.+", t) else None


ERR_VARS = ("ret", "err", "ret_id")


def err_var(ctx, P, scope, rule="ERR-VAR", tus=None):
    """`ret_id = f(…); if (ret < 0)`: the test that follows a fallible call looks at another error variable than the one assigned."""
    ctx.rule(rule, "the error test that directly follows `v = <call>` (v one of ret / err / ret_id) tests v: a test of a DIFFERENT error "
                   "variable there examines the result of an earlier call, and the failure of this one is used as a valid value "
                   "(an id of -<error> stored into a map)")
    n = 0
    for key in (tus or LIB_TUS):
        tu = P.tus[key]
        for fn in tu.funcs.values():
            if fn.body is None or not scope(key, fn.name):
                continue
            k = 0
            for blk in walk(fn.body):
                if blk.k != "CompoundStmt":
                    continue
                kids = [x for x in (blk.kids or []) if x is not None]
                for a, b in zip(kids, kids[1:]):
                    a0 = strip(a)
                    if a0 is None or a0.k != "BinaryOperator" or a0.op != "=" or b.k != "IfStmt":
                        continue
                    v = estr(a0.kids[0])
                    r = strip(a0.kids[1])
                    if v not in ERR_VARS or r is None or r.k != "CallExpr":
                        continue
                    cond = " ".join(tu.src(b.kids[0]).split()).strip("()")
                    m = re.fullmatch(r"(\w+)\s*(<|!=|==|>)\s*0", cond)
                    if not m or m.group(1) not in ERR_VARS:
                        continue
                    n += 1
                    ok = m.group(1) == v
                    ctx.ob(rule, "%s@%d" % (fn.name, k), ok, tu.loc(b),
                           "`%s` is tested after it is assigned" % v if ok else
                           "`%s = %s(…)` is followed by a test of `%s`: the result just assigned is never examined" % (v, callee(r), m.group(1)))
                    k += 1
    return n


def memset_count(ctx, P, scope, rule="MEMSET-COUNT", tus=None):
    """malloc(n * sizeof(*x)) … memset(x, v, sizeof(*x)): the initialisation covers one element of an n-element array."""
    ctx.rule(rule, "a memset that initialises a heap array covers the whole allocation: when `x` was allocated with "
                   "`<count> * sizeof(*x)` in the same function, `memset(x, …, size)` mentions that count (or the same product); "
                   "`memset(x, 0, sizeof(*x))` zeroes one slot and the cleanup loop then releases uninitialised pointers")
    n = 0
    for key in (tus or LIB_TUS):
        tu = P.tus[key]
        for fn in tu.funcs.values():
            if fn.body is None or not scope(key, fn.name):
                continue
            alloc = {}
            for x in walk(fn.body):
                if x.k == "BinaryOperator" and x.op == "=":
                    r = strip(x.kids[1])
                    if r is not None and r.k == "CallExpr" and callee(r) in ALLOCATORS and len(r.kids) >= 2:
                        sz = " ".join(tu.src(r.kids[-1]).split())
                        m = re.match(r"(.+?)\s*\*\s*sizeof\(", sz)
                        if m and m.group(1).strip() not in ("1",):
                            alloc[" ".join(tu.src(x.kids[0]).split())] = m.group(1).strip().strip("()")
            if not alloc:
                continue
            k = 0
            for c in calls(fn.body):
                if callee(c) not in ("memset", "tsk_memset") or len(c.kids) < 4:
                    continue
                tgt = " ".join(tu.src(c.kids[1]).split())
                if tgt not in alloc:
                    continue
                sz = " ".join(tu.src(c.kids[3]).split())
                cnt = alloc[tgt]
                n += 1
                ok = cnt in sz or not re.fullmatch(r"sizeof\s*\(.*\)", sz)      # a bare sizeof(...) is ONE element
                ctx.ob(rule, "%s|%s@%d" % (fn.name, tgt, k), ok, tu.loc(c), "memset covers `%s` elements" % cnt if ok else
                       "`%s` was allocated with %s elements but `memset(…, %s)` initialises one" % (tgt, cnt, sz))
                k += 1
    return n


def keep_rows_atomic(ctx, P, rule="KEEP-ROWS-ATOMIC"):
    ctx.rule(rule, "tsk_<T>_table_keep_rows validates before it compacts: every subset_*column call (which moves rows in place) comes "
                   "after the last error exit of the function, so a rejected keep mask leaves the table exactly as it was")
    tu = P.tus["tables"]
    n = 0
    for fn in tu.funcs.values():
        if fn.body is None or not re.fullmatch(r"tsk_\w+_table_keep_rows", fn.name):
            continue
        body_src = tu.src(fn.body)
        errs = [fn.body.b + m_.start() for m_ in re.finditer(r"tsk_trace_error\s*\(", body_src)]     # a macro: located in the text
        subs = [x for x in walk(fn.body) if x.k == "CallExpr" and (callee(x) or "").startswith("subset_")]
        if not subs:
            continue
        n += 1
        last_err = max(errs, default=-1)
        first_sub = min(x.b for x in subs)
        ok = first_sub > last_err
        early = [x for x in subs if x.b < last_err]
        ctx.ob(rule, fn.name, ok, tu.loc(early[0] if early else subs[0]), "all %d compaction calls follow the last error exit" % len(subs) if ok else
               "%s compacts a column (%s) before its last validation error exit: a rejected call has already moved rows" % (fn.name, callee(early[0])))
    ctx.ob(rule, "instances", n >= 8, "c/tskit/tables.c", "%d keep_rows functions" % n)
    return n


def id_array_first_use(ctx, P, rule="ID-ARRAY-VALIDATED"):
    """Arrays of ids handed to a public library function (const tsk_id_t *) are range-tested before any element is used as a
    subscript.  Per (function, parameter): TESTS (an element, or a local loaded from one, is compared with < / >=), USES
    (an element or such a local subscripts another array).  Walking a public function's uses and calls in source order, the
    first consumer must be a tester (directly, or the callee it is first passed to, transitively)."""
    ctx.rule(rule, "for every `const tsk_id_t *` parameter of a public libtskit function, the first thing that consumes the array – "
                   "in the function or in the callee it is first handed to, transitively – range-tests its elements before any "
                   "element (or a local loaded from one) is used as a subscript of another array; "
                   "`n = sample_sets[k]; … nodes_time[n]` ahead of the validating callee reads out of bounds for a huge id")
    funcs = {}
    for key in LIB_TUS:
        for f in P.tus[key].funcs.values():
            if f.body is not None:
                funcs[f.name] = (key, f)
    info = {}
    for name, (key, f) in funcs.items():
        for i, p_ in enumerate(f.params):
            if not (p_.name and re.fullmatch(r"const tsk_id_t \*(restrict)?", (p_.ty or "").strip())):
                continue
            pn = p_.name
            loaded = set()
            for x in walk(f.body):
                if x.k == "BinaryOperator" and x.op == "=":
                    r = strip(x.kids[1])
                    if r is not None and r.k == "ArraySubscriptExpr" and estr(r.kids[0]) == pn:
                        loaded.add(estr(x.kids[0]))
                elif x.k == "VarDecl" and x.kids:
                    r = strip(x.kids[-1])
                    if r is not None and r.k == "ArraySubscriptExpr" and estr(r.kids[0]) == pn:
                        loaded.add(x.name)
            uses, tests = [], False
            for x in walk(f.body):
                if x.k == "ArraySubscriptExpr" and estr(x.kids[0]) != pn:
                    idx = strip(x.kids[1])
                    if idx is not None and (estr(idx) in loaded or (idx.k == "ArraySubscriptExpr" and estr(idx.kids[0]) == pn)):
                        uses.append(x)
                elif x.k == "BinaryOperator" and x.op in ("<", ">=", ">", "<="):
                    for s_ in x.kids[:2]:
                        t = estr(s_)
                        if t in loaded or t.startswith(pn + "["):
                            tests = True
            # a range test moved into a helper that receives the ELEMENT: f(…, P[j]) / f(…, n) with f comparing that parameter
            for c in calls(f.body):
                g = funcs.get(callee(c) or "")
                if g is None:
                    continue
                for j, a in enumerate(c.kids[1:]):
                    t = estr(a)
                    if (t in loaded or t.startswith(pn + "[")) and j < len(g[1].params) and g[1].params[j].name:
                        gp = g[1].params[j].name
                        for y in walk(g[1].body):
                            if y.k == "BinaryOperator" and y.op in ("<", ">=", ">", "<=") and any(estr(s_) == gp for s_ in y.kids[:2]):
                                tests = True
            passes = sorted((c.b, callee(c), j) for c in calls(f.body) for j, a in enumerate(c.kids[1:]) if estr(a) == pn)
            info[(name, i)] = {"uses": uses, "tests": tests, "passes": passes, "pn": pn}

    def first_bad(name, i, seen=()):
        """the subscript that consumes an unvalidated element first, or None"""
        if (name, i) in seen or (name, i) not in info:
            return None
        d = info[(name, i)]
        if d["tests"]:
            return None
        ev = [(u.b, "use", u, None) for u in d["uses"][:1]] + [(b, "call", g, j) for b, g, j in d["passes"]]
        for b, kind, g, j in sorted(ev, key=lambda e: e[0]):
            if kind == "use":
                return (name, g)
            if g in funcs:
                gi = info.get((g, j))
                if gi and gi["tests"]:
                    return None
                r = first_bad(g, j, seen + ((name, i),))
                if r is not None:
                    return r
        return None
    n = 0
    for (name, i), d in sorted(info.items()):
        key, f = funcs[name]
        if getattr(f, "static", False):
            continue
        n += 1
        bad = first_bad(name, i)
        tu = P.tus[key]
        if bad is None:
            ctx.ob(rule, "%s|%s" % (name, d["pn"]), True, tu.loc(f.node), "`%s` is range-tested before its elements index anything" % d["pn"])
        else:
            btu = P.tus[funcs[bad[0]][0]]
            ctx.ob(rule, "%s|%s" % (name, d["pn"]), False, btu.loc(bad[1]),
                   "an element of `%s` reaches `%s` in %s before anything has range-tested it" % (d["pn"], " ".join(btu.src(bad[1]).split())[:40], bad[0]))
    ctx.ob(rule, "instances", n >= 30, "c/tskit", "%d public (function, id-array parameter) pairs" % n)
    return n


def alloc_size_bounded(ctx, P, rule="ALLOC-SIZE-BOUNDED"):
    """A count parsed from a Python argument that sizes an allocation (`PyMem_Malloc(n * sizeof …)`) has an upper bound."""
    from sa import modinfo
    ctx.rule(rule, "in the extension module an integer parsed from a Python argument that multiplies a sizeof in an allocation is "
                   "bounded above first (an `n > limit` / `n >= limit` test that raises, or a clamp `n = limit`): otherwise a huge "
                   "value wraps the byte count to something small and the library writes past the buffer")
    tu = P.tus["module"]
    n = 0
    for fn in tu.funcs.values():
        if fn.body is None:
            continue
        parsed = set()
        for pc in modinfo.parse_calls(tu, fn):
            slots, _used = modinfo.dest_slots(pc)
            for u, ds in slots:
                if u in ("n", "i", "l", "L", "I", "k", "K") and ds:
                    d = strip(ds[0])
                    if d is not None and d.k == "UnaryOperator" and d.op == "&":
                        parsed.add(estr(strip(d.kids[0])))
        if not parsed:
            continue
        src = " ".join(tu.src(fn.body).split())
        for c in calls(fn.body):
            if callname(c) not in ALLOCATORS and callee(c) not in ALLOCATORS:
                continue
            sz = " ".join(tu.src(c.kids[-1]).split()) if len(c.kids) > 1 else ""
            for v in sorted(parsed):
                if re.search(r"\b%s\b" % re.escape(v), sz) and "sizeof" in sz:
                    n += 1
                    e = re.escape(v)
                    upper = re.search(r"\b%s\s*(>|>=)\s*[^=]|[^=<>]\s(<|<=)\s*%s\b" % (e, e), src) is not None
                    ctx.ob(rule, "%s|%s" % (fn.name, v), upper, tu.loc(c),
                           "`%s` is bounded above before it sizes `%s`" % (v, sz[:40]) if upper else
                           "`%s` comes straight from a Python argument and sizes `%s` with no upper bound: the product can wrap" % (v, sz[:40]))
    ctx.ob(rule, "instances", n >= 1, "python/_tskitmodule.c", "%d allocations sized by a parsed argument" % n)
    return n


def guard_index(ctx, P, scope, rule="GUARD-INDEX", tus=None):
    """`if (tj < M) { … O[tk] … }`: the counter whose bound is tested is not the counter that subscripts."""
    ctx.rule(rule, "a bound test `if (c < N)` that guards a subscript by a loop counter guards THAT counter: when the guarded statement "
                   "subscripts an index array with a different counter (`if (tj < M) right = MIN(right, edges.right[O[tk]])`) and "
                   "never uses the tested one, the test belongs to the sibling statement and this subscript is unguarded")
    n = 0
    for key in (tus or LIB_TUS):
        tu = P.tus[key]
        for fn in tu.funcs.values():
            if fn.body is None or not scope(key, fn.name):
                continue
            k = 0
            for x in walk(fn.body):
                if x.k != "IfStmt" or (len(x.kids) > 2 and x.kids[2] is not None):
                    continue
                c = strip(x.kids[0])
                if c is None or c.k != "BinaryOperator" or c.op != "<":
                    continue
                l = strip(c.kids[0])
                if l is None or l.k != "DeclRefExpr" or not re.fullmatch(r"t?[jk]|[jk]\d?", l.ref or ""):
                    continue
                cv = l.ref
                subs = [estr(strip(y.kids[1])) for y in walk(x.kids[1]) if y.k == "ArraySubscriptExpr" and strip(y.kids[1]) is not None
                        and strip(y.kids[1]).k == "DeclRefExpr"]
                counters = {s_ for s_ in subs if re.fullmatch(r"t?[jk]|[jk]\d?", s_)}
                if not counters:
                    continue
                n += 1
                uses_cv = any(y.k == "DeclRefExpr" and y.ref == cv for y in walk(x.kids[1]))
                ok = cv in counters or uses_cv
                ctx.ob(rule, "%s@%d" % (fn.name, k), ok, tu.loc(x), "`%s < …` guards a subscript by `%s`" % (cv, cv) if ok else
                       "`if (%s)` guards `%s`, which is subscripted by %s and never uses `%s`" % (
                           " ".join(tu.src(x.kids[0]).split()), " ".join(tu.src(x.kids[1]).split())[:50], sorted(counters), cv))
                k += 1
    return n


def append_offset(ctx, P, rule="APPEND-OFFSET"):
    ctx.rule(rule, "tsk_<T>_table_append_columns writes the new rows AFTER the existing ones: every tsk_memcpy / tsk_memset whose "
                   "destination is a fixed-width column of self starts at `self-><col> + self->num_rows` (a destination without the "
                   "offset overwrites the first rows of the table and leaves the appended ones unset)")
    tu = P.tus["tables"]
    n = 0
    for fn in tu.funcs.values():
        if fn.body is None or not re.fullmatch(r"tsk_\w+_table_append_columns", fn.name):
            continue
        k = 0
        for c in calls(fn.body):
            if callee(c) not in ("tsk_memcpy", "tsk_memset") or len(c.kids) < 3:
                continue
            d = " ".join(tu.src(c.kids[1]).split())
            m = re.match(r"&?\(?self->(\w+)", d)
            if not m or m.group(1).endswith("_offset") or re.search(r"self->%s_length|%s_offset" % (m.group(1), m.group(1)), d):
                continue        # ragged payloads are placed by their own length / offset
            col = m.group(1)
            if not re.search(r"self->%s_length\b" % col, tu.src(fn.body)):
                n += 1
                ok = "self->num_rows" in d
                ctx.ob(rule, "%s|%s@%d" % (fn.name, col, k), ok, tu.loc(c), "`%s` starts at the first new row" % d[:50] if ok else
                       "`%s(%s, …)` has no `+ self->num_rows`: it writes over the existing rows" % (callee(c), d[:50]))
                k += 1
    ctx.ob(rule, "instances", n >= 20, "c/tskit/tables.c", "%d fixed-width column writes in append_columns" % n)
    return n


def array_conversion_source(ctx, P, rule="ARRAY-CONVERTED"):
    """A PyArrayObject* local whose data the module reads comes from a converting constructor, never from a bare cast of the
    caller's object: the cast keeps whatever dtype, shape and strides the object has."""
    ctx.rule(rule, "every PyArrayObject* local of the module whose buffer is read (PyArray_DATA / PyArray_DIMS / PyArray_DIM) is "
                   "assigned only from a conversion that fixes dtype and layout (PyArray_FROMANY / PyArray_FromAny / "
                   "PyArray_SimpleNew… / a module helper), never from `(PyArrayObject *) <object>` on a fast path: a callback that "
                   "returns an int64 array would have its bytes read as doubles")
    tu = P.tus["module"]
    n = 0
    for fn in tu.funcs.values():
        if fn.body is None:
            continue
        locs = {d.name for d in walk(fn.body) if d.k == "VarDecl" and d.name and (d.ty or "") == "PyArrayObject *"}
        if not locs:
            continue
        src = tu.src(fn.body)
        read = {v for v in locs if re.search(r"PyArray_(DATA|DIMS|DIM|GETPTR\d|SHAPE)\(\s*%s\b" % re.escape(v), src)}
        for x in walk(fn.body):
            if x.k == "BinaryOperator" and x.op == "=":
                l = strip(x.kids[0])
                if l is None or l.k != "DeclRefExpr" or l.ref not in read:
                    continue
                r = strip(x.kids[1])
                if r is None or (r.k == "DeclRefExpr" and r.ref == "NULL") or estr(r) in ("NULL", "((void *)0)"):
                    continue
                n += 1
                ok = r.k == "CallExpr" or (r.k == "DeclRefExpr" and r.ref in locs)
                ctx.ob(rule, "%s|%s@%d" % (fn.name, l.ref, n), ok, tu.loc(x),
                       "`%s` comes from %s" % (l.ref, (callname(r) or callee(r) or estr(r))[:40]) if ok else
                       "`%s = %s` takes the caller's object as it is: its dtype and layout are not what the reads below assume"
                       % (l.ref, " ".join(tu.src(x.kids[1]).split())[:50]))
    ctx.ob(rule, "instances", n >= 60, "python/_tskitmodule.c", "%d assignments to array locals whose buffers are read" % n)
    return n
